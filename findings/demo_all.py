"""Concrete demonstrations of the defects the static checks report, against the real code in /repo.
Run:  /venv/bin/python /verif/findings/demo_all.py [F1 F3 ...]      (VERIF_REPO=<checkout> selects another tree)
Each demo prints DEFECT (behaviour violates the property) or FIXED."""
import os, sys, io, traceback
sys.path.insert(0, os.environ.get("VERIF_REPO", "/repo"))
from io import BytesIO

def F1():
    from buidl.pecc import PrivateKey, Signature, N
    pk = PrivateKey(12345); z = 0xdeadbeef
    sig = pk.sign(z)
    forged = Signature(sig.r, sig.s + N)
    return pk.point.verify(z, forged) is True, "verify(z, Signature(r, s+N)) -> %s" % pk.point.verify(z, forged)

def F2():
    from buidl.pecc import PrivateKey, N
    pk = PrivateKey(7)
    return pk.deterministic_k(N) != pk.deterministic_k(0), "deterministic_k(N) == deterministic_k(0): %s (RFC 6979 reduces the digest mod n)" % (pk.deterministic_k(N) == pk.deterministic_k(0))

def F3():
    import ast, inspect
    from buidl import pecc
    src = inspect.getsource(pecc.PrivateKey.sign)
    N = pecc.N
    thr_float = N / 2
    s = N // 2 + 1
    return "N / 2" in src and not (s > thr_float), "s = N//2+1 is high-S but `s > N / 2` is %s (float threshold)" % (s > thr_float)

def F4():
    from buidl.pecc import S256Point, G
    sec = G.sec()
    bad = b"\x05" + sec[1:]
    try:
        p = S256Point.parse_sec(bad)
        return True, "parse_sec(05||x) returned a point with parity %d" % p.parity
    except Exception as e:
        return False, "rejected: %r" % e

def F5():
    from buidl.pecc import FieldElement, Point
    p = 19
    a, b = FieldElement(0, p), FieldElement(7, p)
    P = Point(FieldElement(10, p), FieldElement(0, p), a, b)   # 10^3 + 7 = 1007 = 53 * 19: (10, 0) has order 2
    try:
        r = P + P
        ok1 = r.x is None
        m1 = "P+P = %r" % (r,)
    except Exception as e:
        ok1 = False; m1 = "P+P raised %r" % e
    try:
        q = FieldElement(3, 7) / FieldElement(0, 7)
        ok2 = False; m2 = "3/0 in F_7 = %r" % (q,)
    except Exception as e:
        ok2 = True; m2 = "3/0 in F_7 raises %s" % type(e).__name__
    return not (ok1 and ok2), "%s ; %s" % (m1, m2)

def F6():
    from buidl.script import Script
    try:
        Script([b"\x01" * 75]).raw_serialize()
        return False, "75-byte push serialises"
    except ValueError as e:
        return True, "75-byte push raises %r" % e

def _tx2():
    from buidl.tx import Tx, TxIn, TxOut
    from buidl.script import P2PKHScriptPubKey, Script
    tx_ins = [TxIn(bytes([i + 1]) * 32, i) for i in range(2)]
    for t in tx_ins:
        t._value = 100000
        t._script_pubkey = P2PKHScriptPubKey(b"\x11" * 20)
    tx_outs = [TxOut(40000 + i, P2PKHScriptPubKey(bytes([0x20 + i]) * 20)) for i in range(2)]
    return Tx(1, tx_ins, tx_outs, 0, network="testnet")

def _ref_legacy(tx, idx, script_code, ht):
    """independent implementation of the Satoshi sighash"""
    from buidl.helper import int_to_little_endian as le, encode_varint as vi, hash256
    acp, base = ht & 0x80, ht & 3
    s = le(tx.version, 4)
    ins = [(i, t) for i, t in enumerate(tx.tx_ins) if (not acp) or i == idx]
    s += vi(len(ins))
    for i, t in ins:
        s += t.prev_tx[::-1] + le(t.prev_index, 4)
        sc = script_code.raw_serialize() if i == idx else b""
        s += vi(len(sc)) + sc
        seq = int(t.sequence) if (i == idx or base == 1) else 0
        s += le(seq, 4)
    if base == 1:
        outs = [o.serialize() for o in tx.tx_outs]
    elif base == 2:
        outs = []
    else:
        outs = [b"\xff" * 8 + b"\x00"] * idx + [tx.tx_outs[idx].serialize()]
    s += vi(len(outs)) + b"".join(outs)
    s += le(int(tx.locktime), 4) + le(ht, 4)
    return int.from_bytes(hash256(s), "big")

def F7():
    tx = _tx2()
    sc = tx.tx_ins[0]._script_pubkey
    bad = []
    for ht in (1, 2, 3, 0x81, 0x82, 0x83):
        if tx.sig_hash_legacy(0, hash_type=ht) != _ref_legacy(tx, 0, sc, ht):
            bad.append(hex(ht))
    return bool(bad), "legacy sighash differs from the reference for hash types %s" % bad

def _ref_bip143(tx, idx, script_code, ht):
    from buidl.helper import int_to_little_endian as le, hash256
    acp, base = ht & 0x80, ht & 3
    z = b"\x00" * 32
    hp = z if acp else hash256(b"".join(t.prev_tx[::-1] + le(t.prev_index, 4) for t in tx.tx_ins))
    hs = z if (acp or base != 1) else hash256(b"".join(le(int(t.sequence), 4) for t in tx.tx_ins))
    if base == 1:
        ho = hash256(b"".join(o.serialize() for o in tx.tx_outs))
    elif base == 3 and idx < len(tx.tx_outs):
        ho = hash256(tx.tx_outs[idx].serialize())
    else:
        ho = z
    t = tx.tx_ins[idx]
    s = le(tx.version, 4) + hp + hs + t.prev_tx[::-1] + le(t.prev_index, 4) + script_code.serialize() + le(t._value, 8) + le(int(t.sequence), 4) + ho + le(int(tx.locktime), 4) + le(ht, 4)
    return int.from_bytes(hash256(s), "big")

def F8():
    from buidl.script import P2PKHScriptPubKey, P2WPKHScriptPubKey
    tx = _tx2()
    for t in tx.tx_ins:
        t._script_pubkey = P2WPKHScriptPubKey(b"\x11" * 20)
    sc = P2PKHScriptPubKey(b"\x11" * 20)
    bad = [hex(ht) for ht in (1, 2, 3, 0x81, 0x82, 0x83) if tx.sig_hash_bip143(0, hash_type=ht) != _ref_bip143(tx, 0, sc, ht)]
    return bool(bad), "BIP143 sighash differs from the reference for hash types %s" % bad

def F9():
    # SINGLE with annex: order of sha_annex / sha_single_output
    import inspect
    from buidl.tx import Tx
    from buidl.helper import sha256, encode_varstr, int_to_little_endian as le, int_to_byte
    from buidl.hash import hash_tapsighash
    from buidl.script import P2TRScriptPubKey
    from buidl.witness import Witness
    tx = _tx2()
    for t in tx.tx_ins:
        t._script_pubkey = P2TRScriptPubKey(b"\x22" * 32)
    annex = b"\x50annex"
    tx.tx_ins[0].witness = Witness([b"\x01" * 64, annex])
    ht = 3
    got = tx.sig_hash_bip341(0, ext_flag=0, hash_type=ht)
    tx2 = _tx2()
    for t in tx2.tx_ins:
        t._script_pubkey = P2TRScriptPubKey(b"\x22" * 32)
    tx2.tx_ins[0].witness = Witness([b"\x01" * 64, annex])
    s = b"\x00" + int_to_byte(ht) + le(tx2.version, 4) + le(int(tx2.locktime), 4)
    s += sha256(b"".join(t.prev_tx[::-1] + le(t.prev_index, 4) for t in tx2.tx_ins))
    s += sha256(b"".join(le(t._value, 8) for t in tx2.tx_ins))
    s += sha256(b"".join(t._script_pubkey.serialize() for t in tx2.tx_ins))
    s += sha256(b"".join(le(int(t.sequence), 4) for t in tx2.tx_ins))
    s += int_to_byte(1) + le(0, 4)
    s += sha256(encode_varstr(annex))
    s += sha256(tx2.tx_outs[0].serialize())
    want = hash_tapsighash(s)
    return got != want, "BIP341 SINGLE+annex digest %s the reference" % ("differs from" if got != want else "equals")

def F10():
    from buidl.script import P2WPKHScriptPubKey, P2PKHScriptPubKey
    tx = _tx2()
    for t in tx.tx_ins:
        t._script_pubkey = P2WPKHScriptPubKey(b"\x11" * 20)
    a = tx.sig_hash_bip143(0)
    tx.tx_outs[0].amount += 1
    b = tx.sig_hash_bip143(0)
    tx2 = _tx2()
    for t in tx2.tx_ins:
        t._script_pubkey = P2WPKHScriptPubKey(b"\x11" * 20)
    tx2.tx_outs[0].amount += 1
    c = tx2.sig_hash_bip143(0)
    m = "after editing an output the digest on the same object is %s a fresh object's" % ("different from" if b != c else "equal to")
    try:
        _tx2().sha_sequences()
        m2 = "sha_sequences() on a fresh Tx works"
        d2 = False
    except AttributeError as e:
        m2 = "sha_sequences() on a fresh Tx raises %r" % e
        d2 = True
    return (b != c) or d2, m + "; " + m2

def _p2sh_multisig_spend(sign_with_foreign):
    from buidl.pecc import PrivateKey
    from buidl.script import RedeemScript, Script
    from buidl.tx import Tx, TxIn, TxOut
    from buidl.script import P2PKHScriptPubKey
    k1, k2, kx = PrivateKey(11), PrivateKey(22), PrivateKey(33)
    rs = RedeemScript([0x51, k1.point.sec(), k2.point.sec(), 0x52, 0xAE])
    tx_in = TxIn(b"\x07" * 32, 0)
    tx_in._value = 100000
    tx_in._script_pubkey = rs.script_pubkey()
    tx = Tx(1, [tx_in], [TxOut(90000, P2PKHScriptPubKey(b"\x33" * 20))], 0, network="testnet")
    signer = kx if sign_with_foreign else k1
    sig = tx.get_sig_legacy(0, signer, redeem_script=rs)
    tx_in.finalize_p2sh_multisig([sig], rs)
    return tx

def F11():
    tx = _p2sh_multisig_spend(True)
    ok = tx.verify_input(0)
    return ok is True, "1-of-2 P2SH multisig signed by a key outside the script: verify_input -> %s" % ok

def _p2tr_tx(witness_items, script_sig=None):
    from buidl.tx import Tx, TxIn, TxOut
    from buidl.script import P2TRScriptPubKey, P2PKHScriptPubKey, Script
    from buidl.witness import Witness
    from buidl.pecc import PrivateKey
    tx_in = TxIn(b"\x09" * 32, 0, script_sig=script_sig)
    tx_in._value = 50000
    tx_in._script_pubkey = P2TRScriptPubKey(PrivateKey(5).point)
    tx_in.witness = Witness(witness_items)
    return Tx(2, [tx_in], [TxOut(40000, P2PKHScriptPubKey(b"\x44" * 20))], 0, network="testnet", segwit=True)

def F12():
    tx = _p2tr_tx([b"\x50" + b"\x00" * 10])
    try:
        ok = tx.verify_input(0)
    except Exception as e:
        return False, "P2TR input whose witness is a single 0x50… item: rejected with %s" % type(e).__name__
    return ok is True, "P2TR input whose witness is a single 0x50… item: verify_input -> %s" % ok

def F13():
    from buidl.tx import Tx, TxIn, TxOut
    from buidl.script import P2WPKHScriptPubKey, P2PKHScriptPubKey, Script
    tx_in = TxIn(b"\x0a" * 32, 0, script_sig=Script([b"\x01"]))
    tx_in._value = 50000
    tx_in._script_pubkey = P2WPKHScriptPubKey(b"\x55" * 20)
    tx = Tx(2, [tx_in], [TxOut(40000, P2PKHScriptPubKey(b"\x44" * 20))], 0, network="testnet", segwit=True)
    try:
        ok = tx.verify_input(0)
    except Exception as e:
        return False, "raised %r" % e
    return ok is True, "P2WPKH output spent with scriptSig [01] and an empty witness: verify_input -> %s" % ok

def F14():
    from buidl.script import Script
    from buidl.tx import Tx, TxIn, TxOut
    tx = _tx2()
    r = []
    for el in (b"\x00", b"\x80", b"\x00\x00"):
        r.append((el.hex(), Script([el]).evaluate(tx, 0)))
    return any(v for _, v in r), "final stack element -> evaluate(): %s (consensus: all false)" % r

def F15():
    from buidl.op import op_pick, op_roll, encode_num
    st = [b"a", b"b", b"c", encode_num(-1)]
    r1 = op_pick(st)
    st2 = [b"a", b"b", b"c", encode_num(-1)]
    try:
        r2 = op_roll(st2)
    except Exception as e:
        r2 = "raised %r" % e
    return r1 is True, "OP_PICK -1 -> %s stack %s ; OP_ROLL -1 -> %s" % (r1, st, r2)

def F16():
    from buidl.op import op_checksequenceverify, encode_num
    tx = _tx2()
    from buidl.timelock import Sequence
    tx.version = 2
    tx.tx_ins[0].sequence = Sequence(10)
    st = [encode_num(1 << 31)]
    r = op_checksequenceverify(st, tx, 0)
    return r is False, "CSV with operand 2^31 (disable flag) -> %s (BIP112: NOP, succeeds)" % r

def F17():
    from buidl.hd import HDPrivateKey
    hd = HDPrivateKey.from_seed(b"\x01" * 32)
    hd.traverse("M/0")
    try:
        hd.pub.traverse("M/0")
        return False, "public traverse('M/0') accepted"
    except ValueError as e:
        return True, "private traverse('M/0') works, public traverse('M/0') raises %r" % e

def F18():
    from buidl.tx import TxOut
    from buidl.script import P2WPKHScriptPubKey, address_to_script_pubkey
    addr = P2WPKHScriptPubKey(b"\x66" * 20).address("regtest")
    address_to_script_pubkey(addr)
    try:
        TxOut.to_address(addr, 1)
        return False, "to_address(%s) accepted" % addr
    except ValueError as e:
        return True, "address_to_script_pubkey(%s) works, TxOut.to_address raises %r" % (addr, str(e)[:60])

def F19():
    from buidl.psbt import PSBT
    from buidl.tx import Tx, TxIn, TxOut
    from buidl.script import P2PKHScriptPubKey
    tx = Tx(2, [TxIn(b"\x0b" * 32, 1)], [TxOut(1000, P2PKHScriptPubKey(b"\x77" * 20))], 0, network="testnet", segwit=True)
    p = PSBT.create(tx)
    raw = p.serialize()
    try:
        q = PSBT.parse(BytesIO(raw), network="testnet")
        same = q.serialize() == raw and q.tx_obj.id() == tx.id()
        return not same, "PSBT.create(Tx(segwit=True)).serialize() re-parses to the same PSBT: %s" % same
    except Exception as e:
        return True, "the library cannot parse its own PSBT output: %r" % e

def F20():
    # structural: p2sh arm threshold (needs m-1 matching sigs to show); show via the source relation
    import inspect
    from buidl.psbt import PSBTIn
    src = inspect.getsource(PSBTIn.finalize)
    return "if len(script_sig_commands) < num_sigs:" in src, "p2sh arm tests `len(script_sig_commands) < num_sigs` with a list seeded by one dummy element"

def F21():
    """a: PSBTOut with a lone RedeemScript that does not hash to the P2SH commitment; b: PSBTIn given as non-witness UTXO
    (prev_tx) plus a foreign WitnessScript; c: PSBTIn given as witness UTXO with a foreign RedeemScript."""
    from buidl.psbt import PSBTIn, PSBTOut
    from buidl.tx import Tx, TxIn, TxOut
    from buidl.script import P2SHScriptPubKey, P2WSHScriptPubKey, RedeemScript, WitnessScript
    from buidl.ecc import PrivateKey
    secs = [PrivateKey(i + 1).point.sec() for i in range(2)]
    foreign = [0x51, secs[0], secs[1], 0x52, 0xAE]
    out = []
    try:
        PSBTOut(TxOut(1000, P2SHScriptPubKey(b"\x99" * 20)), redeem_script=RedeemScript(foreign))
        out.append(("a", True))
    except (ValueError, KeyError):
        out.append(("a", False))
    prev = Tx(1, [TxIn(b"\x00" * 32, 0)], [TxOut(1000, P2WSHScriptPubKey(b"\x11" * 32))], 0, network="testnet")
    try:
        PSBTIn(TxIn(prev.hash(), 0), prev_tx=prev, witness_script=WitnessScript(foreign))
        out.append(("b", True))
    except ValueError:
        out.append(("b", False))
    try:
        PSBTIn(TxIn(b"\x22" * 32, 0), prev_out=TxOut(1000, P2SHScriptPubKey(b"\x99" * 20)), redeem_script=RedeemScript(foreign))
        out.append(("c", True))
    except ValueError:
        out.append(("c", False))
    return any(v for _, v in out), "foreign script accepted by validate(): %s" % out

def F22():
    """A 2-of-3 change output whose three keys all derive from ONE cosigner's xpub (so that cosigner alone can spend it)."""
    import re
    from buidl.psbt import PSBT, PSBTOut, NamedPublicKey, serialize_binary_path, SuspiciousTransaction
    from buidl.descriptor import P2WSHSortedMulti
    from buidl.hd import HDPublicKey
    from buidl.script import WitnessScript, P2WSHScriptPubKey
    root = os.environ.get("VERIF_REPO", "/repo")
    src = open(os.path.join(root, "buidl", "test", "test_psbt.py")).read()
    body = src[src.index("def test_describe_psbt_2of3"):]
    desc = re.search(r'valid_output_record = "([^"]+)"', body).group(1)
    b64 = re.search(r'testnet_psbt_b64 = "([^"]+)"', body).group(1)
    d = P2WSHSortedMulti.parse(desc)
    hdmap = {k["xfp"]: HDPublicKey.parse(k["xpub_parent"]) for k in d.key_records}
    psbt = PSBT.parse_base64(b64, network="testnet")
    idx = [i for i, o in enumerate(psbt.psbt_outs) if o.named_pubs][0]
    honest = list(psbt.psbt_outs[idx].named_pubs.values())[0]
    xfp = honest.root_fingerprint.hex()
    base = honest.root_path.rsplit("/", 1)[0]
    pts = []
    for k in (5, 6, 7):
        pt = hdmap[xfp].traverse("m/1/%d" % k).point
        pt.__class__ = NamedPublicKey
        pt.add_raw_path_data(bytes.fromhex(xfp) + serialize_binary_path("%s/%d" % (base, k)), network="testnet")
        pts.append(pt)
    secs = sorted(pt.sec() for pt in pts)
    ws = WitnessScript([0x52] + secs + [0x53, 0xAE])
    tx_out = psbt.tx_obj.tx_outs[idx]
    tx_out.script_pubkey = P2WSHScriptPubKey(ws.sha256())
    psbt.psbt_outs[idx] = PSBTOut(tx_out, witness_script=ws, named_pubs={pt.sec(): pt for pt in pts})
    try:
        r = psbt.describe_basic_multisig(hdpubkey_map=hdmap)
    except SuspiciousTransaction as e:
        return False, "output whose 3 keys all come from cosigner %s: rejected (%s)" % (xfp, str(e)[:60])
    o = r["outputs_desc"][idx]
    return o["is_change"] is True, "output whose 3 keys all come from cosigner %s is described with is_change=%s" % (xfp, o["is_change"])

def F23():
    import ast, inspect, textwrap
    from buidl.merkleblock import MerkleTree
    src = textwrap.dedent(inspect.getsource(MerkleTree.__init__))
    uses_log = any(isinstance(n, ast.Attribute) and n.attr == "log" for n in ast.walk(ast.parse(src)))
    import math
    return uses_log, "MerkleTree.__init__ uses math.log: %s (ceil(log(2**29, 2)) = %d; building the 2^29 tree needs 8 GB, so the depth formula is read from the source)" % (uses_log, math.ceil(math.log(2 ** 29, 2)))

def F24():
    from buidl.helper import bits_to_target
    t = bits_to_target(bytes.fromhex("ffff0001"))
    return not isinstance(t, int), "bits_to_target(ffff0001) = %r" % (t,)

def F25():
    from buidl.compactfilter import CompactFilter, encode_gcs, hash_to_range, GOLOMB_M
    key = b"\x00" * 16
    # search two items colliding in a 2-item filter
    f = 2 * GOLOMB_M
    seen = {}
    pair = None
    i = 0
    while pair is None and i < 20000:
        item = i.to_bytes(4, "big")
        h = hash_to_range(key, item, f)
        if h in seen:
            pair = (seen[h], item)
        seen[h] = item
        i += 1
    if pair is None:
        return False, "no collision found"
    from buidl.script import Script
    class S:
        def __init__(self, b): self.b = b
        def raw_serialize(self): return self.b
    cf = CompactFilter.parse(key, encode_gcs(key, list(pair)))
    res = [S(x) in cf for x in pair]
    return not all(res), "two inserted items with colliding hashes (found after %d candidates): membership %s" % (i, res)

def F26():
    from buidl.network import NetworkEnvelope
    from buidl.helper import hash256, int_to_little_endian
    payload = b"abc"
    raw = b"\xf9\xbe\xb4\xd9" + b"ping" + b"\x00" * 8 + int_to_little_endian(100, 4) + hash256(payload)[:4] + payload
    try:
        e = NetworkEnvelope.parse(BytesIO(raw))
        return True, "envelope declaring 100 payload bytes but carrying 3 is accepted: %r" % e
    except Exception as ex:
        return False, "rejected %r" % ex

def F27():
    from buidl.network import PongMessage
    try:
        PongMessage.parse(BytesIO(b"\x00" * 8))
        return False, "PongMessage.parse works"
    except TypeError as e:
        return True, "PongMessage.parse(stream) raises %r" % e

def F28():
    from buidl.pecc import S256Point, G
    enc = b"\x02" + b"\x00" * 32 + G.sec()[1:]
    try:
        pt = S256Point.parse(enc)
    except ValueError as e:
        return False, "65-byte string 02||00*32||Gx rejected (%s)" % e
    return True, "65-byte string 02||00*32||Gx accepted as %s" % pt.sec().hex()[:18]

def F29():
    """A P2WSH 'change' output whose witness script holds the three honest keys plus a fourth one under OP_3."""
    import re
    from buidl.psbt import PSBT, PSBTOut, SuspiciousTransaction
    from buidl.descriptor import P2WSHSortedMulti
    from buidl.hd import HDPublicKey
    from buidl.ecc import PrivateKey
    from buidl.script import WitnessScript, P2WSHScriptPubKey
    root = os.environ.get("VERIF_REPO", "/repo")
    src = open(os.path.join(root, "buidl", "test", "test_psbt.py")).read()
    body = src[src.index("def test_describe_psbt_2of3"):]
    desc = re.search(r'valid_output_record = "([^"]+)"', body).group(1)
    b64 = re.search(r'testnet_psbt_b64 = "([^"]+)"', body).group(1)
    d = P2WSHSortedMulti.parse(desc)
    hdmap = {k["xfp"]: HDPublicKey.parse(k["xpub_parent"]) for k in d.key_records}
    psbt = PSBT.parse_base64(b64, network="testnet")
    idx = [i for i, o in enumerate(psbt.psbt_outs) if o.named_pubs][0]
    old = psbt.psbt_outs[idx]
    honest = [c for c in old.witness_script.commands if isinstance(c, bytes)]
    extra = PrivateKey(0xBADC0DE).point.sec()
    ws = WitnessScript([0x52] + honest + [extra] + [0x53, 0xAE])
    tx_out = psbt.tx_obj.tx_outs[idx]
    tx_out.script_pubkey = P2WSHScriptPubKey(ws.sha256())
    try:
        psbt.psbt_outs[idx] = PSBTOut(tx_out, witness_script=ws, named_pubs=old.named_pubs)
        r = psbt.describe_basic_multisig(hdpubkey_map=hdmap)
    except (SuspiciousTransaction, ValueError) as e:
        return False, "script OP_2 A B C X OP_3 CHECKMULTISIG as change: rejected (%s)" % str(e)[:50]
    o = r["outputs_desc"][idx]
    return o["is_change"] is True, "script OP_2 A B C X OP_3 CHECKMULTISIG (4 keys) is described with is_change=%s" % o["is_change"]

def F30():
    """the library cannot parse the P2SH-P2WPKH PSBT it serialised after update() (test vector of test_psbt.test_p2sh_p2wpkh)"""
    import re
    from buidl.psbt import PSBT
    root = os.environ.get("VERIF_REPO", "/repo")
    src = open(os.path.join(root, "buidl", "test", "test_psbt.py")).read()
    body = src[src.index("def test_p2sh_p2wpkh"):src.index("def test_update_p2wsh")]
    wants = re.findall(r'want = "([0-9a-f]+)"', body)
    try:
        p_ = PSBT.parse(BytesIO(bytes.fromhex(wants[1])), network="testnet")
    except ValueError as e:
        return True, "PSBT.parse of the updated p2sh-p2wpkh PSBT raises: %s" % str(e)[:70]
    return p_.serialize().hex() != wants[1], "updated p2sh-p2wpkh PSBT parses and re-serialises identically"

def F31():
    """key-path spend: a valid 64-byte signature with 00 / 00 00 appended"""
    from buidl.ecc import PrivateKey
    from buidl.script import P2TRScriptPubKey
    from buidl.tx import Tx, TxIn, TxOut
    from buidl.witness import Witness
    priv = PrivateKey(12345)
    spk = P2TRScriptPubKey(priv.point.tweaked_key(b""))
    tx_in = TxIn(b"\x11" * 32, 0)
    tx_in._value = 100000
    tx_in._script_pubkey = spk
    tx = Tx(2, [tx_in], [TxOut(90000, spk)], 0, network="testnet", segwit=True)
    sig = priv.tweaked_key(b"").sign_schnorr(tx.sig_hash(0, 0)).serialize()
    res = {}
    for label, w in (("64", sig), ("64+00", sig + b"\x00"), ("64+0000", sig + b"\x00\x00")):
        tx.tx_ins[0].witness = Witness([w])
        try:
            res[label] = tx.verify_input(0)
        except Exception as e:
            res[label] = type(e).__name__
    return res.get("64+00") is True or res.get("64+0000") is True, "key-path verify_input by signature encoding: %s" % res

def _c11_wallet():
    from buidl.hd import HDPrivateKey, HDPublicKey
    from buidl.psbt import NamedHDPublicKey
    roots = [HDPrivateKey.from_mnemonic(("%s " % w) * 11 + ("about" if w == "abandon" else w), network="testnet") for w in ("action", "agent", "abandon")]
    acct = "m/48'/1'/0'/2'"
    hdmap = {r.fingerprint().hex(): HDPublicKey.parse(r.traverse(acct).xpub()) for r in roots}
    foreign = HDPrivateKey.from_mnemonic("zoo " * 11 + "wrong", network="testnet")
    nk = lambda r, p: NamedHDPublicKey.from_hd_priv(r, p).point
    ms = lambda cls, m, secs: cls([0x50 + m] + sorted(secs) + [0x50 + len(secs), 0xAE])
    return roots, acct, hdmap, foreign, nk, ms

def F32():
    """legacy p2sh multisig input handed over through a witness UTXO: foreign redeem script, the wallet's own key derivations"""
    from buidl.psbt import PSBT, PSBTIn, PSBTOut
    from buidl.script import WitnessScript, RedeemScript, P2WSHScriptPubKey, P2SHScriptPubKey
    from buidl.tx import Tx, TxIn, TxOut
    roots, acct, hdmap, foreign, nk, ms = _c11_wallet()
    in_keys = [nk(r, acct + "/0/0") for r in roots]
    evil = ms(RedeemScript, 2, [foreign.traverse("m/%d" % i).pub.sec() for i in range(3)])
    prev_out = TxOut(100000, P2SHScriptPubKey(evil.hash160()))
    tx_in = TxIn(bytes.fromhex("44" * 32), 0)
    tx_in._value, tx_in._script_pubkey = prev_out.amount, prev_out.script_pubkey
    out = TxOut(99000, P2WSHScriptPubKey(ms(WitnessScript, 1, [foreign.traverse("m/7").pub.sec()]).sha256()))
    tx = Tx(1, [tx_in], [out], 0, network="testnet", segwit=False)
    try:
        pin = PSBTIn(tx_in, prev_out=prev_out, redeem_script=evil, named_pubs={k.sec(): k for k in in_keys})
        p_ = PSBT(tx, [pin], [PSBTOut(out)], network="testnet")
        p_ = PSBT.parse_base64(p_.serialize_base64(), network="testnet")
        p_.describe_basic_multisig(hdpubkey_map=hdmap)
    except Exception as e:
        return False, "rejected: %s %s" % (type(e).__name__, str(e)[:60])
    return True, "input whose redeem script holds none of the named pubkeys is summarised"

def F33():
    """p2wsh input with both UTXO records: previous transaction says 100000 sats, witness UTXO says 5000000"""
    from buidl.helper import serialize_key_value
    from buidl.psbt import PSBT, PSBTIn, PSBTOut
    from buidl.script import WitnessScript, P2WSHScriptPubKey
    from buidl.tx import Tx, TxIn, TxOut
    roots, acct, hdmap, foreign, nk, ms = _c11_wallet()
    in_keys = [nk(r, acct + "/0/0") for r in roots]
    ws = ms(WitnessScript, 2, [k.sec() for k in in_keys])
    spk = P2WSHScriptPubKey(ws.sha256())
    funding = Tx(1, [TxIn(bytes.fromhex("22" * 32), 3)], [TxOut(100000, spk)], 0, network="testnet", segwit=False)
    tx_in = TxIn(funding.hash(), 0)
    out = TxOut(99000, P2WSHScriptPubKey(ms(WitnessScript, 1, [foreign.traverse("m/7").pub.sec()]).sha256()))
    tx = Tx(2, [tx_in], [out], 0, network="testnet", segwit=True)
    pin = PSBTIn(tx_in, prev_tx=funding, witness_script=None, named_pubs={})
    raw = PSBT(tx, [pin], [PSBTOut(out)], network="testnet").serialize()
    nw = serialize_key_value(b"\x00", funding.serialize())
    at = raw.index(nw) + len(nw)
    extra = serialize_key_value(b"\x01", TxOut(5000000, spk).serialize()) + serialize_key_value(b"\x05", ws.raw_serialize())
    for k in in_keys:
        extra += k.serialize(b"\x06")
    raw = raw[:at] + extra + raw[at:]
    try:
        d = PSBT.parse(BytesIO(raw), network="testnet").describe_basic_multisig(hdpubkey_map=hdmap)
    except Exception as e:
        return False, "rejected: %s %s" % (type(e).__name__, str(e)[:70])
    return d["total_input_sats"] != 100000, "summarised with total_input_sats=%s fee=%s (previous transaction pays 100000)" % (d["total_input_sats"], d["tx_fee_sats"])

def F34():
    """output OP_1 <sha256(change witness script)> carrying the wallet's p2wsh change metadata"""
    from buidl.psbt import PSBT, PSBTIn, PSBTOut
    from buidl.script import WitnessScript, P2WSHScriptPubKey, P2TRScriptPubKey
    from buidl.tx import Tx, TxIn, TxOut
    roots, acct, hdmap, foreign, nk, ms = _c11_wallet()
    in_keys = [nk(r, acct + "/0/0") for r in roots]
    in_ws = ms(WitnessScript, 2, [k.sec() for k in in_keys])
    prev_out = TxOut(100000, P2WSHScriptPubKey(in_ws.sha256()))
    tx_in = TxIn(bytes.fromhex("55" * 32), 0)
    tx_in._value, tx_in._script_pubkey = prev_out.amount, prev_out.script_pubkey
    ch_keys = [nk(r, acct + "/1/0") for r in roots]
    ch_ws = ms(WitnessScript, 2, [k.sec() for k in ch_keys])
    out = TxOut(99000, P2TRScriptPubKey(ch_ws.sha256()))
    tx = Tx(2, [tx_in], [out], 0, network="testnet", segwit=True)
    try:
        pin = PSBTIn(tx_in, prev_out=prev_out, witness_script=in_ws, named_pubs={k.sec(): k for k in in_keys})
        po = PSBTOut(out, witness_script=ch_ws, named_pubs={k.sec(): k for k in ch_keys})
        p_ = PSBT(tx, [pin], [po], network="testnet")
        p_ = PSBT.parse_base64(p_.serialize_base64(), network="testnet")
        d = p_.describe_basic_multisig(hdpubkey_map=hdmap)
    except Exception as e:
        return False, "rejected: %s %s" % (type(e).__name__, str(e)[:60])
    o = d["outputs_desc"][0]
    return o["is_change"] is True, "taproot output %s... is_change=%s" % (o["addr"][:14], o["is_change"])

def F35():
    """p2sh-p2wpkh input, scriptSig `<junk> <redeem script>`, empty witness"""
    from buidl.ecc import PrivateKey
    from buidl.helper import hash160
    from buidl.script import Script, RedeemScript, P2SHScriptPubKey, P2WPKHScriptPubKey
    from buidl.tx import Tx, TxIn, TxOut
    from buidl.witness import Witness
    import contextlib, io
    h160 = PrivateKey(12345).point.hash160()
    redeem = RedeemScript([0, h160])
    spk = P2SHScriptPubKey(hash160(redeem.raw_serialize()))
    tx_in = TxIn(bytes.fromhex("11" * 32), 0)
    tx_in._value, tx_in._script_pubkey = 100000, spk
    tx = Tx(2, [tx_in], [TxOut(90000, P2WPKHScriptPubKey(h160))], 0, network="testnet", segwit=True)
    tx_in.script_sig = Script([b"junk", redeem.raw_serialize()])
    tx_in.witness = Witness()
    try:
        with contextlib.redirect_stdout(io.StringIO()):
            r = tx.verify_input(0)
    except Exception as e:
        r = type(e).__name__
    return r is True, "verify_input without any signature -> %s" % r

def K3():
    """p2wsh input built with both UTXO records: serialise, then parse the result"""
    from buidl.psbt import PSBT, PSBTIn, PSBTOut
    from buidl.script import WitnessScript, P2WSHScriptPubKey, P2WPKHScriptPubKey
    from buidl.tx import Tx, TxIn, TxOut
    roots, acct, hdmap, foreign, nk, ms = _c11_wallet()
    keys = [nk(roots[0], acct + "/0/%d" % i) for i in range(2)]
    ws = ms(WitnessScript, 1, [k.sec() for k in keys])
    spk = P2WSHScriptPubKey(ws.sha256())
    funding = Tx(1, [TxIn(bytes.fromhex("22" * 32), 3)], [TxOut(100000, spk)], 0, network="testnet", segwit=False)
    tx_in = TxIn(funding.hash(), 0)
    tx = Tx(2, [tx_in], [TxOut(99000, P2WPKHScriptPubKey(bytes(20)))], 0, network="testnet", segwit=True)
    pin = PSBTIn(tx_in, prev_tx=funding, prev_out=funding.tx_outs[0], witness_script=ws, named_pubs={k.sec(): k for k in keys})
    raw = PSBT(tx, [pin], [PSBTOut(tx.tx_outs[0])], network="testnet").serialize()
    try:
        q = PSBT.parse(BytesIO(raw), network="testnet")
    except Exception as e:
        return True, "the witness UTXO record is dropped on serialisation and the result no longer parses: %s" % str(e)[:60]
    return q.serialize() != raw, "round trip %s" % ("differs" if q.serialize() != raw else "identical")

def F36():
    """taproot key path spend with an annex, signed over the BIP341 key path digest"""
    import contextlib, io
    from buidl.ecc import PrivateKey
    from buidl.script import P2TRScriptPubKey
    from buidl.tx import Tx, TxIn, TxOut
    from buidl.witness import Witness
    priv = PrivateKey(12345)
    spk = P2TRScriptPubKey(priv.point.tweaked_key(b""))
    tx_in = TxIn(b"\x11" * 32, 0)
    tx_in._value, tx_in._script_pubkey = 100000, spk
    tx = Tx(2, [tx_in], [TxOut(90000, spk)], 0, network="testnet", segwit=True)
    annex = b"\x50\x01\x02"
    tx_in.witness = Witness([b"\x00" * 64, annex])
    msg = tx.sig_hash_bip341(0, ext_flag=0, hash_type=0)
    tx_in.witness = Witness([priv.tweaked_key(b"").sign_schnorr(msg).serialize(), annex])
    try:
        with contextlib.redirect_stdout(io.StringIO()):
            r = tx.verify_input(0)
    except Exception as e:
        r = "%s" % type(e).__name__
    return r is not True, "verify_input of a key path spend with annex -> %s" % r

def F37():
    """p2sh 2-of-3 output spent by an outsider: scriptSig `OP_0 <hash160(outsider key)> <redeem script>`, witness `<outsider sig> <outsider key>`"""
    from buidl.ecc import PrivateKey
    from buidl.helper import hash160
    from buidl.script import Script, RedeemScript, P2SHScriptPubKey, P2WPKHScriptPubKey
    from buidl.tx import Tx, TxIn, TxOut
    from buidl.witness import Witness
    import contextlib, io
    keys = [PrivateKey(1000 + i) for i in range(3)]
    redeem = RedeemScript([0x52] + [k.point.sec() for k in keys] + [0x53, 0xAE])
    spk = P2SHScriptPubKey(hash160(redeem.raw_serialize()))
    outsider = PrivateKey(424242)
    tx_in = TxIn(bytes.fromhex("22" * 32), 0)
    tx_in._value, tx_in._script_pubkey = 100000, spk
    tx = Tx(2, [tx_in], [TxOut(90000, P2WPKHScriptPubKey(outsider.point.hash160()))], 0, network="testnet", segwit=True)
    tx_in.script_sig = Script([b"", outsider.point.hash160(), redeem.raw_serialize()])
    try:
        tx_in.witness = Witness([b"x", outsider.point.sec()])
        z = tx.sig_hash(0, 1)
        tx_in.witness = Witness([outsider.sign(z).der() + b"\x01", outsider.point.sec()])
        with contextlib.redirect_stdout(io.StringIO()):
            r = tx.verify_input(0)
    except Exception as e:
        r = type(e).__name__
    results = [r]
    return any(r is True for r in results), "verify_input of a 2-of-3 p2sh output spent with no key of the script -> %s" % results

def F38():
    """p2sh-p2wpkh change output carrying its BIP32 derivation (what PSBTOut.update attaches)"""
    from buidl.hd import HDPrivateKey
    from buidl.psbt import PSBTOut, NamedHDPublicKey
    from buidl.script import RedeemScript, P2SHScriptPubKey
    from buidl.tx import TxOut
    root = HDPrivateKey.from_mnemonic("abandon " * 11 + "about", network="testnet")
    path = "m/49'/1'/0'/1/0"
    named = NamedHDPublicKey.from_hd_priv(root, path)
    redeem = RedeemScript([0, root.traverse(path).pub.hash160()])
    spk = P2SHScriptPubKey(redeem.hash160())
    try:
        PSBTOut(TxOut(1000, spk), redeem_script=redeem, named_pubs={named.sec(): named})
        r = "accepted"
    except Exception as e:
        r = "%s: %s" % (type(e).__name__, str(e).split("\n")[0][:50])
    return r != "accepted", "honest p2sh-p2wpkh output with derivation -> %s" % r

def F39():
    """p2sh 2-of-3 output spent with ScriptSig `<RedeemScript> OP_NOP` (no signature)"""
    from buidl.ecc import PrivateKey
    from buidl.helper import hash160
    from buidl.script import Script, RedeemScript, P2SHScriptPubKey, P2WPKHScriptPubKey
    from buidl.tx import Tx, TxIn, TxOut
    import contextlib, io
    keys = [PrivateKey(1000 + i) for i in range(3)]
    redeem = RedeemScript([0x52] + [k.point.sec() for k in keys] + [0x53, 0xAE])
    spk = P2SHScriptPubKey(hash160(redeem.raw_serialize()))
    tx_in = TxIn(bytes.fromhex("22" * 32), 0)
    tx_in._value, tx_in._script_pubkey = 100000, spk
    tx = Tx(1, [tx_in], [TxOut(90000, P2WPKHScriptPubKey(bytes(20)))], 0, network="testnet")
    res = []
    for extra in ([0x61], [0x76, 0x75]):
        tx_in.script_sig = Script([redeem.raw_serialize()] + extra)
        try:
            with contextlib.redirect_stdout(io.StringIO()):
                r = tx.verify_input(0)
        except Exception as e:
            r = type(e).__name__
        res.append(r)
    return any(r is True for r in res), "verify_input of a signature-free p2sh spend with opcodes after the RedeemScript -> %s" % res

def F40():
    """library-built PSBT with a testnet global xpub at origin m/45': serialise -> parse (default arguments) -> serialise"""
    from io import BytesIO
    from buidl.hd import HDPrivateKey
    from buidl.psbt import PSBT, NamedHDPublicKey
    from buidl.script import P2WPKHScriptPubKey
    from buidl.tx import Tx, TxIn, TxOut
    root = HDPrivateKey.from_mnemonic("abandon " * 11 + "about", network="testnet")
    named = NamedHDPublicKey.from_hd_priv(root, "m/45'")
    tx = Tx(2, [TxIn(bytes(32), 0)], [TxOut(1000, P2WPKHScriptPubKey(bytes(20)))], 0, network="testnet")
    psbt = PSBT.create(tx)
    psbt.hd_pubs[named.raw_serialize()] = named
    b = psbt.serialize()
    b2 = PSBT.parse(BytesIO(b)).serialize()
    diff = [i for i, (x, y) in enumerate(zip(b, b2)) if x != y]
    return b2 != b, "re-serialised bytes %s (version bytes %s -> %s)" % ("differ" if b2 != b else "identical", b[92:96].hex(), b2[92:96].hex())

def F41():
    """create_multisig_psbt(...).combine(PSBT.parse(its own bytes)): number of global xpubs and re-serialisation"""
    import ast as _ast
    from buidl.psbt import PSBT
    from buidl.psbt_helper import create_multisig_psbt
    repo = os.environ.get("VERIF_REPO", "/repo")
    tree = _ast.parse(open(os.path.join(repo, "buidl/test/test_psbt_helper.py")).read())
    kwargs = None
    for n in _ast.walk(tree):
        if isinstance(n, _ast.FunctionDef) and n.name == "test_sweep_1of2_p2sh":
            for st in n.body:
                if isinstance(st, _ast.Assign) and isinstance(st.targets[0], _ast.Name) and st.targets[0].id == "kwargs":
                    kwargs = _ast.literal_eval(st.value)
    built = create_multisig_psbt(**kwargs, script_type="p2sh")
    b = built.serialize()
    built.combine(PSBT.parse(BytesIO(b), network="testnet"))
    c = built.serialize()
    again = PSBT.parse(BytesIO(c), network="testnet").serialize()
    return len(built.hd_pubs) != 2 or again != c, "2 cosigners: %d global xpubs after built.combine(parsed); combined PSBT re-serialises to itself: %s" % (len(built.hd_pubs), again == c)

def F42():
    """BIP158 filter with two equal values (zero delta): parse -> serialize / hash"""
    from buidl.compactfilter import CompactFilter, serialize_gcs
    from buidl.helper import hash256
    data = serialize_gcs([5, 5, 900000])
    cf = CompactFilter.parse(bytes(range(16)), data)
    return cf.serialize() != data or cf.hash() != hash256(data), "filter %s parses and serialises to %s; hash() is the filter hash: %s" % (data.hex(), cf.serialize().hex(), cf.hash() == hash256(data))

def F43():
    """target_to_bits for targets of fewer than three bytes, and retargeting down to zero"""
    from buidl.helper import target_to_bits, calculate_new_bits
    got = [target_to_bits(t).hex() for t in (0x12, 0x1234, 0x80)]
    try:
        z = calculate_new_bits(bytes.fromhex("00000101"), 1).hex()
    except Exception as e:
        z = type(e).__name__
    return got != ["00001201", "00341202", "00800002"] or z != "00000000", "bits of 0x12, 0x1234, 0x80 -> %s (GetCompact: 00001201 00341202 00800002); retarget of target 1 at the quarter clamp -> %s" % (got, z)

def F44():
    """header without work whose bits carry the compact sign bit / overflow"""
    from buidl.block import Block
    res = []
    for bits in ("ffffff20", "ffff0022", "00008003"):
        b = Block(1, bytes(32), bytes(32), 0, bytes.fromhex(bits), bytes(4))
        res.append(b.check_pow())
    return any(res), "check_pow of a header without work and bits ffffff20 / ffff0022 / 00008003 -> %s (consensus: negative / overflow / negative, never valid)" % res

def F45():
    """generate_shares with threshold 1 and n = 5"""
    from buidl.shamir import ShareSet
    m = "abandon " * 11 + "about"
    sh = ShareSet.generate_shares(m, 1, 5)
    return len(sh) != 5 or not all(ShareSet.recover_mnemonic([x]) == m for x in sh), "generate_shares(m, 1, 5) returns %d share(s)" % len(sh)

def F46():
    """p2sh-p2wsh change output: creator attaches the scripts, a second cosigner updates with its key lookup only"""
    from buidl.hd import HDPrivateKey
    from buidl.psbt import PSBT, NamedHDPublicKey
    from buidl.script import RedeemScript, WitnessScript, P2SHScriptPubKey
    from buidl.tx import Tx, TxIn, TxOut
    roots = [HDPrivateKey.from_mnemonic("abandon " * 11 + "about", password=bytes([i]), network="testnet") for i in range(2)]
    nameds = [NamedHDPublicKey.from_hd_priv(r, "m/48'/1'/0'/1'") for r in roots]
    keys = sorted(n.child(1).child(0).sec() for n in nameds)
    ws = WitnessScript([0x52, keys[0], keys[1], 0x52, 0xAE])
    rs = RedeemScript([0, ws.sha256()])
    tx = Tx(2, [TxIn(bytes(32), 0)], [TxOut(1000, P2SHScriptPubKey(rs.hash160()))], 0, network="testnet")
    psbt = PSBT.create(tx, pubkey_lookup=nameds[0].bip44_lookup(), redeem_lookup={rs.hash160(): rs}, witness_lookup={ws.sha256(): ws})
    psbt.update({}, nameds[1].bip44_lookup())
    out = psbt.psbt_outs[0]
    try:
        PSBT.parse(BytesIO(psbt.serialize()), network="testnet")
        again = "parses"
    except Exception as e:
        again = "%s: %s" % (type(e).__name__, str(e)[:50])
    return out.redeem_script is None or len(out.named_pubs) != 2 or again != "parses", "after the second updater: RedeemScript %s, %d derivation(s), serialised PSBT %s" % (
        "kept" if out.redeem_script is not None else "LOST", len(out.named_pubs), again)

def F47():
    """script-path spend whose witness spells the committed leaf script `20 <key> ac` as `4c 20 <key> ac`"""
    import contextlib
    from buidl.ecc import PrivateKey
    from buidl.script import Script
    from buidl.taproot import TapLeaf, TapScript
    from buidl.tx import Tx, TxIn, TxOut
    from buidl.script import P2WPKHScriptPubKey
    from buidl.witness import Witness
    pk = PrivateKey(0xC0FFEE)
    internal = PrivateKey(0xBEEF).point
    leaf_script = Script([pk.point.xonly(), 0xAC])          # 20 <key> ac
    leaf = TapLeaf(leaf_script)
    spk = internal.p2tr_script(leaf.hash())
    cb = leaf.control_block(internal)
    tx_in = TxIn(bytes.fromhex("33" * 32), 0)
    tx_in._value, tx_in._script_pubkey = 50000, spk
    tx = Tx(2, [tx_in], [TxOut(40000, P2WPKHScriptPubKey(bytes(20)))], 0, network="testnet", segwit=True)
    res = {}
    for label, raw in (("committed bytes", leaf_script.raw_serialize()), ("non-minimal spelling", b"\x4c\x20" + pk.point.xonly() + b"\xac")):
        tx_in.witness = Witness([raw, cb.serialize()])
        sig = pk.sign_schnorr(tx.sig_hash(0, 0).to_bytes(32, "big") if isinstance(tx.sig_hash(0, 0), int) else tx.sig_hash(0, 0)).serialize()
        tx_in.witness = Witness([sig, raw, cb.serialize()])
        with contextlib.redirect_stdout(io.StringIO()):
            try:
                res[label] = tx.verify_input(0)
            except Exception as e:
                res[label] = type(e).__name__
    return res.get("non-minimal spelling") is True, "verify_input: %s" % res

def F48():
    """1-of-1 TapRootMultiSig"""
    from buidl.ecc import PrivateKey
    from buidl.taproot import TapRootMultiSig
    try:
        t = TapRootMultiSig([PrivateKey(5).point], 1)
        r = "constructed, single leaf %s…" % t.single_leaf().hash().hex()[:12]
    except Exception as e:
        r = "%s: %s" % (type(e).__name__, e)
    return not r.startswith("constructed"), "TapRootMultiSig([key], 1) -> %s" % r

def F49():
    """descriptor with an upper-case fingerprint is refused by its own parser"""
    from buidl.descriptor import P2WSHSortedMulti
    txt = ("wsh(sortedmulti(1,[c7d0648a/48h/1h/0h/2h]tpubDEpefcgzY6ZyEV2uF4xcW2z8bZ3DNeWx9h2BcwcX973BHrmkQxJhpAXoSWZeHkmkiTtnUjfERsTDTVCcifW6po3PFR1JRjUUTJHvPpDqJhr/0/*,"
           "[12980eed/48h/1h/0h/2h]tpubDEkXGoQhYLFnYyzUGadtceUKbzVfXVorJEdo7c6VKJLHrULhpSVLC7fo89DDhjHmPvvNyrun2LTWH6FYmHh5VaQYPLEqLviVQKh45ufz8Ae/0/*))")
    krs = [dict(k) for k in P2WSHSortedMulti.parse(txt).key_records]
    krs[0]["xfp"] = krs[0]["xfp"].upper()
    d = P2WSHSortedMulti(quorum_m=1, key_records=krs, sort_key_records=False)
    try:
        r = "parsed back, same text: %s" % (str(P2WSHSortedMulti.parse(str(d))) == str(d))
    except Exception as e:
        r = "%s: %s" % (type(e).__name__, str(e)[:60])
    return not r.endswith("True"), "P2WSHSortedMulti.parse(str(P2WSHSortedMulti(xfp=C7D0648A…))) -> %s" % r

def K1():
    from buidl.op import op_2rot
    st = [b"1", b"2", b"3", b"4", b"5", b"6"]
    op_2rot(st)
    return st != [b"3", b"4", b"5", b"6", b"1", b"2"], "2ROT on 1..6 -> %s" % st

def K2():
    from buidl.network import VersionMessage
    raw = VersionMessage(timestamp=0, nonce=b"\x00" * 8).serialize()
    return raw[44:46] == b"\x8d\x20", "receiver port bytes %s (network byte order would be 208d)" % raw[44:46].hex()

if __name__ == "__main__":
    names = sys.argv[1:] or [n for n in dir() if n[0] in "FK" and n[1:].isdigit()]
    names.sort(key=lambda n: (n[0], int(n[1:])))
    for n in names:
        try:
            d, msg = globals()[n]()
            print("%-4s %s  %s" % (n, "DEFECT" if d else "FIXED ", msg))
        except Exception as e:
            print("%-4s ERROR  %s" % (n, traceback.format_exc().strip().split("\n")[-1]))
