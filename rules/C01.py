"""C01 — ECDSA: complete signing, sound verification, canonical signatures (structural clauses)."""
import ast

from sa import rl
from sa.cfg import cfg_of
from sa.dataflow import call_name, calls_in, dotted, expand, origins, rd_of
from sa.fold import Folder, Unknown, module_const
from sa.guard import BAD_FALSE, BAD_TRUE
from sa.interval import ISet
from sa.loader import AnalysisError, decorators, param_names
from spec.constants import SECP256K1

N = SECP256K1["N"]
NAMES = {"N": N, "N//2": N // 2, "2^256": 1 << 256}

EXPLANATION = (
    "Static analysis of buidl/pecc.py and buidl/cecc.py: interval-set abstract interpretation decides the accept-set of "
    "(r, s) in verify, the range of s returned by sign (low-S) and of the digest fed to RFC 6979, the nonce range and the "
    "secret range; def-use rules decide that the nonce only comes from deterministic_k, that verify compares r with the "
    "x coordinate reduced mod n, and that *_message hash with hash256; a DER layout rule compares encoder and decoder; "
    "curve constants are compared with SEC 2.  Not decided: the ECDSA equation itself, HMAC-DRBG outputs, DER round trip on values."
)


def _second_param(fn):
    ps = param_names(fn)
    return ps


def c01_1(ctx):
    """accept-set of sig.r / sig.s in pecc verify ⊆ [1, N-1]"""
    mod, fn = rl.get(ctx, "pecc:S256Point.verify")
    ps = param_names(fn)
    if len(ps) < 3:
        raise AnalysisError("verify signature changed: %s" % ps)
    sig = ps[2]
    keys = ["%s.r" % sig, "%s.s" % sig]
    return rl.accept_set(ctx, "pecc:S256Point.verify", keys, ISet.range(1, N - 1), NAMES, prefer=(0, N, N + 1, N - 1, 1), exact=True)


def c01_2(ctx):
    """the x coordinate compared with sig.r is reduced mod N"""
    mod, fn = rl.get(ctx, "pecc:S256Point.verify")
    cfg = cfg_of(fn)
    sig = param_names(fn)[2]
    out = []
    fold = Folder(ctx.repo, mod.name)
    # comparisons with sig.r on one side: in returns or tests
    sites = []
    for n in cfg.nodes:
        root = n.ast.value if (n.kind == "return" and n.ast is not None and n.ast.value is not None) else (n.ast if n.kind == "test" else None)
        if root is None:
            continue
        for c in ast.walk(root):
            if isinstance(c, ast.Compare) and len(c.ops) == 1 and isinstance(c.ops[0], (ast.Eq, ast.NotEq)):
                l, r = c.left, c.comparators[0]
                rk = "%s.r" % sig
                lr = dotted(expand(fn, n.id, l)) == rk
                rr = dotted(expand(fn, n.id, r)) == rk
                if lr != rr:
                    other = r if lr else l
                    oo = origins(fn, n.id, other)
                    if "attrname:x" in oo or "attrname:num" in oo or "call:xonly" in oo:
                        sites.append((n, c, other))
    if not sites:
        raise AnalysisError("no comparison of the computed x coordinate with %s.r found in verify" % sig)
    for n, c, other in sites:
        ex = expand(fn, n.id, other)
        reduced = isinstance(ex, ast.BinOp) and isinstance(ex.op, ast.Mod) and fold.fold(ex.right) == N
        if reduced:
            out.append(ctx.ok("pecc:S256Point.verify", "x coordinate compared with r is reduced mod N: `%s`" % ast.unparse(c), c, mod, key="xmodn"))
        else:
            out.append(ctx.bad("pecc:S256Point.verify",
                               "`%s` compares r with the x coordinate without reduction mod n: a tuple with R.x in [n, p) and r = R.x - n satisfies "
                               "the ECDSA equation but is rejected, and r = R.x >= n is accepted unless r is range-checked" % ast.unparse(c),
                               c, mod, key="xmodn"))
    return out


def _sign_s_site(mod, fn):
    cfg = cfg_of(fn)
    sites = []
    for n in cfg.returns():
        if n.ast is None or n.ast.value is None:
            continue
        v = n.ast.value
        if isinstance(v, ast.Call) and call_name(v) == "Signature":
            kw = {k.arg: k.value for k in v.keywords}
            s_arg = v.args[1] if len(v.args) == 2 else kw.get("s")
            if s_arg is not None:
                sites.append((n, s_arg))
    return sites


def c01_3(ctx):
    """s at `return Signature(r, s)` ⊆ [0, N//2] (low-S)"""
    return rl.value_range(ctx, "pecc:PrivateKey.sign", _sign_s_site, ISet.range(0, N // 2), {}, NAMES,
                          prefer=(N // 2 + 1,), what="s of the returned signature", key="low-s")


def _z_bytes_site(mod, fn):
    cfg = cfg_of(fn)
    z = param_names(fn)[1]
    sites = []
    for n, c in rl.find_calls(fn, "int_to_big_endian"):
        if c.args and ("param:" + z) in origins(fn, n.id, c.args[0]):
            sites.append((n, c.args[0]))
    return sites


def c01_4(ctx):
    """digest fed to the RFC 6979 HMAC is reduced into [0, N-1] for every z in [0, 2^256)"""
    out = []
    for repo, label in ((ctx.repo, "pecc"), (ctx.repo_c, "cecc")):
        mod, fn = repo.func("%s:PrivateKey.deterministic_k" % label)
        z = param_names(fn)[1]
        out += rl.value_range(ctx, "%s:PrivateKey.deterministic_k" % label, _z_bytes_site, ISet.range(0, N - 1),
                              {z: ISet.range(0, (1 << 256) - 1)}, NAMES, prefer=(N,), repo=repo,
                              what="digest passed to int_to_big_endian", key="z-reduced")
    return out


def c01_5(ctx):
    """the returned nonce candidate ⊆ [1, N-1]"""
    out = []
    for repo, label in ((ctx.repo, "pecc"), (ctx.repo_c, "cecc")):
        def site(mod, fn):
            return [(n, n.ast.value) for n in cfg_of(fn).returns() if n.ast is not None and n.ast.value is not None]
        out += rl.value_range(ctx, "%s:PrivateKey.deterministic_k" % label, site, ISet.range(1, N - 1), {}, NAMES,
                              prefer=(0, N), repo=repo, what="returned nonce", key="k-range")
    return out


def c01_6(ctx):
    """PrivateKey.__init__: secret ∈ [1, N-1] at normal exit (pecc); cecc defers to libsecp (sibling note)"""
    mod, fn = rl.get(ctx, "pecc:PrivateKey.__init__")
    sec = param_names(fn)[1]
    out = rl.accept_set(ctx, "pecc:PrivateKey.__init__", [sec], ISet.range(1, N - 1), NAMES, targets="returns", prefer=(0, N, N - 1, 1), exact=True)
    return out


def _der_fields(mod, fn):
    """Order in which self.r / self.s reach the DER accumulator, from the returned expression's origins in statement order."""
    cfg = cfg_of(fn)
    order = []
    for n in sorted(cfg.stmts(("stmt",)), key=lambda x: x.lineno):
        a = n.ast
        if isinstance(a, ast.Assign) and isinstance(a.value, ast.Call) and call_name(a.value) == "int_to_big_endian":
            d = dotted(a.value.args[0]) if a.value.args else None
            if d:
                order.append((d.split(".")[-1], a.targets[0].id if isinstance(a.targets[0], ast.Name) else None, n))
    return order


def _der_ref(r, s):
    def enc(v):
        b = v.to_bytes(32, "big").lstrip(b"\x00")
        if b[0] & 0x80:
            b = b"\x00" + b
        return bytes([2, len(b)]) + b
    body = enc(r) + enc(s)
    return bytes([0x30, len(body)]) + body


def _der_cells(ctx):
    """Signature.der / Signature.parse evaluated on one representative of every cell the DER integer encoding distinguishes: the number of leading
    zero bytes of the 32-byte value (0..31) x the high bit of its first non-zero byte, for r (s fixed) and for s (r fixed) -- 128 cells.  The
    encoding must be 30 len 02 rlen r 02 slen s with a 00 in front of exactly the values whose first byte is >= 0x80 and no other leading zeros,
    and parse must return the pair that was encoded.  None when the functions are outside the evaluator's subset."""
    from sa.cells import ClassRef, Evaluator, FileStandIn, Obj, Raised, Undecided
    spec_e, spec_p = "pecc:Signature.der", "pecc:Signature.parse"
    mod, fn = rl.get(ctx, spec_e)
    mod2, fn2 = rl.get(ctx, spec_p)
    vals = []
    for zeros in range(32):
        width = 32 - zeros
        for top in (0x7F, 0x80):
            vals.append(int.from_bytes(bytes([top]) + bytes(range(1, width)), "big"))
    fixed = int.from_bytes(bytes(range(33, 65)), "big")
    pairs = [(v, fixed) for v in vals] + [(fixed, v) for v in vals]
    hooks = {("Signature", "__init__"): lambda o, r=None, s=None, *a, **k: o.attrs.update({"r": r, "s": s})}
    out = []
    try:
        for r_, s_ in pairs:
            ctx.count("cells")
            me = Obj("pecc", "Signature", {"r": r_, "s": s_})
            want = _der_ref(r_, s_)
            try:
                got = Evaluator(ctx.repo).call(spec_e, [], self_obj=me)
            except Raised as x:
                out.append(ctx.bad(spec_e, "der() raises %s for r = %#x" % (x.name, r_), fn, mod, key="der-cells"))
                break
            if got != want:
                which = "r" if s_ == fixed else "s"
                v = r_ if which == "r" else s_
                out.append(ctx.bad(spec_e, "der() of a signature whose %s has %d leading zero byte(s) and first byte %#04x is %s…, DER is %s… (30 len 02 rlen r 02 slen s; 00 in front "
                                           "of a value exactly when its first byte is >= 0x80, no other leading zeros)" % (
                                               which, 32 - (v.bit_length() + 7) // 8, v.to_bytes(32, "big").lstrip(b"\x00")[0], got.hex()[:20] if isinstance(got, bytes) else got,
                                               want.hex()[:20]), fn, mod, key="der-cells"))
                break
            try:
                back = Evaluator(ctx.repo, method_hooks=hooks, externals={"BytesIO": lambda b: FileStandIn(b)}).call(spec_p, [want], self_obj=ClassRef("pecc", "Signature"))
            except Raised as x:
                out.append(ctx.bad(spec_p, "parse() of the DER encoding of (%#x…, %#x…) raises %s" % (r_ >> 200, s_ >> 200, x.name), fn2, mod2, key="parse-cells"))
                break
            if not isinstance(back, Obj) or (back.attrs.get("r"), back.attrs.get("s")) != (r_, s_):
                out.append(ctx.bad(spec_p, "parse(der(r, s)) returns another pair than (r, s) (%s)" % (
                    "r and s swapped" if isinstance(back, Obj) and (back.attrs.get("r"), back.attrs.get("s")) == (s_, r_) else "a value is changed"), fn2, mod2, key="parse-cells"))
                break
    except Undecided:
        return None
    if not out:
        out = [ctx.ok(spec_e, "30 len 02 rlen r 02 slen s with 00 padding exactly for a first byte >= 0x80 (128 (leading zeros, high bit) cells for r and s)", fn, mod, key="der-cells"),
               ctx.ok(spec_p, "parse(der(r, s)) = (r, s) on every cell", fn2, mod2, key="parse-cells")]
    return out


def c01_7(ctx):
    """DER encoder and decoder agree on the field order 30 len 02 rlen r 02 slen s, and the padding predicate is byte >= 0x80"""
    ev = _der_cells(ctx)
    if ev is not None:
        return ev
    mod, fn = rl.get(ctx, "pecc:Signature.der")
    out = []
    order = _der_fields(mod, fn)
    fields = [o[0] for o in order]
    if fields != ["r", "s"]:
        if fields and set(fields) <= {"r", "s"}:
            out.append(ctx.bad("pecc:Signature.der", "encoder emits the integers %s, DER ECDSA-Sig-Value is r then s" % fields, fn, mod, key="der-order"))
        else:
            raise AnalysisError("DER encoder: int_to_big_endian sites not recognised: %s" % fields)
    else:
        # the accumulator must append r's bytes before s's: check the returned expression's construction order
        cfg = cfg_of(fn)
        rname, sname = order[0][1], order[1][1]
        uses = []
        for n in sorted(cfg.stmts(("stmt", "return")), key=lambda x: x.lineno):
            a = n.ast
            if a is None:
                continue
            val = a.value if isinstance(a, (ast.Assign, ast.AugAssign, ast.Return)) else None
            if val is None:
                continue
            tgt = None
            if isinstance(a, ast.Assign) and isinstance(a.targets[0], ast.Name):
                tgt = a.targets[0].id
            if isinstance(a, ast.AugAssign) and isinstance(a.target, ast.Name):
                tgt = a.target.id
            if tgt in (rname, sname):
                continue
            # which of rname/sname appear in a `bytes([2, len(x)]) + x` shape
            for b in ast.walk(val):
                if isinstance(b, ast.BinOp) and isinstance(b.op, ast.Add) and isinstance(b.right, ast.Name) and b.right.id in (rname, sname):
                    hdr = b.left
                    txt = ast.unparse(hdr)
                    uses.append((b.right.id, txt))
        seq = [u[0] for u in uses]
        if seq == [rname, sname] and all("2" in u[1] and "len(%s)" % u[0] in u[1] for u in uses):
            out.append(ctx.ok("pecc:Signature.der", "encoder emits 02 len(r) r then 02 len(s) s", fn, mod, key="der-order"))
        elif sorted(seq) == sorted([rname, sname]) and seq != [rname, sname]:
            out.append(ctx.bad("pecc:Signature.der", "encoder concatenates s before r", fn, mod, key="der-order"))
        else:
            raise AnalysisError("DER encoder accumulator shape not recognised: %s" % uses)
        # padding predicate: `xbin[0] >= 128` (or & 0x80) guards the prepending of 00
        pads = 0
        for n in cfg.tests():
            t = n.ast
            if isinstance(t, ast.Compare) and len(t.ops) == 1 and isinstance(t.left, ast.Subscript) and isinstance(t.left.value, ast.Name) \
                    and t.left.value.id in (rname, sname) and ast.unparse(t.left.slice) == "0" and isinstance(n.stmt, ast.If):
                c = Folder(ctx.repo, mod.name).fold(t.comparators[0])
                body = n.stmt.body
                prepends = any(isinstance(b, ast.Assign) and isinstance(b.value, ast.BinOp) and isinstance(b.value.left, ast.Constant)
                               and b.value.left.value == b"\x00" for b in body)
                if not prepends:
                    continue
                from sa.interval import cmp_set
                from sa.ranges import _OPS
                s = cmp_set(_OPS[type(t.ops[0])], c) if type(t.ops[0]) in _OPS and c is not Unknown else None
                if s is None:
                    raise AnalysisError("padding predicate not understood: %s" % ast.unparse(t))
                got = s.intersect(ISet.range(0, 255))
                if got == ISet.range(128, 255):
                    pads += 1
                    out.append(ctx.ok("pecc:Signature.der", "00 is prepended to %s exactly when its first byte ∈ [128,255]" % t.left.value.id, t, mod,
                                      key="pad-" + ("r" if t.left.value.id == rname else "s")))
                else:
                    w = got.minus(ISet.range(128, 255)).union(ISet.range(128, 255).minus(got)).witness()
                    out.append(ctx.bad("pecc:Signature.der", "00 is prepended when first byte ∈ %s, DER requires exactly [128,255] (e.g. first byte %s)" % (got, w),
                                       t, mod, key="pad-" + ("r" if t.left.value.id == rname else "s")))
        if pads < 2 and not any(r.status == "violation" for r in out):
            raise AnalysisError("expected two high-bit padding sites in Signature.der, found %d" % pads)
    # decoder: r is read before s and passed to cls(r, s) in that order
    mod, fn = rl.get(ctx, "pecc:Signature.parse")
    cfg = cfg_of(fn)
    rets = [n for n in cfg.returns() if n.ast is not None and isinstance(n.ast.value, ast.Call) and len(n.ast.value.args) == 2]
    if not rets:
        raise AnalysisError("Signature.parse: constructor return not found")
    rd = rd_of(fn)
    for n in rets:
        a0, a1 = n.ast.value.args
        l0 = _def_line(fn, n.id, a0)
        l1 = _def_line(fn, n.id, a1)
        if l0 is None or l1 is None:
            # recognised wrong form: the integer that was read is replaced by a function of itself before it reaches the constructor
            rewritten = None
            for a in (a0, a1):
                if isinstance(a, ast.Name):
                    for d in rd.reaching(n.id, a.id):
                        g = rd.gen.get(d, {}).get(a.id)
                        if g and g[0] == "val" and isinstance(g[1], (ast.BinOp, ast.Call, ast.IfExp)) and any(isinstance(x, ast.Name) and x.id == a.id for x in ast.walk(g[1])) \
                                and not any(isinstance(x, ast.Call) and call_name(x) in ("read", "int", "big_endian_to_int", "from_bytes", "hex") for x in ast.walk(g[1])):
                            rewritten = (a.id, g[1])
            if rewritten:
                out.append(ctx.bad("pecc:Signature.parse", "the integer read for `%s` is replaced by `%s` on some path before the constructor gets it: decoding no longer returns the "
                                                           "pair that was encoded (parse(Signature(r, s).der()) != (r, s) for the values that path changes)" % (
                                                               rewritten[0], ast.unparse(rewritten[1])), n.ast, mod, key="parse-verbatim"))
                continue
            raise AnalysisError("Signature.parse: cannot order the reads of r and s")
        if l0 < l1:
            out.append(ctx.ok("pecc:Signature.parse", "first integer read (line %d) becomes r, second (line %d) becomes s" % (l0, l1), n.ast, mod, key="parse-order"))
        else:
            out.append(ctx.bad("pecc:Signature.parse", "constructor receives the second integer read as r (read lines %d, %d)" % (l0, l1), n.ast, mod, key="parse-order"))
    # decoder marker checks: 0x30 and two 0x02 tests lead to raise
    fold = Folder(ctx.repo, mod.name)
    marks = []
    for t in cfg.tests():
        if isinstance(t.ast, ast.Compare) and len(t.ast.ops) == 1 and isinstance(t.ast.ops[0], (ast.NotEq, ast.Eq)):
            c = fold.fold(t.ast.comparators[0])
            if c in (0x30, 0x02):
                bad = isinstance(t.ast.ops[0], ast.NotEq)
                succ = [b for b, l in cfg.succ[t.id] if l == bad]
                if not cfg.reach(succ) & {x.id for x in cfg.returns()}:
                    marks.append(c)
    if sorted(marks) == [0x02, 0x02, 0x30]:
        out.append(ctx.ok("pecc:Signature.parse", "compound marker 0x30 and both integer markers 0x02 are enforced (mismatch raises)", fn, mod, key="markers"))
    else:
        out.append(ctx.bad("pecc:Signature.parse", "DER marker checks enforced: %s, expected one 0x30 and two 0x02" % [hex(m) for m in sorted(marks)], fn, mod, key="markers"))
    return out


def _def_line(fn, nid, expr):
    if not isinstance(expr, ast.Name):
        return None
    sv = rd_of(fn).single_value(nid, expr.id)
    if not sv:
        return None
    return cfg_of(fn).nodes[sv[1]].lineno


def c01_8(ctx):
    out = []
    for repo, label in ((ctx.repo, "pecc"), (ctx.repo_c, "cecc")):
        for nm in ("P", "N") + (("A", "B") if label == "pecc" else ()):
            out.append(rl.const_eq(ctx, label, nm, SECP256K1[nm], "SEC 2 secp256k1 " + nm, repo=repo))
    # generator
    m = ctx.repo.module("pecc")
    g = m.constants.get("G")
    if g is None or not isinstance(g, ast.Call) or len(g.args) != 2:
        raise AnalysisError("pecc.G constructor call not found")
    f = Folder(ctx.repo, "pecc")
    gx, gy = f.fold(g.args[0]), f.fold(g.args[1])
    if (gx, gy) == (SECP256K1["GX"], SECP256K1["GY"]):
        out.append(ctx.ok("pecc:G", "generator equals SEC 2 G", g, m, key="G"))
    else:
        out.append(ctx.bad("pecc:G", "generator coordinates differ from SEC 2", g, m, key="const:G"))
    mc = ctx.repo_c.module("cecc")
    g = mc.constants.get("G")
    v = Unknown
    if isinstance(g, ast.Call) and g.keywords:
        v = Folder(ctx.repo_c, "cecc").fold(g.keywords[0].value)
    exp = b"\x04" + SECP256K1["GX"].to_bytes(32, "big") + SECP256K1["GY"].to_bytes(32, "big")
    if v is Unknown:
        raise AnalysisError("cecc.G not foldable")
    out.append(ctx.ok("cecc:G", "generator equals SEC 2 G", g, mc, key="G") if v == exp else
               ctx.bad("cecc:G", "generator bytes differ from SEC 2", g, mc, key="const:G"))
    return out


def c01_9(ctx):
    """nonce source and message digests"""
    out = []
    mod, fn = rl.get(ctx, "pecc:PrivateKey.sign")
    cfg = cfg_of(fn)
    rd = rd_of(fn)
    zname = param_names(fn)[1]
    # every use of a name in `<k> * G` / pow(<k>, …) must be defined only by self.deterministic_k(z)
    knames = set()
    for n in cfg.nodes:
        if n.ast is None or n.kind not in ("stmt", "return"):
            continue
        for b in ast.walk(n.ast):
            if isinstance(b, ast.BinOp) and isinstance(b.op, ast.Mult) and isinstance(b.right, ast.Name) and b.right.id == "G" and isinstance(b.left, ast.Name):
                knames.add((b.left.id, n.id))
    if not knames:
        raise AnalysisError("sign: nonce point `k * G` not found")
    for kn, nid in sorted(knames):
        ds = rd.reaching(nid, kn)
        good = True
        why = ""
        for d in ds:
            g = rd.gen.get(d, {}).get(kn)
            if d == cfg.entry or not g or g[0] != "val":
                good, why = False, "definition at line %s is not a plain assignment" % cfg.nodes[d].lineno
                break
            v = g[1]
            if not (isinstance(v, ast.Call) and call_name(v) == "deterministic_k" and v.args and ("param:" + zname) in origins(fn, d, v.args[0])):
                good, why = False, "`%s = %s` (line %d)" % (kn, ast.unparse(v), cfg.nodes[d].lineno)
                break
        if good:
            out.append(ctx.ok("pecc:PrivateKey.sign", "nonce %s comes only from deterministic_k(%s)" % (kn, zname), fn, mod, key="nonce-source"))
        else:
            out.append(ctx.bad("pecc:PrivateKey.sign", "nonce has a source other than deterministic_k(z): %s" % why, fn, mod, key="nonce-source"))
    # message variants
    for repo, label in ((ctx.repo, "pecc"), (ctx.repo_c, "cecc")):
        for spec, callee in (("%s:PrivateKey.sign_message" % label, "sign"), ("%s:S256Point.verify_message" % label, "verify")):
            mod, fn = repo.func(spec)
            ctx.note_fn(mod, fn)
            msg = param_names(fn)[1]
            found = False
            for n, c in rl.find_calls(fn, callee):
                if not c.args:
                    continue
                ex = expand(fn, n.id, c.args[0])
                ok = (isinstance(ex, ast.Call) and call_name(ex) == "big_endian_to_int" and ex.args and isinstance(ex.args[0], ast.Call)
                      and call_name(ex.args[0]) == "hash256" and ex.args[0].args and isinstance(ex.args[0].args[0], ast.Name) and ex.args[0].args[0].id == msg)
                found = True
                if ok:
                    out.append(ctx.ok(spec, "z = big_endian_to_int(hash256(%s)) is passed to %s" % (msg, callee), c, mod, key="msg-digest"))
                else:
                    out.append(ctx.bad(spec, "digest passed to %s is `%s`, expected big_endian_to_int(hash256(message))" % (callee, ast.unparse(ex)), c, mod, key="msg-digest"))
            if not found:
                raise AnalysisError("%s does not call %s" % (spec, callee))
    return out


def exact_sites(ctx, spec, repo=None, allow=()):
    """EXACT: float-producing constructs in a function operating on integers."""
    mod, fn = rl.get(ctx, spec, repo)
    bad = []
    for sub in ast.walk(fn):
        if isinstance(sub, ast.BinOp) and isinstance(sub.op, ast.Div):
            bad.append((sub, "true division `%s` yields a float" % ast.unparse(sub)))
        elif isinstance(sub, ast.Constant) and isinstance(sub.value, float):
            bad.append((sub, "float literal %r" % sub.value))
        elif isinstance(sub, ast.Call) and isinstance(sub.func, ast.Attribute) and isinstance(sub.func.value, ast.Name) and sub.func.value.id == "math" \
                and sub.func.attr in ("log", "log2", "sqrt", "pow", "exp"):
            bad.append((sub, "math.%s yields a float" % sub.func.attr))
        elif isinstance(sub, ast.Call) and isinstance(sub.func, ast.Name) and sub.func.id == "float":
            bad.append((sub, "float() conversion"))
    return mod, fn, [(n, m) for n, m in bad if ast.unparse(n) not in allow]


def c01_10(ctx):
    out = []
    for spec in ("pecc:PrivateKey.sign", "pecc:S256Point.verify", "pecc:PrivateKey.deterministic_k", "pecc:PrivateKey.even_secret"):
        mod, fn, bad = exact_sites(ctx, spec)
        if not bad:
            out.append(ctx.ok(spec, "no floating-point operation on scalars", fn, mod, key="exact"))
        for n, m in bad:
            out.append(ctx.bad(spec, m + " in integer scalar arithmetic", n, mod, key="exact:" + type(n).__name__))
    return out


def c01_11(ctx):
    """cecc sign: self-verification false => raise dominates the return"""
    def match(node, ex, atoms):
        if "call:verify" in atoms:
            # `if not self.point.verify(z, sig): raise` -> atomic test is the call itself; bad when false
            if isinstance(node.ast, ast.Call):
                return BAD_FALSE
        return None
    return [rl.guard(ctx, "cecc:PrivateKey.sign", match, what="self-verification of the produced signature", repo=ctx.repo_c, key="self-verify")]


def _stream_reads(fn, stream):
    """(node id, ast.Call) of every `<stream>.read(<non-constant>)` in fn"""
    out = []
    for c in ast.walk(fn):
        if isinstance(c, ast.Call) and isinstance(c.func, ast.Attribute) and c.func.attr == "read" and dotted(c.func.value) == stream and c.args \
                and not isinstance(c.args[0], ast.Constant):
            out.append(c)
    return out


# what Signature.der emits for one integer (established by C01.7: leading zeros stripped, 00 prepended iff first byte >= 0x80)
_DER_INT_DOMAIN = (
    ("first byte in [1,127] (no padding)", lambda v: {"%s[0]" % v: ISet.range(1, 127), "%s[1]" % v: ISet.range(0, 255), "len(%s)" % v: ISet.range(1, 32)}),
    ("00 padding followed by a byte in [128,255]", lambda v: {"%s[0]" % v: ISet.point(0), "%s[1]" % v: ISet.range(128, 255), "len(%s)" % v: ISet.range(2, 33)}),
)
_PURE_CONVERTERS = {"int", "hex", "big_endian_to_int", "from_bytes", "bytes", "len"}


def c01_12(ctx):
    """DER round trip, reader side: no guard on the *content* of an integer may reject a string the encoder emits.
    Every function that receives the bytes of r / s (a helper called from Signature.parse, or parse itself through a
    local) is interpreted over the two shapes Signature.der can produce; a reachable `raise` is a lost round trip."""
    from sa.ranges import Ranges

    spec = "pecc:Signature.parse"
    mod, fn = rl.get(ctx, spec)
    stream = None
    for st in ast.walk(fn):
        if isinstance(st, ast.Assign) and isinstance(st.value, ast.Call) and call_name(st.value) == "BytesIO" and isinstance(st.targets[0], ast.Name):
            stream = st.targets[0].id
    if stream is None:
        raise AnalysisError("Signature.parse: stream variable not found")
    reads = _stream_reads(fn, stream)
    if len(reads) < 2:
        raise AnalysisError("Signature.parse: expected two variable-length reads (r and s), found %d" % len(reads))
    out = []
    targets = []  # (module, function, variable holding the integer bytes, where)
    for rd in reads:
        par = mod.parents.get(rd)
        # walk up through pure converters
        node = rd
        while par is not None and isinstance(par, (ast.Call, ast.Attribute)):
            if isinstance(par, ast.Attribute):
                node, par = par, mod.parents.get(par)
                continue
            nm = call_name(par)
            if nm in _PURE_CONVERTERS:
                node, par = par, mod.parents.get(par)
                continue
            # a call that receives the bytes as an argument
            if node in par.args:
                idx = par.args.index(node)
                callee = None
                if isinstance(par.func, ast.Attribute) and dotted(par.func.value) in ("cls", "self", "Signature"):
                    callee = mod.functions.get("Signature." + par.func.attr)
                    skip = 0 if callee is None else (0 if "staticmethod" in decorators(callee) else 1)
                elif isinstance(par.func, ast.Name):
                    r = ctx.repo.resolve_name(mod.name, par.func.id)
                    callee = ctx.repo.module(r[0]).functions.get(r[1]) if r else None
                    skip = 0
                if callee is None:
                    raise AnalysisError("Signature.parse passes the integer bytes to `%s`, which cannot be resolved" % ast.unparse(par.func))
                ps = param_names(callee)
                targets.append((mod, callee, ps[idx + skip], "helper %s" % callee.name))
            break
        if par is not None and isinstance(par, ast.Assign) and isinstance(par.targets[0], ast.Name) and node is rd:
            targets.append((mod, fn, par.targets[0].id, "local `%s`" % par.targets[0].id))
    seen_t = set()
    for tmod, tfn, var, where in targets:
        if (tfn.name, var) in seen_t:
            continue
        seen_t.add((tfn.name, var))
        ctx.note_fn(tmod, tfn)
        for label, dom in _DER_INT_DOMAIN:
            track = dom(var)
            rg = Ranges(ctx.repo, tmod, tfn, track, types=track)  # `types`: the domain also holds right after `var = s.read(n)`
            if rg.uninterpreted:
                n0, why = rg.uninterpreted[0]
                out.append(ctx.err(spec, "%s: test on the integer bytes not understood (%s)" % (where, why), getattr(n0, "ast", None), tmod))
                continue
            hit = None
            for n in rg.cfg.nodes:
                if n.kind == "raise" and rg.reachable(n.id) and any(not rg.at(n.id, k).is_empty() and rg.at(n.id, k) != track[k] for k in track):
                    hit = n
                    break
            if hit is not None:
                vals = ", ".join("%s ∈ %s" % (k, rg.at(hit.id, k)) for k in sorted(track))
                out.append(ctx.bad(spec, "%s rejects an integer the encoder emits (%s): `raise` at line %d is reachable with %s — sig.der() no longer parses back" % (
                    where, label, hit.lineno, vals), hit.ast, tmod, key="content-guard:" + tfn.name))
            else:
                out.append(ctx.ok(spec, "%s: no content guard rejects an encoder-emitted integer (%s)" % (where, label), tfn, tmod, key="content-guard:%s:%s" % (tfn.name, label[:2])))
    if not targets:
        out.append(ctx.ok(spec, "the bytes of r and s are converted directly (no content guard between read and int conversion)", fn, mod, key="content-guard"))
    return out


def _is_r_compare(fn, nid, c, sig):
    """Compare node relating <sig>.r to a value derived from the computed point's x coordinate -> True"""
    if not (isinstance(c, ast.Compare) and len(c.ops) == 1 and isinstance(c.ops[0], (ast.Eq, ast.NotEq))):
        return False
    l, r = c.left, c.comparators[0]
    rk = "%s.r" % sig
    lr = dotted(expand(fn, nid, l)) == rk
    rr = dotted(expand(fn, nid, r)) == rk
    if lr == rr:
        return False
    oo = origins(fn, nid, r if lr else l)
    return "attrname:x" in oo or "attrname:num" in oo or "call:xonly" in oo


def c01_13(ctx):
    """verify: a non-false verdict is only reachable through the comparison of r with the computed x coordinate
    (pecc) / is the library's verdict (cecc) -- no side table, flag or earlier result can stand in for the equation"""
    out = []
    spec = "pecc:S256Point.verify"
    mod, fn = rl.get(ctx, spec)
    sig = param_names(fn)[2]
    direct, other = [], []
    for n in rl.nonfalse_returns(fn):
        v = expand(fn, n.id, n.ast.value) if n.ast is not None and n.ast.value is not None else None
        if v is not None and any(_is_r_compare(fn, n.id, c, sig) and isinstance(c.ops[0], ast.Eq) for c in ast.walk(n.ast.value)) \
                and not any(isinstance(b, ast.BoolOp) and isinstance(b.op, ast.Or) for b in ast.walk(n.ast.value)):
            direct.append(n)
        else:
            other.append(n)

    def match(node, ex, atoms):
        if _is_r_compare(fn, node.id, node.ast, sig):
            return BAD_FALSE if isinstance(node.ast.ops[0], ast.Eq) else BAD_TRUE
        return None
    if other:
        out.append(rl.guard(ctx, spec, match, targets=lambda m, f: other, fail="raise_or_false",
                            what="non-false verdict depends on the equation", key="verdict-source"))
    elif direct:
        out.append(ctx.ok(spec, "every non-false exit returns the comparison of r with the computed x coordinate itself (%d exit(s))" % len(direct),
                          fn, mod, key="verdict-source"))
    else:
        raise AnalysisError("verify has no non-false exit")
    spec = "cecc:S256Point.verify"
    mod, fn = rl.get(ctx, spec, ctx.repo_c)
    for n in rl.nonfalse_returns(fn):
        oo = origins(fn, n.id, n.ast.value) if n.ast is not None and n.ast.value is not None else set()
        if "call:secp256k1_ecdsa_verify" in oo:
            out.append(ctx.ok(spec, "the verdict returned at line %d is libsecp256k1's" % n.lineno, n.ast, mod, key="verdict-source"))
        else:
            out.append(ctx.bad(spec, "line %d returns a non-false verdict `%s` that does not come from secp256k1_ecdsa_verify" % (
                n.lineno, ast.unparse(n.ast.value) if n.ast is not None and n.ast.value is not None else "None"), n.ast or fn, mod, key="verdict-source"))
    return out


def c01_15(ctx):
    """RFC 6979 int2octets / bits2octets: the digest and the secret enter the HMAC as fixed 32-octet strings.  A width computed
    from the value (`bit_length`) drops leading zero octets: for a digest below 2^248 the nonce -- and so (r, s) -- is not the
    RFC 6979 one."""
    out = []
    for repo, label in ((ctx.repo, "pecc"), (ctx.repo_c, "cecc")):
        spec = "%s:PrivateKey.deterministic_k" % label
        mod, fn = repo.func(spec)
        ctx.note_fn(mod, fn)
        f = Folder(repo, mod.name)
        sites = [(n, c) for n, c in rl.find_calls(fn, "int_to_big_endian") if len(c.args) == 2]
        if not sites:
            out.append(ctx.err(spec, "no int_to_big_endian(value, width) site found", fn, mod))
            continue
        for n, c in sites:
            w = f.fold(expand(fn, n.id, c.args[1]))
            what = ast.unparse(c.args[0])
            if w == 32:
                out.append(ctx.ok(spec, "`%s` enters the HMAC as 32 octets" % what, c, mod, key="octets32:%s" % what))
            elif isinstance(w, int):
                out.append(ctx.bad(spec, "`%s` is serialised to %d octets, RFC 6979 uses qlen/8 = 32" % (what, w), c, mod, key="octets32:%s" % what))
            elif any(isinstance(x, ast.Call) and call_name(x) in ("bit_length", "len") for x in ast.walk(expand(fn, n.id, c.args[1]))):
                out.append(ctx.bad(spec, "`%s` is serialised with a width computed from its value (`%s`): a digest with leading zero octets (below 2^248, about 1 in 256) yields "
                                         "another HMAC input, so the signature is valid but not the RFC 6979 signature" % (what, ast.unparse(c.args[1])), c, mod,
                                   key="octets32:%s" % what))
            else:
                out.append(ctx.err(spec, "width `%s` of `%s` not foldable" % (ast.unparse(c.args[1]), what), c, mod))
    return out


def c01_16(ctx):
    """Signature keeps r and s exactly as given: verify's range test must see the caller's numbers.  A constructor that reduces
    them (mod n) makes r+n / s+n aliases of a valid signature verify"""
    spec = "pecc:Signature.__init__"
    mod, fn = rl.get(ctx, spec)
    ps = param_names(fn)
    out = []
    for st in ast.walk(fn):
        if isinstance(st, ast.Assign) and len(st.targets) == 1 and isinstance(st.targets[0], ast.Attribute) and dotted(st.targets[0].value) == "self" \
                and st.targets[0].attr in ("r", "s"):
            a = st.targets[0].attr
            v = st.value
            if isinstance(v, ast.Name) and v.id in ps:
                out.append(ctx.ok(spec, "self.%s is the argument itself" % a, st, mod, key="as-given:" + a))
            elif isinstance(v, ast.BinOp) and isinstance(v.op, (ast.Mod, ast.BitAnd)):
                out.append(ctx.bad(spec, "`%s` reduces the argument: Signature(r, s + N) becomes a copy of Signature(r, s), so verify's range test [1, n-1] can no longer "
                                         "reject r or s >= n" % ast.unparse(st), st, mod, key="as-given:" + a))
            else:
                out.append(ctx.err(spec, "`%s`: stored value not recognised" % ast.unparse(st), st, mod))
    if len(out) < 2:
        raise AnalysisError("Signature.__init__: stores of self.r / self.s not found")
    return out


def c01_17(ctx):
    """verify rejects only for the reasons the ECDSA verification algorithm has: r or s out of range, u*G + v*P = infinity, x mod n
    != r.  A rejection decided from the two partial products before they are added (equal x coordinates) also rejects the
    doubling case u*G = v*P, which is a valid signature"""
    spec = "pecc:S256Point.verify"
    mod, fn = rl.get(ctx, spec)
    cfg = cfg_of(fn)
    sig = param_names(fn)[2]
    out = []
    for n in cfg.tests():
        t = n.ast
        leads_false = any(cfg.nodes[b].kind == "return" and cfg.nodes[b].ast is not None and isinstance(cfg.nodes[b].ast.value, ast.Constant)
                          and cfg.nodes[b].ast.value.value is False for b, l in cfg.succ[n.id])
        if not leads_false:
            continue
        txt = ast.unparse(t)
        xtxt = ast.unparse(expand(fn, n.id, t, depth=4))
        xe = expand(fn, n.id, t, depth=4)
        operands = ([xe.left] + list(xe.comparators)) if isinstance(xe, ast.Compare) else []
        simple = bool(operands) and all(dotted(o) in ("%s.r" % sig, "%s.s" % sig) or isinstance(o, ast.Constant) or (isinstance(o, ast.Name) and o.id == "N")
                                        or isinstance(Folder(ctx.repo, mod.name).fold(o), int) for o in operands) \
            and any(dotted(o) in ("%s.r" % sig, "%s.s" % sig) for o in operands)
        if simple or _is_r_compare(fn, n.id, t, sig):
            if _is_r_compare(fn, n.id, t, sig):
                out.append(ctx.ok(spec, "rejects on the final comparison `%s`" % txt, t, mod, key="reject:equation"))
            else:
                out.append(ctx.ok(spec, "rejects on the range test `%s`" % txt, t, mod, key="reject:range"))
            continue
        if isinstance(t, ast.Compare) and len(t.ops) == 1 and isinstance(t.ops[0], (ast.Is, ast.Eq, ast.IsNot, ast.NotEq)) and isinstance(t.comparators[0], ast.Constant) \
                and t.comparators[0].value is None:
            ex = expand(fn, n.id, t.left, depth=6)
            if any(isinstance(b, ast.BinOp) and isinstance(b.op, ast.Add) for b in ast.walk(ex)):
                out.append(ctx.ok(spec, "rejects when the sum u*G + v*P is the point at infinity (`%s`)" % txt, t, mod, key="reject:infinity"))
                continue
        if isinstance(t, ast.Compare) and len(t.ops) == 1 and isinstance(t.ops[0], (ast.Eq, ast.NotEq)):
            l, r = expand(fn, n.id, t.left, depth=6), expand(fn, n.id, t.comparators[0], depth=6)
            both_products = all(any(isinstance(b, ast.BinOp) and isinstance(b.op, ast.Mult) for b in ast.walk(e)) and
                                not any(isinstance(b, ast.BinOp) and isinstance(b.op, ast.Add) for b in ast.walk(e)) for e in (l, r))
            if both_products:
                out.append(ctx.bad(spec, "rejects when `%s`: equal x coordinates of u*G and v*P cover not only opposite points (sum = infinity) but also u*G = v*P "
                                         "(doubling), where the tuple can satisfy the ECDSA equation -- e.g. key d, z = r*d, s = 2*r*d/k" % txt, t, mod, key="reject:summands"))
                continue
        out.append(ctx.err(spec, "rejecting test `%s` is not one of: range of r/s, infinity of the sum, final comparison" % txt, t, mod))
    if not out:
        raise AnalysisError("verify: no rejecting test found")
    return out


def c01_14(ctx):
    """MEMO: no verdict / product is remembered under a key that leaves out part of (key, digest, r, s)"""
    from sa.memo import cache_obligation
    return cache_obligation(ctx, ["pecc"], "a tuple accepted for one key would be accepted for another")


def c01_18(ctx):
    """SET-ORDER: no ordered result (list, serialisation, yielded sequence) of the modules this property is anchored in takes its
    order from the iteration order of a set"""
    from sa.setorder import setorder_obligation
    return setorder_obligation(ctx, ["pecc"], "the same inputs give different output from run to run")


def c01_19(ctx):
    """SHARED necessary conditions over the modules this property is anchored in: FALSY-DEFAULT, MUTABLE-DEFAULT, IDENTITY, ALIAS,
    CTOR-FORWARD (sa/shared.py)"""
    from sa.shared import shared_obligations
    return shared_obligations(ctx, ["pecc"], "the result would depend on something other than the arguments and the object's current state")


def c01_20(ctx):
    """PrivateKey.sign and S256Point.verify evaluated whole, with the rule's own secp256k1 as the group (points carry their discrete log, so
    u*G + v*P is arithmetic modulo n and only x coordinates need a real scalar multiplication) and the standard library's HMAC-SHA256 for the
    RFC 6979 generator:  (a) for secrets {1, 2, n-2, n-1, 2^128+1, 2^255-19} × digests {0, 1, n-1, n, n+1, 2^256-1, a mixed value} the signature
    equals the rule's own deterministic RFC 6979 signature with low S, and verifies;  (b) for each such signature the verifier answers true for
    (r, s) and (r, n-s) -- both satisfy the equation -- and false for an altered digest, another key, r+1, s+1, r or s replaced by 0, n, n+r /
    n+s and 2^256-1.  Bounded evaluation on the listed cells (the quantifier's named boundary values)"""
    import hashlib
    import hmac
    from rules.C02 import _ref_mul
    from sa.cells import Evaluator, Obj, Raised, Undecided
    spec_s, spec_v = "pecc:PrivateKey.sign", "pecc:S256Point.verify"
    mod, fn_s = rl.get(ctx, spec_s)
    _, fn_v = rl.get(ctx, spec_v)
    P_ = 2 ** 256 - 2 ** 32 - 977

    def pt(k):
        k %= N
        xy = _ref_mul(k)
        if xy is None:
            return Obj("pecc", "S256Point", {"k": 0, "x": None, "y": None})
        return Obj("pecc", "S256Point", {"k": k, "x": Obj("pecc", "S256Field", {"num": xy[0], "prime": P_}), "y": Obj("pecc", "S256Field", {"num": xy[1], "prime": P_})})

    def rmul(p, c):
        if not isinstance(c, int) or "k" not in p.attrs:
            raise Undecided("scalar multiple outside the model")
        return pt(c * p.attrs["k"])

    def add(a, b):
        if not (isinstance(a, Obj) and isinstance(b, Obj) and "k" in a.attrs and "k" in b.attrs):
            raise Undecided("point addition outside the model")
        return pt(a.attrs["k"] + b.attrs["k"])
    hooks = {("S256Point", "__rmul__"): rmul, ("S256Point", "__add__"): add, ("Point", "__add__"): add,
             ("Signature", "__init__"): lambda o, r=None, s=None, *a, **k: o.attrs.update({"r": r, "s": s})}
    ext = {"G": pt(1)}

    def rfc6979(d, z):
        k, v = b"\x00" * 32, b"\x01" * 32
        zb, db = (z % N if z < 2 * N else z % N).to_bytes(32, "big"), d.to_bytes(32, "big")
        if z >= N:
            zb = (z - N).to_bytes(32, "big")
        k = hmac.new(k, v + b"\x00" + db + zb, hashlib.sha256).digest()
        v = hmac.new(k, v, hashlib.sha256).digest()
        k = hmac.new(k, v + b"\x01" + db + zb, hashlib.sha256).digest()
        v = hmac.new(k, v, hashlib.sha256).digest()
        while True:
            v = hmac.new(k, v, hashlib.sha256).digest()
            c = int.from_bytes(v, "big")
            if 1 <= c < N:
                return c
            k = hmac.new(k, v + b"\x00", hashlib.sha256).digest()
            v = hmac.new(k, v, hashlib.sha256).digest()

    def ref_sign(d, z):
        k = rfc6979(d, z)
        r = _ref_mul(k)[0] % N
        s_ = (z + r * d) * pow(k, -1, N) % N
        return r, min(s_, N - s_)

    def ref_verify(dpub, z, r, s_):
        if not (1 <= r < N and 1 <= s_ < N):
            return False
        si = pow(s_, -1, N)
        R = _ref_mul((z * si + r * si * dpub) % N)
        return R is not None and R[0] % N == r
    secrets = [1, 2, N - 2, N - 1, 2 ** 128 + 1, 2 ** 255 - 19]
    digests = [0, 1, N - 1, N, N + 1, 2 ** 256 - 1, int.from_bytes(hashlib.sha256(b"c01").digest(), "big")]
    quick = getattr(ctx, "tier", "quick") != "thorough"
    if quick:
        pairs = [(secrets[i % len(secrets)], z) for i, z in enumerate(digests)] + [(d, digests[(i + 3) % len(digests)]) for i, d in enumerate(secrets)]
    else:
        pairs = [(d, z) for d in secrets for z in digests]
    out = []
    bad_s = bad_v = None
    n = m = 0
    try:
        for d, z in pairs:
            n += 1
            want = ref_sign(d, z)
            key = Obj("pecc", "PrivateKey", {"secret": d, "point": pt(d), "network": "mainnet", "compressed": True})
            try:
                sig = Evaluator(ctx.repo, method_hooks=hooks, externals=ext, max_steps=1000000).call(spec_s, [z], self_obj=key)
            except Raised as x:
                bad_s = "secret %#x, digest %#x: signing raises %s" % (d, z, x.name)
                break
            got = (sig.attrs.get("r"), sig.attrs.get("s")) if isinstance(sig, Obj) else None
            if got != want:
                what = "has high S" if got and got[0] == want[0] and got[1] == N - want[1] else ("is not the RFC 6979 signature (another nonce was used)" if got and got[0] != want[0] else "does not satisfy s = (z + r·d)/k")
                bad_s = "secret %s, digest %s: the signature %s" % (_fmtn(d), _fmtn(z), what)
                break
            if bad_v is None:
                r, s_ = want
                tuples = [("the signature itself", d, z, r, s_), ("(r, n-s)", d, z, r, N - s_), ("digest+1", d, (z + 1) % 2 ** 256, r, s_), ("another key", (d % (N - 2)) + 1 if (d % (N - 2)) + 1 != d else 3, z, r, s_),
                          ("r+1", d, z, r + 1, s_), ("s+1", d, z, r, s_ + 1), ("r = 0", d, z, 0, s_), ("s = 0", d, z, r, 0), ("r = n", d, z, N, s_), ("s = n", d, z, r, N),
                          ("r+n", d, z, r + N, s_), ("s+n", d, z, r, s_ + N), ("r = 2^256-1", d, z, 2 ** 256 - 1, s_), ("s = 2^256-1", d, z, r, 2 ** 256 - 1)]
                for label, dk, zz, rr, ss in tuples:
                    m += 1
                    sigo = Obj("pecc", "Signature", {"r": rr, "s": ss})
                    try:
                        v = Evaluator(ctx.repo, method_hooks=hooks, externals=ext, max_steps=1000000).call(spec_v, [zz, sigo], self_obj=pt(dk))
                    except Raised as x:
                        bad_v = "secret %s, digest %s, %s: verify raises %s" % (_fmtn(d), _fmtn(z), label, x.name)
                        break
                    expect = ref_verify(dk, zz, rr, ss)
                    if bool(v) != expect or not isinstance(v, bool):
                        bad_v = "secret %s, digest %s, tuple `%s`: verify answers %r, the ECDSA equation with the range rule says %s" % (_fmtn(d), _fmtn(z), label, v, expect)
                        break
    except Undecided as u:
        return [ctx.err(spec_s, "sign / verify not evaluable: %s" % u, fn_s, mod)]
    ctx.count("cells", n + m)
    out.append(ctx.bad(spec_s, bad_s, fn_s, mod, key="ecdsa-cells:sign") if bad_s else
               ctx.ok(spec_s, "%d (secret, digest) cells: the signature is the rule's own RFC 6979 signature with low S" % n, fn_s, mod, key="ecdsa-cells:sign"))
    out.append(ctx.bad(spec_v, bad_v, fn_v, mod, key="ecdsa-cells:verify") if bad_v else
               ctx.ok(spec_v, "%d (key, digest, r, s) tuples: true exactly for the tuples that satisfy the equation with r, s in [1, n-1]" % m, fn_v, mod, key="ecdsa-cells:verify"))
    return out


def _fmtn(v):
    for base, name in ((N, "n"), (2 ** 256, "2^256"), (2 ** 255, "2^255"), (2 ** 128, "2^128")):
        if abs(v - base) <= 32:
            return name if v == base else "%s%+d" % (name, v - base)
    return "%#x" % v if v > 1 << 20 else str(v)



def c01_21(ctx):
    """the group and field arithmetic the verifier computes u*G + v*P with: scalar multiples incl. 0 and n (C03.14), the addition law on small
    curves (C03.16), field operations that return to [0, p-1] (C03.10, C03.20) and identity operands (C03.21) -- rules shared with C03"""
    from rules.C03 import c03_10, c03_14, c03_16, c03_20, c03_21
    out = []
    for f in (c03_14, c03_16, c03_10, c03_20, c03_21):
        out += f(ctx)
    return out



def _nonce_cells(ctx):
    if not hasattr(ctx, "_c01_nonce"):
        ctx._c01_nonce = _nonce_cells_(ctx)
    return ctx._c01_nonce


def _nonce_cells_(ctx):
    """PrivateKey.deterministic_k evaluated with the group order as a FREE TERM: the name N is bound to a stand-in order q (2^250, 2^200, 3 and
    the real n), so that the retry branch of the RFC 6979 generator -- unreachable by choice of input for the real n (probability 2^-128) -- is
    taken dozens of times.  For each q and (secret, digest) below q the result must be the first output v of HMAC-DRBG(secret ‖ digest) with
    1 <= v < q, the generator re-keyed with K = HMAC(K, V ‖ 00), V = HMAC(K, V) after each refused candidate.  In particular the result lies in
    [1, q-1] for every q.  HMAC-SHA256 is the standard library's"""
    import hashlib
    import hmac
    from sa.cells import Evaluator, Obj, Raised, Undecided
    spec = "pecc:PrivateKey.deterministic_k"
    mod, fn = rl.get(ctx, spec)

    def ref(d, z, q):
        k, v = b"\x00" * 32, b"\x01" * 32
        seed = d.to_bytes(32, "big") + z.to_bytes(32, "big")
        k = hmac.new(k, v + b"\x00" + seed, hashlib.sha256).digest()
        v = hmac.new(k, v, hashlib.sha256).digest()
        k = hmac.new(k, v + b"\x01" + seed, hashlib.sha256).digest()
        v = hmac.new(k, v, hashlib.sha256).digest()
        tries = 0
        while True:
            v = hmac.new(k, v, hashlib.sha256).digest()
            tries += 1
            c = int.from_bytes(v, "big")
            if 1 <= c < q:
                return c, tries
            k = hmac.new(k, v + b"\x00", hashlib.sha256).digest()
            v = hmac.new(k, v, hashlib.sha256).digest()
    n = retried = 0
    try:
        for q in (N, 2 ** 250, 2 ** 253, 2 ** 255):
            for d, z in ((1, 0), (2, 1), (3, 2 ** 200 + 5), (2 ** 128 + 1, 12345), (77, 2 ** 249)):
                if d >= q or z >= q:
                    continue
                n += 1
                want, tries = ref(d, z, q)
                retried += tries - 1
                key = Obj("pecc", "PrivateKey", {"secret": d, "network": "mainnet", "compressed": True})
                try:
                    got = Evaluator(ctx.repo, externals={"N": q}, max_steps=3000000).call(spec, [z], self_obj=key)
                except Raised as x:
                    return [ctx.bad(spec, "secret %d, digest %#x, group order %#x: the nonce generator raises %s" % (d, z, q, x.name), fn, mod, key="nonce-cells")]
                if got != want:
                    why = "is outside [1, q-1]" if not (isinstance(got, int) and 1 <= got < q) else "is not the first HMAC-DRBG output below the order (%d candidate(s) are refused first)" % (tries - 1)
                    return [ctx.bad(spec, "secret %d, digest %#x, group order q = %#x: the nonce returned %s" % (d, z, q, why), fn, mod, key="nonce-cells")]
    except Undecided as u:
        return [ctx.err(spec, "nonce generator not evaluable: %s" % u, fn, mod)]
    ctx.count("cells", n)
    if retried < 10:
        raise AnalysisError("nonce cells: the retry branch was taken only %d times" % retried)
    return [ctx.ok(spec, "%d (order, secret, digest) cells, %d refused candidates: the nonce is the first HMAC-DRBG output in [1, q-1] for the real and for stand-in group orders" % (n, retried),
                   fn, mod, key="nonce-cells")]


def _c01_5_deferring(ctx):
    """the returned nonce candidate ⊆ [1, N-1] (interval rule over both back ends); for pecc in another form the nonce cells (C01.22) decide"""
    try:
        out = c01_5(ctx)
    except AnalysisError as e:
        mod, fn = rl.get(ctx, "pecc:PrivateKey.deterministic_k")
        return rl.defer(ctx, [ctx.err("pecc:PrivateKey.deterministic_k", str(e), fn, mod)], lambda: _nonce_cells(ctx) if "cecc" not in str(e) else [None], "decided by the nonce cells (C01.22)")
    rl.defer(ctx, [r for r in out if r.anchor.startswith("pecc:")], lambda: _nonce_cells(ctx), "decided by the nonce cells (C01.22: for the real and for stand-in group orders q the nonce is the "
             "first generator output in [1, q-1]); the returned expression is not in the form the interval rule reads")
    return out


def c01_22(ctx):
    """CELLS nonce retry: the RFC 6979 generator with the group order as a free term"""
    return _nonce_cells(ctx)


OBLIGATIONS = [
    ("C01.22", "CELLS nonce retry (free order)", c01_22),
    ("C01.20", "CELLS sign / verify", c01_20),
    ("C01.21", "CELLS group law (shared C03)", c01_21),
    ("C01.19", "SHARED", c01_19),
    ("C01.18", "SET-ORDER", c01_18),
    ("C01.1", "RANGE accept-set", c01_1),
    ("C01.2", "GUARD relation", c01_2),
    ("C01.3", "RANGE output", c01_3),
    ("C01.4", "RANGE output", c01_4),
    ("C01.5", "RANGE output", _c01_5_deferring),
    ("C01.6", "RANGE accept-set", c01_6),
    ("C01.7", "LAYOUT der", c01_7),
    ("C01.8", "TABLE", c01_8),
    ("C01.9", "DATAFLOW", c01_9),
    ("C01.10", "EXACT", c01_10),
    ("C01.11", "GUARD", c01_11),
    ("C01.12", "RANGE reader domain", c01_12),
    ("C01.13", "GUARD verdict source", c01_13),
    ("C01.14", "MEMO", c01_14),
    ("C01.15", "WIDTH octets", c01_15),
    ("C01.16", "DATAFLOW as given", c01_16),
    ("C01.17", "REJECT-SET", c01_17),
]
FLOORS = {"C01.1": 2, "C01.4": 2, "C01.5": 2, "C01.8": 8, "C01.9": 5, "C01.10": 4}
