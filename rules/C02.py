"""C02 — BIP340 Schnorr (structural clauses)."""
import ast

from sa import rl
from sa.cfg import cfg_of
from sa.dataflow import call_name, calls_in, dotted, expand, origins, rd_of
from sa.fold import Folder, Unknown
from sa.guard import BAD_FALSE, BAD_TRUE
from sa.interval import ISet
from sa.loader import AnalysisError, param_names
from spec.constants import SECP256K1, TAGS

N = SECP256K1["N"]
NAMES = {"N": N}

EXPLANATION = (
    "Static analysis of buidl/pecc.py, cecc.py, phash.py, chash.py: tag strings of every tagged-hash wrapper against BIP340/341 "
    "(both hash back ends), tag-cache key covers the cached value, s < n enforced by the signature constructor, every possibly-true "
    "return of verify_schnorr is cut by the three BIP340 rejections, signer self-verifies, 32-byte guards, nonce and challenge "
    "preimage order agree between signer and verifier, parity normalisation of key and nonce, 64-byte codec field order. "
    "Not decided: hash values, scalar arithmetic, rejection of arbitrary forgeries."
)


def _wrapper_tags(repo, modname):
    m = repo.module(modname)
    out = {}
    for qn, fn in m.functions.items():
        if "." in qn or not qn.startswith("hash_"):
            continue
        rets = [s for s in ast.walk(fn) if isinstance(s, ast.Return)]
        if len(rets) != 1 or not isinstance(rets[0].value, ast.Call) or call_name(rets[0].value) != "tagged_hash" or len(rets[0].value.args) != 2:
            out[qn] = (None, fn)
            continue
        tag = Folder(repo, m.name).fold(rets[0].value.args[0])
        msg_ok = isinstance(rets[0].value.args[1], ast.Name) and rets[0].value.args[1].id == param_names(fn)[0]
        out[qn] = ((tag, msg_ok), fn)
    return m, out


def c02_1(ctx):
    out = []
    maps = {}
    for repo, label in ((ctx.repo, "phash"), (ctx.repo_c, "chash")):
        m, tags = _wrapper_tags(repo, label)
        maps[label] = {k: v[0] for k, v in tags.items()}
        for name, exp in sorted(TAGS.items()):
            ctx.count("table_entries")
            if name not in tags:
                out.append(ctx.err("%s:%s" % (label, name), "tagged-hash wrapper vanished"))
                continue
            got, fn = tags[name]
            if got is None:
                out.append(ctx.err("%s:%s" % (label, name), "wrapper is not `return tagged_hash(<tag>, msg)`", fn, m))
            elif got[0] == exp and got[1]:
                out.append(ctx.ok("%s:%s" % (label, name), "tag %r" % exp, fn, m, key=name))
            elif got[0] != exp:
                out.append(ctx.bad("%s:%s" % (label, name), "tag is %r, specification says %r" % (got[0], exp), fn, m, key="tag:" + name))
            else:
                out.append(ctx.bad("%s:%s" % (label, name), "wrapper does not hash its own message argument", fn, m, key="msg:" + name))
    if maps["phash"] != maps["chash"]:
        diff = sorted(k for k in set(maps["phash"]) | set(maps["chash"]) if maps["phash"].get(k) != maps["chash"].get(k))
        if not any(r.status == "violation" for r in out):
            out.append(ctx.bad("phash/chash", "the two hash back ends disagree on %s" % diff, key="sibling-tags"))
    else:
        out.append(ctx.ok("phash/chash", "both back ends export the same %d name→tag map" % len(maps["phash"]), key="sibling-tags"))
    return out


def c02_2(ctx):
    """tag-midstate cache: the key covers every input of the cached value"""
    mod, fn = rl.get(ctx, "phash:tagged_hash")
    ps = param_names(fn)
    out = []
    stores = []
    for st in ast.walk(fn):
        if isinstance(st, ast.Assign) and isinstance(st.targets[0], ast.Subscript) and dotted(st.targets[0].value) == "TAG_HASH_CACHE":
            stores.append(st)
    if not stores:
        # no cache any more: nothing to get wrong
        return [ctx.ok("phash:tagged_hash", "no tag cache present", fn, mod, key="cache-key")]
    for st in stores:
        keyn = {n.id for n in ast.walk(st.targets[0].slice) if isinstance(n, ast.Name)}
        valn = {n.id for n in ast.walk(st.value) if isinstance(n, ast.Name)} & set(ps)
        if valn <= keyn:
            out.append(ctx.ok("phash:tagged_hash", "cached value depends on %s ⊆ key %s" % (sorted(valn), sorted(keyn)), st, mod, key="cache-key"))
        else:
            out.append(ctx.bad("phash:tagged_hash", "cached value depends on %s which the cache key %s does not cover" % (sorted(valn - keyn), sorted(keyn)), st, mod, key="cache-key"))
    # the final digest consumes both the tag prefix and the message
    for rn in cfg_of(fn).returns():
        r = rn.ast
        if r is None or r.value is None:
            continue
        at = origins(fn, rn.id, r.value)
        names = {n.id for n in ast.walk(r.value) if isinstance(n, ast.Name)} | {a[6:] for a in at if a.startswith("param:")}
        if set(ps) <= names:
            out.append(ctx.ok("phash:tagged_hash", "digest consumes tag midstate and message", r, mod, key="digest-inputs"))
        else:
            out.append(ctx.bad("phash:tagged_hash", "returned digest does not depend on %s" % sorted(set(ps) - names), r, mod, key="digest-inputs"))
    # shape: sha256(T*2 + msg) where T = sha256(tag)
    return out


def c02_3(ctx):
    out = []
    mod, fn = rl.get(ctx, "pecc:SchnorrSignature.__init__")
    s = param_names(fn)[2]
    out += rl.accept_set(ctx, "pecc:SchnorrSignature.__init__", [s], ISet.range(None, N - 1), NAMES, targets="returns", prefer=(N,))
    # cecc: local s = big_endian_to_int(raw[32:])
    mod, fn = rl.get(ctx, "cecc:SchnorrSignature.__init__", ctx.repo_c)
    cand = None
    for st in ast.walk(fn):
        if isinstance(st, ast.Assign) and isinstance(st.targets[0], ast.Name) and isinstance(st.value, ast.Call) and call_name(st.value) == "big_endian_to_int":
            a = st.value.args[0]
            if isinstance(a, ast.Subscript) and isinstance(a.slice, ast.Slice) and a.slice.lower is not None and a.slice.upper is None:
                cand = st.targets[0].id
    if cand is None:
        raise AnalysisError("cecc SchnorrSignature.__init__: s extraction not found")
    out += rl.accept_set(ctx, "cecc:SchnorrSignature.__init__", [cand], ISet.range(None, N - 1), NAMES, targets="returns", prefer=(N,), repo=ctx.repo_c)
    return out


def _sig_param(fn):
    return param_names(fn)[2]


def _is_none_test(t, what):
    """`<what> is None` -> True (bad when true), `<what> is not None` -> False, else None"""
    if isinstance(t, ast.Compare) and len(t.ops) == 1 and isinstance(t.ops[0], (ast.Is, ast.IsNot, ast.Eq, ast.NotEq)) \
            and isinstance(t.comparators[0], ast.Constant) and t.comparators[0].value is None and dotted(t.left) == what:
        return isinstance(t.ops[0], (ast.Is, ast.Eq))
    return None


def _infinity_key(ctx, spec, mod, fn):
    """A public key at infinity (parse_xonly of 32 zero bytes) must never verify: -e·∞ + s·G = s·G makes (x(s·G), s) a
    forgery for every message.  Either verify_schnorr tests `self.x is None` before any possibly-true return, or it reads
    `self.parity` on every such path while S256Point.__init__ leaves `parity` unset for the point at infinity."""
    cfg = cfg_of(fn)
    selfname = param_names(fn)[0]

    def m_inf(node, ex, atoms):
        r = _is_none_test(node.ast, "%s.x" % selfname)
        if r is None:
            return None
        return BAD_TRUE if r else BAD_FALSE

    from sa.guard import check_guard, find_guards
    gs = find_guards(mod, fn, m_inf)
    tn = [n.id for n in rl.nonfalse_returns(fn)]
    if gs:
        ok, msg, wit = check_guard(mod, fn, gs, tn, fail="raise_or_false")
        if ok:
            return [ctx.ok(spec, "a public key at infinity is rejected explicitly (line %d)" % gs[0].node.lineno, gs[0].node.ast, mod, key="key-infinity")]
    # (b) parity is read on every path to a possibly-true return ...
    def reads_parity(node_ast, recv):
        return any(isinstance(a, ast.Attribute) and a.attr == "parity" and dotted(a.value) == recv for a in ast.walk(node_ast))

    def must_read(qual, depth=0):
        """every path through the method `S256Point.<qual>` reads self.parity (directly or through such a method)"""
        f2 = mod.functions.get("S256Point." + qual)
        if f2 is None or depth > 2:
            return False
        c2 = cfg_of(f2)
        me = param_names(f2)[0] if param_names(f2) else "self"
        rd = {n.id for n in c2.nodes if n.ast is not None and (reads_parity(n.ast, me) or calls_reader(n.ast, me, depth + 1))}
        reach2 = c2.reach([c2.entry], blocked=frozenset(rd))
        return not any(n.id in reach2 for n in c2.nodes if n.kind in ("return", "exit", "exit_normal"))

    def calls_reader(node_ast, recv, depth=0):
        for c in ast.walk(node_ast):
            if isinstance(c, ast.Call) and isinstance(c.func, ast.Attribute) and dotted(c.func.value) == recv and must_read(c.func.attr, depth):
                return True
        return False

    readers = {n.id for n in cfg.nodes if n.ast is not None and n.kind in ("test", "stmt", "return")
               and (reads_parity(n.ast, selfname) or calls_reader(n.ast, selfname))}
    reach = cfg.reach([cfg.entry], blocked=frozenset(readers))
    unread = [t for t in tn if t in reach]
    imod, init = rl.get(ctx, "pecc:S256Point.__init__")
    icfg = cfg_of(init)
    x = param_names(init)[1]
    removed = set()
    for t in icfg.tests():
        r = _is_none_test(t.ast, x)
        if r is not None:
            removed.add((t.id, not r))  # keep only the branch on which x is None
    live = icfg.reach([icfg.entry], removed=frozenset(removed))
    sets = [n for n in icfg.nodes if n.id in live and n.kind == "stmt" and isinstance(n.ast, (ast.Assign, ast.AugAssign, ast.AnnAssign))
            and any(isinstance(tg, ast.Attribute) and tg.attr == "parity" for tg in ast.walk(n.ast) if isinstance(getattr(tg, "ctx", None), ast.Store))]
    if not unread and not sets:
        return [ctx.ok(spec, "a public key at infinity cannot verify: `parity` is read on every path and S256Point.__init__ leaves it unset when x is None", fn, mod, key="key-infinity")]
    why = []
    if sets:
        why.append("S256Point.__init__ defines `parity` for the point at infinity (line %d)" % sets[0].lineno)
    if unread:
        why.append("a possibly-true return is reachable without reading `parity`")
    return [ctx.bad(spec, "a public key at infinity is not rejected: there is no `%s.x is None` test before the verdict and %s — with P = ∞ the equation "
                          "degenerates to s·G, so (x(s·G), s) verifies for every message" % (selfname, "; ".join(why)), sets[0].ast if sets else fn, imod if sets else mod,
                    key="key-infinity")]


def c02_4(ctx):
    """verify_schnorr: R at infinity, result at infinity, odd-Y result rejected before any possibly-true return"""
    spec = "pecc:S256Point.verify_schnorr"
    mod, fn = rl.get(ctx, spec)
    sig = _sig_param(fn)
    cfg = cfg_of(fn)

    def is_result(expr, nid):
        """expr denotes the recomputed point: its origins involve sig.s and a multiplication"""
        at = origins(fn, nid, expr)
        return ("attr:%s.s" % sig) in at and "op:Mult" in at

    def m_r_inf(node, ex, atoms):
        t = node.ast
        if isinstance(t, ast.Compare) and len(t.ops) == 1 and isinstance(t.ops[0], (ast.Is, ast.IsNot, ast.Eq, ast.NotEq)) \
                and isinstance(t.comparators[0], ast.Constant) and t.comparators[0].value is None:
            d = dotted(expand(fn, node.id, t.left))
            if d == "%s.r.x" % sig:
                return BAD_TRUE if isinstance(t.ops[0], (ast.Is, ast.Eq)) else BAD_FALSE
        return None

    def m_res_inf(node, ex, atoms):
        t = node.ast
        if isinstance(t, ast.Compare) and len(t.ops) == 1 and isinstance(t.ops[0], (ast.Is, ast.IsNot, ast.Eq, ast.NotEq)) \
                and isinstance(t.comparators[0], ast.Constant) and t.comparators[0].value is None:
            if isinstance(t.left, ast.Attribute) and t.left.attr == "x" and is_result(t.left.value, node.id):
                return BAD_TRUE if isinstance(t.ops[0], (ast.Is, ast.Eq)) else BAD_FALSE
        return None

    def m_parity(node, ex, atoms):
        t = node.ast
        if isinstance(t, ast.Attribute) and t.attr == "parity" and is_result(t.value, node.id):
            return BAD_TRUE
        if isinstance(t, ast.Compare) and len(t.ops) == 1 and isinstance(t.left, ast.Attribute) and t.left.attr == "parity" and is_result(t.left.value, node.id):
            c = Folder(ctx.repo, mod.name).fold(t.comparators[0])
            if c in (0, 1) and isinstance(t.ops[0], (ast.Eq, ast.NotEq)):
                eq = isinstance(t.ops[0], ast.Eq)
                odd_when_true = (c == 1) == eq
                return BAD_TRUE if odd_when_true else BAD_FALSE
        # y.num % 2 forms
        if isinstance(t, ast.Compare) and len(t.ops) == 1 and isinstance(t.left, ast.BinOp) and isinstance(t.left.op, ast.Mod):
            inner = t.left.left
            if "attrname:y" in origins(fn, node.id, inner) and any(is_result(n, node.id) for n in ast.walk(inner) if isinstance(n, ast.Name)):
                c = Folder(ctx.repo, mod.name).fold(t.comparators[0])
                if c in (0, 1) and isinstance(t.ops[0], (ast.Eq, ast.NotEq)):
                    eq = isinstance(t.ops[0], ast.Eq)
                    return BAD_TRUE if ((c == 1) == eq) else BAD_FALSE
        return None

    out = [
        rl.guard(ctx, spec, m_r_inf, targets="nonfalse", fail="raise_or_false", what="R at infinity is rejected", key="r-infinity"),
        rl.guard(ctx, spec, m_res_inf, targets="nonfalse", fail="raise_or_false", what="recomputed point at infinity is rejected", key="result-infinity"),
        rl.guard(ctx, spec, m_parity, targets="nonfalse", fail="raise_or_false", what="recomputed point with odd Y is rejected", key="result-parity"),
    ]
    out += _infinity_key(ctx, spec, mod, fn)
    # final test: every non-false return is the x-only equality of result and sig.r
    for n in rl.nonfalse_returns(fn):
        v = n.ast.value if n.ast is not None else None
        ok = False
        if isinstance(v, ast.Compare) and len(v.ops) == 1 and isinstance(v.ops[0], ast.Eq):
            sides = [v.left, v.comparators[0]]
            kinds = []
            for sd in sides:
                ex = expand(fn, n.id, sd)
                at = origins(fn, n.id, sd)
                if isinstance(sd, ast.Name) and ("call:xonly" in at or "attrname:x" in at):
                    # the x-only value travels through a local: classify by where it comes from
                    if ("attr:%s.s" % sig) in at and "op:Mult" in at:
                        kinds.append("res")
                    elif ("attr:%s.r" % sig) in at:
                        kinds.append("R")
                elif isinstance(sd, ast.Call) and call_name(sd) == "xonly" and isinstance(sd.func, ast.Attribute):
                    obj = sd.func.value
                    if dotted(expand(fn, n.id, obj)) == "%s.r" % sig:
                        kinds.append("R")
                    elif is_result(obj, n.id):
                        kinds.append("res")
                elif isinstance(sd, ast.Attribute) and sd.attr in ("x",):
                    obj = sd.value
                    if dotted(expand(fn, n.id, obj)) == "%s.r" % sig:
                        kinds.append("R")
                    elif is_result(obj, n.id):
                        kinds.append("res")
            ok = sorted(kinds) == ["R", "res"]
        if ok:
            out.append(ctx.ok(spec, "the accepting return is the x-only equality of the recomputed point and R", n.ast, mod, key="final-eq"))
        else:
            out.append(ctx.bad(spec, "a possibly-true return `%s` is not the x-only comparison of the recomputed point with R" % (ast.unparse(v) if v is not None else None),
                               n.ast or fn, mod, key="final-eq"))
    return out


def _call_is_bad_false(name):
    def match(node, ex, atoms):
        t = node.ast
        if isinstance(t, ast.Call) and call_name(t) == name:
            return BAD_FALSE
        return None
    return match


def c02_5(ctx):
    return [rl.guard(ctx, "pecc:PrivateKey.sign_schnorr", _call_is_bad_false("verify_schnorr"), what="self-verification before returning", key="self-verify")]


def _len_guard(param_idx, want=32):
    def mk(fn):
        pname = param_names(fn)[param_idx]

        def match(node, ex, atoms):
            t = node.ast
            if isinstance(t, ast.Compare) and len(t.ops) == 1 and isinstance(t.left, ast.Call) and call_name(t.left) == "len" \
                    and t.left.args and isinstance(t.left.args[0], ast.Name) and t.left.args[0].id == pname \
                    and isinstance(t.comparators[0], ast.Constant) and t.comparators[0].value == want:
                if isinstance(t.ops[0], ast.NotEq):
                    return BAD_TRUE
                if isinstance(t.ops[0], ast.Eq):
                    return BAD_FALSE
            return None
        return match, pname
    return mk


def c02_6(ctx):
    out = []
    for spec, repo in (("pecc:PrivateKey.bip340_k", ctx.repo), ("cecc:PrivateKey.sign_schnorr", ctx.repo_c)):
        mod, fn = rl.get(ctx, spec, repo)
        for idx in (1, 2):
            match, pname = _len_guard(idx)(fn)
            out.append(rl.guard(ctx, spec, match, what="len(%s) == 32 enforced" % pname, key="len-" + ("msg" if idx == 1 else "aux"), repo=repo))
    return out


def flatten_concat(e):
    if isinstance(e, ast.BinOp) and isinstance(e.op, ast.Add):
        return flatten_concat(e.left) + flatten_concat(e.right)
    return [e]


def c02_7(ctx):
    """preimage orders: nonce t||P||m ; challenge R||P||m in signer and verifier"""
    out = []
    # signer challenge
    mod, fn = rl.get(ctx, "pecc:PrivateKey.sign_schnorr")
    msgp = param_names(fn)[1]

    def role_sign(term, nid, fn, msgp):
        if isinstance(term, ast.Name) and term.id == msgp:
            return "m"
        if isinstance(term, ast.Call) and call_name(term) == "xonly" and isinstance(term.func, ast.Attribute):
            obj = term.func.value
            d = dotted(obj)
            if d in ("self.point",):
                return "P"
            at = origins(fn, nid, obj)
            if "name:G" in at and "op:Mult" in at:
                return "R"
        return "?(%s)" % ast.unparse(term)

    def check(spec, mod, fn, hashname, want, rolefn, key):
        sites = rl.find_calls(fn, hashname)
        if not sites:
            raise AnalysisError("%s: no call to %s" % (spec, hashname))
        res = []
        for n, c in sites:
            ex = expand(fn, n.id, c.args[0], depth=1) if isinstance(c.args[0], ast.Name) else c.args[0]
            terms = flatten_concat(ex)
            # a term that travels through a local (`r_xonly = sig.r.xonly()`) is classified by its definition
            ps_ = set(param_names(fn))
            terms = [expand(fn, n.id, t, depth=4) if isinstance(t, ast.Name) and t.id not in ps_ else t for t in terms]
            roles = [rolefn(t, n.id) for t in terms]
            if roles == want:
                res.append(ctx.ok(spec, "%s preimage is %s" % (hashname, " ‖ ".join(roles)), c, mod, key=key))
            elif any(r.startswith("?") for r in roles):
                # the signer's preimages are also decided by evaluation (C02.15: a different term in a preimage changes the signature under
                # the stand-in hashes); the syntactic classification is the fallback, so an unrecognised spelling defers to those cells
                cells = _signer_cells(ctx) if spec.startswith("pecc:PrivateKey.") else None
                if cells is not None and all(f.status == "ok" for f in cells):
                    res.append(ctx.ok(spec, "%s preimage decided by the signer cells (C02.15); spelling not classified syntactically" % hashname, c, mod, key=key))
                elif cells is not None:
                    res.append(ctx.bad(spec, "%s preimage: the signer cells (C02.15) fail" % hashname, c, mod, key=key))
                else:
                    res.append(ctx.err(spec, "%s preimage term not classified: %s" % (hashname, roles), c, mod))
            else:
                res.append(ctx.bad(spec, "%s preimage is %s, BIP340 requires %s" % (hashname, " ‖ ".join(roles), " ‖ ".join(want)), c, mod, key=key))
        return res

    out += check("pecc:PrivateKey.sign_schnorr", mod, fn, "hash_challenge", ["R", "P", "m"], lambda t, nid: role_sign(t, nid, fn, msgp), "challenge-sign")
    # verifier challenge
    modv, fnv = rl.get(ctx, "pecc:S256Point.verify_schnorr")
    msgv, sigv = param_names(fnv)[1], param_names(fnv)[2]
    selfn = param_names(fnv)[0]

    def role_verify(term, nid):
        if isinstance(term, ast.Name) and term.id == msgv:
            return "m"
        if isinstance(term, ast.Call) and call_name(term) == "xonly" and isinstance(term.func, ast.Attribute):
            obj = term.func.value
            if dotted(obj) == "%s.r" % sigv or dotted(expand(fnv, nid, obj, depth=3)) == "%s.r" % sigv:
                return "R"
            at = origins(fnv, nid, obj)
            if "name:" + selfn in at and ("attr:%s.s" % sigv) not in at:
                return "P"
        return "?(%s)" % ast.unparse(term)

    out += check("pecc:S256Point.verify_schnorr", modv, fnv, "hash_challenge", ["R", "P", "m"], role_verify, "challenge-verify")
    # nonce
    modk, fnk = rl.get(ctx, "pecc:PrivateKey.bip340_k")
    msgk, auxk = param_names(fnk)[1], param_names(fnk)[2]

    def role_nonce(term, nid):
        if isinstance(term, ast.Name) and term.id == msgk:
            return "m"
        if isinstance(term, ast.Call) and call_name(term) == "xonly" and dotted(term.func.value) == "self.point":
            return "P"
        ex = expand(fnk, nid, term)
        if isinstance(ex, ast.Call) and call_name(ex) == "xor_bytes" and len(ex.args) == 2:
            a, b = ex.args
            kinds = set()
            for x in (a, b):
                if isinstance(x, ast.Call) and call_name(x) == "int_to_big_endian" and len(x.args) == 2 and Folder(ctx.repo, modk.name).fold(x.args[1]) == 32 \
                        and isinstance(x.args[0], ast.Call) and call_name(x.args[0]) == "even_secret":
                    kinds.add("d")
                if isinstance(x, ast.Call) and call_name(x) == "hash_aux" and x.args and isinstance(x.args[0], ast.Name) and x.args[0].id == auxk:
                    kinds.add("aux")
            if kinds == {"d", "aux"}:
                return "t"
        return "?(%s)" % ast.unparse(term)

    out += check("pecc:PrivateKey.bip340_k", modk, fnk, "hash_nonce", ["t", "P", "m"], role_nonce, "nonce")
    out += _xor_width(ctx)
    return out


def _xor_width(ctx):
    """t = bytes(d) xor H_aux(a) is a 32-byte string: helper.xor_bytes must be length preserving.  Recognised: the
    element-wise forms (zip / index loop) and `int_to_big_endian(x ^ y, W)` with W the length of an operand or a
    constant; a width computed from the xor-ed value (bit_length) drops leading zero bytes and changes the nonce."""
    spec = "helper:xor_bytes"
    mod, fn = rl.get(ctx, spec)
    ps = param_names(fn)
    cfg = cfg_of(fn)
    out = []
    for n in cfg.returns():
        if n.ast is None or n.ast.value is None:
            continue
        v = expand(fn, n.id, n.ast.value)
        verdict = None
        if isinstance(v, ast.Call) and call_name(v) in ("bytes", "bytearray") and v.args and isinstance(v.args[0], (ast.GeneratorExp, ast.ListComp)):
            comp = v.args[0]
            it = comp.generators[0].iter
            elementwise = isinstance(comp.elt, ast.BinOp) and isinstance(comp.elt.op, ast.BitXor) and len(comp.generators) == 1 and not comp.generators[0].ifs
            if elementwise and isinstance(it, ast.Call) and call_name(it) == "zip" and sorted(dotted(a) or "" for a in it.args) == sorted(ps[:2]):
                verdict = (True, "element-wise over zip(%s)" % ", ".join(ps[:2]))
            elif elementwise and isinstance(it, ast.Call) and call_name(it) == "range" and len(it.args) == 1 and ast.unparse(it.args[0]) in ("len(%s)" % ps[0], "len(%s)" % ps[1]):
                verdict = (True, "element-wise over range(%s)" % ast.unparse(it.args[0]))
        elif isinstance(v, ast.Call) and call_name(v) in ("int_to_big_endian", "to_bytes") and len(v.args) >= 2 - (call_name(v) == "to_bytes"):
            w = v.args[1] if call_name(v) == "int_to_big_endian" else v.args[0]
            wt = ast.unparse(w)
            if wt in ("len(%s)" % ps[0], "len(%s)" % ps[1]) or isinstance(Folder(ctx.repo, mod.name).fold(w), int):
                verdict = (True, "integer xor written back with width %s" % wt)
            elif any(isinstance(x, ast.Attribute) and x.attr == "bit_length" for x in ast.walk(w)):
                verdict = (False, "the result width `%s` is computed from the xor-ed value: leading zero bytes are dropped, so t is shorter than 32 bytes "
                                  "whenever the first bytes of the secret and of H_aux(a) coincide and the nonce differs from BIP340" % wt)
        if verdict is None:
            out.append(ctx.err(spec, "xor form not recognised: `%s`" % ast.unparse(v)[:120], n.ast, mod))
        elif verdict[0]:
            out.append(ctx.ok(spec, "length preserving (%s)" % verdict[1], n.ast, mod, key="xor-width"))
        else:
            out.append(ctx.bad(spec, verdict[1], n.ast, mod, key="xor-width"))
    if not out:
        raise AnalysisError("xor_bytes: no return value")
    return out


def c02_8(ctx):
    """parity normalisation of the secret, the nonce and the verification key: the dataflow reading below is primary where the code is in the
    form it reads; what it cannot place is decided by the signer cells (C02.15) and the verifier cells (C02.16)"""
    try:
        out = _c02_8_struct(ctx)
    except AnalysisError as e:
        mod, fn = rl.get(ctx, "pecc:PrivateKey.sign_schnorr")
        out = [ctx.err("pecc:PrivateKey.sign_schnorr", str(e), fn, mod) for _ in range(FLOORS["C02.8"])]
    signer = [r for r in out if "verify_schnorr" not in r.anchor]
    verifier = [r for r in out if "verify_schnorr" in r.anchor]
    rl.defer(ctx, signer, lambda: _signer_cells(ctx) or [None], "decided by the signer cells (C02.15: key format × key parity × nonce parity, signature equals BIP340 Sign); "
             "the normalisation is not in the form the dataflow rule reads")
    rl.defer(ctx, verifier, lambda: _verifier_cells(ctx), "decided by the verifier cells (C02.16: keys of both parities verify the same signatures, BIP340's rejections hold); "
             "the normalisation is not in the form the dataflow rule reads")
    return out


def _c02_8_struct(ctx):
    out = []
    spec = "pecc:PrivateKey.sign_schnorr"
    mod, fn = rl.get(ctx, spec)
    cfg = cfg_of(fn)
    rd = rd_of(fn)
    # (a) the secret multiplied with the challenge in s is even_secret()
    sites = []
    for n in cfg.stmts(("stmt",)):
        a = n.ast
        if isinstance(a, ast.Assign) and isinstance(a.value, ast.BinOp) and isinstance(a.value.op, ast.Mod) and Folder(ctx.repo, mod.name).fold(a.value.right) == N \
                and isinstance(a.value.left, ast.BinOp) and isinstance(a.value.left.op, (ast.Add, ast.Sub)):
            at = origins(fn, n.id, a.value.left)
            if "call:hash_challenge" in at:
                sites.append((n, a))
    if not sites:
        raise AnalysisError("sign_schnorr: `s = (k + e*h) % N` not found")
    for n, a in sites:
        at = origins(fn, n.id, a.value.left)
        if "call:even_secret" in at and "attr:self.secret" not in at:
            out.append(ctx.ok(spec, "s is computed from even_secret() (never the raw secret)", a, mod, key="even-secret"))
        else:
            out.append(ctx.bad(spec, "s is computed from the un-normalised secret: `%s`" % ast.unparse(a), a, mod, key="even-secret"))
    # (b) k is replaced by N - k exactly under the odd-parity edge of R
    flips = []
    for n in cfg.stmts(("stmt",)):
        a = n.ast
        if isinstance(a, ast.Assign) and isinstance(a.targets[0], ast.Name) and isinstance(a.value, ast.BinOp) and isinstance(a.value.op, ast.Sub) \
                and Folder(ctx.repo, mod.name).fold(a.value.left) == N and isinstance(a.value.right, ast.Name) and a.value.right.id == a.targets[0].id:
            flips.append(n)
    if not flips:
        out.append(ctx.bad(spec, "the nonce is never negated for an odd-Y R", fn, mod, key="nonce-flip"))
    for n in flips:
        # the controlling test must be `<R>.parity` true edge
        preds = cfg.pred[n.id]
        good = False
        for p, label in preds:
            pn = cfg.nodes[p]
            if pn.kind == "test" and isinstance(pn.ast, ast.Attribute) and pn.ast.attr == "parity" and label is True:
                at = origins(fn, pn.id, pn.ast.value)
                if "name:G" in at and "op:Mult" in at:
                    good = True
        if good:
            out.append(ctx.ok(spec, "k := N - k exactly on the odd-Y edge of R", n.ast, mod, key="nonce-flip"))
        else:
            out.append(ctx.bad(spec, "k := N - k is not controlled by `R.parity` being odd", n.ast, mod, key="nonce-flip"))
    # (c) R is recomputed after the flip: the R used in the commitment is k*G of the final k -- every `k = N - k` is followed by `r = k * G`
    for n in flips:
        nxt = [b for b, _ in cfg.succ[n.id]]
        okr = False
        for b in nxt:
            a = cfg.nodes[b].ast
            if isinstance(a, ast.Assign) and isinstance(a.value, ast.BinOp) and isinstance(a.value.op, ast.Mult) and isinstance(a.value.right, ast.Name) and a.value.right.id == "G" \
                    and isinstance(a.value.left, ast.Name) and a.value.left.id == n.ast.targets[0].id:
                okr = True
        if okr:
            out.append(ctx.ok(spec, "R is recomputed from the negated nonce", n.ast, mod, key="r-recompute"))
        else:
            out.append(ctx.bad(spec, "after negating the nonce R is not recomputed", n.ast, mod, key="r-recompute"))
    # (d) bip340_k uses even_secret
    modk, fnk = rl.get(ctx, "pecc:PrivateKey.bip340_k")
    for n, c in rl.find_calls(fnk, "int_to_big_endian"):
        at = origins(fnk, n.id, c.args[0])
        if "call:even_secret" in at and "attr:self.secret" not in at:
            out.append(ctx.ok("pecc:PrivateKey.bip340_k", "nonce derivation masks even_secret()", c, modk, key="nonce-secret"))
        else:
            out.append(ctx.bad("pecc:PrivateKey.bip340_k", "nonce derivation uses `%s` instead of the even-Y secret" % ast.unparse(c.args[0]), c, modk, key="nonce-secret"))
    # (e) verifier: the point used is -self on odd parity, self otherwise
    modv, fnv = rl.get(ctx, "pecc:S256Point.verify_schnorr")
    cfgv = cfg_of(fnv)
    selfn = param_names(fnv)[0]
    norm = {}
    for n in cfgv.stmts(("stmt",)):
        a = n.ast
        if isinstance(a, ast.Assign) and isinstance(a.targets[0], ast.Name):
            v = a.value
            neg = isinstance(v, ast.BinOp) and isinstance(v.op, ast.Mult) and Folder(ctx.repo, modv.name).fold(v.left) == -1 and isinstance(v.right, ast.Name) and v.right.id == selfn
            same = isinstance(v, ast.Name) and v.id == selfn
            if neg or same:
                for p, label in cfgv.pred[n.id]:
                    pn = cfgv.nodes[p]
                    if pn.kind == "test" and dotted(pn.ast) == "%s.parity" % selfn:
                        norm[(a.targets[0].id, "neg" if neg else "same")] = label
            elif isinstance(v, ast.Call) and call_name(v) == "even_point" and dotted(v.func.value) == selfn:
                norm[(a.targets[0].id, "neg")] = True
                norm[(a.targets[0].id, "same")] = False
    names = {k[0] for k in norm}
    if len(names) == 1 and norm.get((list(names)[0], "neg")) is True and norm.get((list(names)[0], "same")) is False:
        pname = list(names)[0]
        # the raw self must not be used in challenge / result
        uses_self = []
        for n in cfgv.nodes:
            if n.ast is None or n.kind not in ("stmt", "return"):
                continue
            a = n.ast
            val = a.value if isinstance(a, (ast.Assign, ast.Return)) else None
            if val is None or (isinstance(a, ast.Assign) and isinstance(a.targets[0], ast.Name) and a.targets[0].id == pname):
                continue
            for nm in ast.walk(val):
                if isinstance(nm, ast.Name) and nm.id == selfn:
                    uses_self.append(n)
        if uses_self:
            out.append(ctx.bad("pecc:S256Point.verify_schnorr", "the un-normalised key is used at line %d" % uses_self[0].lineno, uses_self[0].ast, modv, key="key-normalise"))
        else:
            out.append(ctx.ok("pecc:S256Point.verify_schnorr", "verification key normalised to even Y (`%s`) before use" % pname, fnv, modv, key="key-normalise"))
    else:
        out.append(ctx.bad("pecc:S256Point.verify_schnorr", "even-Y normalisation of the verification key not found or inverted: %s" % norm, fnv, modv, key="key-normalise"))
    return out


def _schnorr_codec_cells(ctx):
    """SchnorrSignature.serialize / parse evaluated with the point codec as a stand-in: a signature (R, s) is written as xonly(R) ‖ s as 32
    big-endian bytes (s chosen with leading zero bytes and with all bytes different), and 64 different bytes parse to R = lift(bytes[0:32]),
    s = int(bytes[32:64], big endian).  None when the two functions are outside the evaluator's subset."""
    from sa.cells import ClassRef, Evaluator, FileStandIn, Obj, Raised, Undecided
    out = []
    spec_s, spec_p = "pecc:SchnorrSignature.serialize", "pecc:SchnorrSignature.parse"
    mod, fn = rl.get(ctx, spec_s)
    XO = bytes(range(1, 33))
    hooks = {("S256Point", "xonly"): lambda p: p.attrs["xo"], ("S256Point", "parse"): lambda cls, b, *a, **k: Obj("pecc", "S256Point", {"xo": b, "x": 1}),
             ("S256Point", "parse_xonly"): lambda cls, b, *a, **k: Obj("pecc", "S256Point", {"xo": b, "x": 1}),
             ("SchnorrSignature", "__init__"): lambda o, r=None, s=None, *a, **k: o.attrs.update({"r": r, "s": s})}
    try:
        for s_val in (int.from_bytes(bytes(range(100, 132)), "big"), 0x0102, 1):
            ctx.count("cells")
            me = Obj("pecc", "SchnorrSignature", {"r": Obj("pecc", "S256Point", {"xo": XO, "x": 1}), "s": s_val})
            try:
                r = Evaluator(ctx.repo, method_hooks=hooks).call(spec_s, [], self_obj=me)
            except Raised as x:
                out.append(ctx.bad(spec_s, "serialize raises %s" % x.name, fn, mod, key="ser"))
                break
            if r != XO + s_val.to_bytes(32, "big"):
                out.append(ctx.bad(spec_s, "a signature with s = %#x serialises to %s…, BIP340 is R.x(32) ‖ s(32 BE)" % (s_val, r.hex()[:24] if isinstance(r, bytes) else r), fn, mod, key="ser"))
                break
        else:
            out.append(ctx.ok(spec_s, "R.x(32) ‖ s(32 BE)", fn, mod, key="ser"))
        mod2, fn2 = rl.get(ctx, spec_p)
        data = bytes(range(1, 65))
        ctx.count("cells")
        try:
            r = Evaluator(ctx.repo, method_hooks=hooks, externals={"BytesIO": lambda b: FileStandIn(b)}).call(spec_p, [data], self_obj=ClassRef("pecc", "SchnorrSignature"))
            ok = isinstance(r, Obj) and isinstance(r.attrs.get("r"), Obj) and r.attrs["r"].attrs.get("xo") == data[:32] and r.attrs.get("s") == int.from_bytes(data[32:], "big")
            what = None if ok else "R is lifted from %s, s = %s" % (
                "bytes[0:32]" if isinstance(r, Obj) and isinstance(r.attrs.get("r"), Obj) and r.attrs["r"].attrs.get("xo") == data[:32] else "other bytes",
                "int(bytes[32:64], big endian)" if isinstance(r, Obj) and r.attrs.get("s") == int.from_bytes(data[32:], "big") else "something else")
        except Raised as x:
            ok, what = False, "raises %s" % x.name
        out.append(ctx.ok(spec_p, "first 32 bytes → point R, next 32 bytes big-endian → s", fn2, mod2, key="parse") if ok else
                   ctx.bad(spec_p, "decoder does not map bytes[0:32]→R (x-only lift) and bytes[32:64]→s (big endian): %s" % what, fn2, mod2, key="parse"))
    except Undecided:
        return None
    return out


def c02_9(ctx):
    """64-byte codec: R.x(32) ‖ s(32 BE) on both sides"""
    ev = _schnorr_codec_cells(ctx)
    if ev is not None:
        return ev
    out = []
    mod, fn = rl.get(ctx, "pecc:SchnorrSignature.serialize")
    rets = [n for n in cfg_of(fn).returns() if n.ast is not None and n.ast.value is not None]
    for n in rets:
        terms = flatten_concat(expand(fn, n.id, n.ast.value))
        desc = []
        for t in terms:
            if isinstance(t, ast.Call) and call_name(t) == "xonly" and dotted(t.func.value) == "self.r":
                desc.append("R.x")
            elif isinstance(t, ast.Call) and call_name(t) == "int_to_big_endian" and dotted(t.args[0]) == "self.s" and Folder(ctx.repo, mod.name).fold(t.args[1]) == 32:
                desc.append("s32BE")
            else:
                desc.append("?" + ast.unparse(t))
        if desc == ["R.x", "s32BE"]:
            out.append(ctx.ok("pecc:SchnorrSignature.serialize", "R.x(32) ‖ s(32 BE)", n.ast, mod, key="ser"))
        else:
            out.append(ctx.bad("pecc:SchnorrSignature.serialize", "layout %s, BIP340 is R.x(32) ‖ s(32 BE)" % desc, n.ast, mod, key="ser"))
    mod, fn = rl.get(ctx, "pecc:SchnorrSignature.parse")
    cfg = cfg_of(fn)
    reads = []
    for n, c in rl.find_calls(fn, "read"):
        reads.append((n.lineno, c.col_offset, n, c))
    reads.sort(key=lambda x: (x[0], x[1]))
    widths = [Folder(ctx.repo, mod.name).fold(c.args[0]) for _, _, _, c in reads]
    rets = [n for n in cfg.returns() if n.ast is not None and isinstance(n.ast.value, ast.Call) and len(n.ast.value.args) == 2]
    if widths != [32, 32] or not rets:
        out.append(ctx.bad("pecc:SchnorrSignature.parse", "reads %s, expected two 32-byte reads feeding cls(r, s)" % widths, fn, mod, key="parse"))
        return out
    for n in rets:
        a0 = expand(fn, n.id, n.ast.value.args[0])
        a1 = expand(fn, n.id, n.ast.value.args[1])
        first_is_r = isinstance(a0, ast.Call) and call_name(a0) in ("parse", "parse_xonly") and any(call_name(c) == "read" for c in ast.walk(a0) if isinstance(c, ast.Call))
        second_is_s = isinstance(a1, ast.Call) and call_name(a1) == "big_endian_to_int"
        l0 = rd_of(fn).single_value(n.id, n.ast.value.args[0].id)[1] if isinstance(n.ast.value.args[0], ast.Name) and rd_of(fn).single_value(n.id, n.ast.value.args[0].id) else None
        l1 = rd_of(fn).single_value(n.id, n.ast.value.args[1].id)[1] if isinstance(n.ast.value.args[1], ast.Name) and rd_of(fn).single_value(n.id, n.ast.value.args[1].id) else None
        order_ok = l0 is not None and l1 is not None and cfg.nodes[l0].lineno < cfg.nodes[l1].lineno
        if first_is_r and second_is_s and order_ok:
            out.append(ctx.ok("pecc:SchnorrSignature.parse", "first 32 bytes → point R, next 32 bytes big-endian → s", n.ast, mod, key="parse"))
        else:
            out.append(ctx.bad("pecc:SchnorrSignature.parse", "decoder does not map bytes[0:32]→R (x-only lift) and bytes[32:64]→s (big endian): r=`%s` s=`%s`" % (ast.unparse(a0), ast.unparse(a1)), n.ast, mod, key="parse"))
    return out


def c02_10(ctx):
    """no verification / signing result is remembered under a key that leaves out the message, the key or the signature"""
    from sa.memo import cache_obligation
    return cache_obligation(ctx, ["pecc", "phash"], "a signature accepted once would be accepted for another message / key")


def c02_11(ctx):
    """the key range and the curve arithmetic BIP340 signing / verification rest on: every secret in [1, n-1] is a key, k*P reduces
    k mod n and is total, field operations stay in the field, double-and-add and point addition are the group law
    and a 32-byte string always parses as an x-only key
    (shared with C01.6 / C03.9 / C03.10 / C03.13 / C03.14 / C03.16)"""
    from rules.C01 import c01_6
    from rules.C03 import c03_9, c03_10, c03_13, c03_14, c03_16
    return c01_6(ctx) + c03_13(ctx) + c03_10(ctx) + c03_14(ctx) + c03_16(ctx) + c03_9(ctx)


def c02_12(ctx):
    """SET-ORDER: no ordered result (list, serialisation, yielded sequence) of the modules this property is anchored in takes its
    order from the iteration order of a set"""
    from sa.setorder import setorder_obligation
    return setorder_obligation(ctx, ["pecc", "phash"], "the same inputs give different output from run to run")


def c02_13(ctx):
    """SHARED necessary conditions over the modules this property is anchored in: FALSY-DEFAULT, MUTABLE-DEFAULT, IDENTITY, ALIAS,
    CTOR-FORWARD (sa/shared.py)"""
    from sa.shared import shared_obligations
    return shared_obligations(ctx, ["pecc", "phash"], "the result would depend on something other than the arguments and the object's current state")


def c02_14(ctx):
    """verify_schnorr rejects only for the reasons BIP340 has: R (or the key) is the point at infinity, s*G - e*P is infinity, its y is odd,
    its x differs from r.  Any further `return False` rejects valid signatures -- e.g. "R must differ from the key" refuses the valid signature
    made with nonce k = d"""
    spec = "pecc:S256Point.verify_schnorr"
    mod, fn = rl.get(ctx, spec)
    cfg = cfg_of(fn)
    ps = param_names(fn)
    sig = ps[2]
    out = []
    for n in cfg.tests():
        t = n.ast
        leads_false = any(cfg.nodes[b].kind == "return" and cfg.nodes[b].ast is not None and isinstance(cfg.nodes[b].ast.value, ast.Constant)
                          and cfg.nodes[b].ast.value.value is False for b, l in cfg.succ[n.id])
        if not leads_false:
            continue
        txt = ast.unparse(t)
        is_none = isinstance(t, ast.Compare) and len(t.ops) == 1 and isinstance(t.ops[0], (ast.Is, ast.IsNot, ast.Eq, ast.NotEq)) and isinstance(t.comparators[0], ast.Constant) \
            and t.comparators[0].value is None
        if is_none:
            out.append(ctx.ok(spec, "rejects a point at infinity (`%s`)" % txt, t, mod, key="reject:infinity:" + txt))
            continue
        o = origins(fn, n.id, t)
        if isinstance(t, (ast.Attribute, ast.Name, ast.UnaryOp)) and "attrname:parity" in o:
            out.append(ctx.ok(spec, "rejects on the parity of a point (`%s`)" % txt, t, mod, key="reject:parity:" + txt))
            continue
        if isinstance(t, ast.Compare) and len(t.ops) == 1 and isinstance(t.ops[0], (ast.Eq, ast.NotEq)):
            sides = [ast.unparse(expand(fn, n.id, e, depth=4)) for e in (t.left, t.comparators[0])]
            sig_side = [x for x in sides if x.startswith(sig + ".r")]
            key_side = [x for x in sides if not x.startswith(sig + ".") and ("self" in x or "point" in x) and "+" not in x and "*" not in x]
            if sig_side and key_side:
                out.append(ctx.bad(spec, "rejects when `%s`: R is compared with the public key itself, not with the recomputed point -- the signature made with nonce k = d "
                                         "(R = P, s = d + e*d) is valid under BIP340 and is refused" % txt, t, mod, key="reject:r-vs-key"))
                continue
            if any("+" in x for x in sides):
                out.append(ctx.ok(spec, "rejects on the final comparison `%s`" % txt, t, mod, key="reject:equation"))
                continue
        out.append(ctx.err(spec, "rejecting test `%s` is not one of: infinity, parity, final comparison" % txt, t, mod))
    if not out:
        raise AnalysisError("verify_schnorr: no rejecting test found")
    return out


# ---- C02.15: the signer evaluated over key format × key parity × nonce parity, against BIP340's own algorithm ----------------------------

_P = 2**256 - 2**32 - 977
_GX = 0x79BE667EF9DCBBAC55A06295CE870B07029BFCDB2DCE28D959F2815B16F81798
_GY = 0x483ADA7726A3C4655DA4FBFC0E1108A8FD17B448A68554199C47D08FFB10D4B8


def _ref_padd(a, b):
    if a is None:
        return b
    if b is None:
        return a
    if a[0] == b[0] and (a[1] + b[1]) % _P == 0:
        return None
    lam = (3 * a[0] * a[0] * pow(2 * a[1], -1, _P)) % _P if a == b else ((b[1] - a[1]) * pow(b[0] - a[0], -1, _P)) % _P
    x = (lam * lam - a[0] - b[0]) % _P
    return x, (lam * (a[0] - x) - a[1]) % _P


def _ref_mul(k):
    k %= N
    r, q = None, (_GX, _GY)
    while k:
        if k & 1:
            r = _ref_padd(r, q)
        q = _ref_padd(q, q)
        k >>= 1
    return r


def _signer_cells(ctx):
    if not hasattr(ctx, "_c02_signer"):
        ctx._c02_signer = _signer_cells_(ctx)
    return ctx._c02_signer


def _signer_cells_(ctx):
    """PrivateKey.even_secret / bip340_k / sign_schnorr evaluated by the engine's own evaluator.  The group arithmetic (`k * G`), the point codecs
    (xonly, sec) and the verifier are the rule's reference implementation of secp256k1 (they are C03's and C02.4's subject); the three tagged
    hashes are stand-ins that record which preimage they were given.  What is decided is the signer's own logic -- which secret, which key bytes
    and which nonce enter which hash, for every combination of key format (compressed / uncompressed), key parity and nonce parity -- against
    BIP340's Sign(sk, m, a).  None when outside the evaluator's subset."""
    import hashlib
    from sa.cells import ClassRef, Evaluator, Obj, Raised, Undecided
    spec = "pecc:PrivateKey.sign_schnorr"
    mod, fn = rl.get(ctx, spec)

    def pt(k):
        xy = _ref_mul(k)
        if xy is None:
            return Obj("pecc", "S256Point", {"k": 0, "x": None, "y": None, "parity": None})
        return Obj("pecc", "S256Point", {"k": k % N, "x": Obj("pecc", "S256Field", {"num": xy[0], "prime": _P}), "y": Obj("pecc", "S256Field", {"num": xy[1], "prime": _P}), "parity": xy[1] & 1})

    def xonly(p):
        return p.attrs["x"].attrs["num"].to_bytes(32, "big")

    def sec(p, compressed=True):
        if compressed:
            return bytes([2 + p.attrs["parity"]]) + xonly(p)
        return b"\x04" + xonly(p) + p.attrs["y"].attrs["num"].to_bytes(32, "big")

    def th(tag):
        return lambda m: hashlib.sha256(tag + bytes(m)).digest()

    h_aux, h_nonce, h_ch = th(b"aux"), th(b"nonce"), th(b"challenge")

    def rmul(p, c):
        if not isinstance(c, int) or "k" not in p.attrs:
            raise Undecided("scalar multiple of a point outside the model")
        return pt(c * p.attrs["k"])

    def ref_sign(d0, m, a):
        P0 = _ref_mul(d0)
        d = d0 if P0[1] % 2 == 0 else N - d0
        px = P0[0].to_bytes(32, "big")
        t = bytes(x ^ y for x, y in zip(d.to_bytes(32, "big"), h_aux(a)))
        k0 = int.from_bytes(h_nonce(t + px + m), "big") % N
        R = _ref_mul(k0)
        k = k0 if R[1] % 2 == 0 else N - k0
        e = int.from_bytes(h_ch(R[0].to_bytes(32, "big") + px + m), "big") % N
        return R[0], (k + e * d) % N, R[1] % 2

    def ref_verify(p, m, sig):
        r, s = sig.attrs.get("r"), sig.attrs.get("s")
        if not isinstance(r, Obj) or r.attrs.get("x") is None or not isinstance(s, int) or "k" not in p.attrs:
            return False
        rx = r.attrs["x"].attrs["num"]
        e = int.from_bytes(h_ch(rx.to_bytes(32, "big") + xonly(p) + m), "big") % N
        kk = p.attrs["k"] if p.attrs["parity"] == 0 else N - p.attrs["k"]   # discrete log of lift_x(x(P))
        R = _ref_mul((s - e * kk) % N)
        return R is not None and R[1] % 2 == 0 and R[0] == rx

    def sig_init(o, r=None, s=None, *a, **k):
        o.attrs.update({"r": r, "s": s})

    hooks = {("S256Point", "__rmul__"): rmul, ("S256Point", "xonly"): xonly, ("S256Point", "sec"): sec, ("S256Point", "verify_schnorr"): ref_verify,
             ("SchnorrSignature", "__init__"): sig_init}
    ext = {"G": pt(1), "hash_aux": h_aux, "hash_nonce": h_nonce, "hash_challenge": h_ch}
    # secrets with an even-Y and an odd-Y public key
    secrets = {}
    d0 = 0x0B0B0B0B0B0B0B0B0B0B0B0B0B0B0B0B0B0B0B0B0B0B0B0B0B0B0B0B0B0B0B0B
    while len(secrets) < 2:
        secrets.setdefault(_ref_mul(d0)[1] % 2, d0)
        d0 += 1
    # a short secret whose public key has an x coordinate with a leading zero byte: every 32-byte field of the preimages must keep its width
    dz, pz = 1, (_GX, _GY)
    while pz[0] >> 248 and dz < 4096:
        dz, pz = dz + 1, _ref_padd(pz, (_GX, _GY))
    if pz[0] >> 248:
        raise AnalysisError("signer cells: no key with a zero-led x coordinate below 4096")
    secrets[2] = dz
    seen, out, n = set(), [], 0
    try:
        for par, d0 in sorted(secrets.items()):
            for compressed in (True, False):
                rpar_seen = set()
                i = 0
                while len(rpar_seen) < 4 and i < 24:
                    i += 1
                    m = hashlib.sha256(b"m%d" % i).digest()
                    for aux in (None, hashlib.sha256(b"a%d" % i).digest()):
                        want = ref_sign(d0, m, aux if aux is not None else b"\x00" * 32)
                        if (want[2], aux is None) in rpar_seen:
                            continue
                        rpar_seen.add((want[2], aux is None))
                        ctx.count("cells")
                        n += 1
                        where = "%s key with %s Y, nonce point with %s Y, aux %s" % ("compressed" if compressed else "uncompressed", ("even", "odd", "a zero-led x and %s" % ("odd" if _ref_mul(d0)[1] % 2 else "even"))[par],
                                                                                    "odd" if want[2] else "even", "absent" if aux is None else "given")
                        ev = Evaluator(ctx.repo, method_hooks=hooks, externals=ext, max_steps=400000)
                        try:
                            key = Obj("pecc", "PrivateKey", {})
                            ev.call("pecc:PrivateKey.__init__", [d0, "mainnet", compressed], self_obj=key)
                            got = ev.call(spec, [m] + ([] if aux is None else [aux]), self_obj=key)
                        except Raised as x:
                            out.append(ctx.bad(spec, "%s: the signer raises %s where BIP340 signing succeeds" % (where, x.name), fn, mod, key="signer-cells"))
                            return out
                        ok = isinstance(got, Obj) and isinstance(got.attrs.get("r"), Obj) and got.attrs["r"].attrs.get("x") is not None \
                            and (got.attrs["r"].attrs["x"].attrs["num"], got.attrs.get("s")) == want[:2]
                        if not ok:
                            out.append(ctx.bad(spec, "%s: the signature is not BIP340's Sign(sk, m, a) (a different secret, key bytes or nonce entered a hash)" % where, fn, mod, key="signer-cells"))
                            return out
                        seen.add((compressed, par, want[2], aux is None))
    except Undecided as u:
        return None
    if len({c[:3] for c in seen}) < 8:
        raise AnalysisError("signer cells: only %d of 8 (format, key parity, nonce parity) cells reached" % len({c[:3] for c in seen}))
    out.append(ctx.ok(spec, "%d cells (key format × key parity × nonce parity × aux): signature equals BIP340 Sign(sk, m, a) computed by the rule's own secp256k1" % n, fn, mod, key="signer-cells"))
    return out


def _verifier_cells(ctx):
    if not hasattr(ctx, "_c02_verifier"):
        ctx._c02_verifier = _verifier_cells_(ctx)
    return ctx._c02_verifier


def _verifier_cells_(ctx):
    """S256Point.verify_schnorr evaluated by the engine's own evaluator against BIP340's Verify(pk, m, sig).  Points are the rule's model of
    secp256k1 (discrete logarithm kept next to the coordinates; scalar multiplication, addition, construction from coordinates and the x-only
    encoding are the rule's reference implementation -- C03's subject); the challenge hash is BIP340's tagged hash computed with the standard
    library.  Cells: key of even and of odd Y (the same x-only key: both must verify) × four messages: the BIP340 signature is accepted; a
    changed s, the negated s, a changed message, another key, R at infinity, a result at infinity and a result with odd Y (s built from the
    negated nonce) are refused with False"""
    import hashlib
    from sa.cells import Evaluator, Obj, Raised, Undecided
    spec = "pecc:S256Point.verify_schnorr"
    mod, fn = rl.get(ctx, spec)
    known = {}

    def fld(v):
        return Obj("pecc", "S256Field", {"num": v, "prime": _P})

    def pt(k):
        k %= N
        xy = _ref_mul(k)
        if xy is None:
            return Obj("pecc", "S256Point", {"k": 0, "x": None, "y": None, "parity": None, "a": fld(0), "b": fld(7)})
        known[xy] = k
        return Obj("pecc", "S256Point", {"k": k, "x": fld(xy[0]), "y": fld(xy[1]), "parity": xy[1] & 1, "a": fld(0), "b": fld(7)})

    def num(v):
        return v.attrs["num"] if isinstance(v, Obj) else v

    def init(o, x=None, y=None, a=None, b=None):
        x, y = num(x), num(y)
        if x is None and y is None:
            o.attrs.update(pt(0).attrs)
        elif (x, y) in known:
            o.attrs.update(pt(known[(x, y)]).attrs)
        elif isinstance(x, int) and isinstance(y, int) and (x, (_P - y) % _P) in known:
            o.attrs.update(pt(N - known[(x, (_P - y) % _P)]).attrs)
        else:
            raise Undecided("a point built from coordinates outside the model")

    def xonly(p):
        if p.attrs["x"] is None:
            raise Raised("AttributeError")
        return p.attrs["x"].attrs["num"].to_bytes(32, "big")

    def rmul(p, c):
        if not isinstance(c, int) or "k" not in p.attrs:
            raise Undecided("scalar multiple of a point outside the model")
        return pt(c * p.attrs["k"])

    def add(p, o):
        if isinstance(o, int):
            return pt(p.attrs["k"] + o)
        if isinstance(o, Obj) and "k" in o.attrs and "k" in p.attrs:
            return pt(p.attrs["k"] + o.attrs["k"])
        raise Undecided("sum of points outside the model")

    def eq(p, o):
        return isinstance(o, Obj) and o.attrs.get("k") == p.attrs.get("k")

    tagh = hashlib.sha256(b"BIP0340/challenge").digest()

    def h_ch(m):
        return hashlib.sha256(tagh + tagh + bytes(m)).digest()

    hooks = {("S256Point", "__rmul__"): rmul, ("S256Point", "__add__"): add, ("S256Point", "xonly"): xonly, ("S256Point", "__init__"): init,
             ("S256Point", "__eq__"): eq, ("S256Point", "__ne__"): lambda p, o: not eq(p, o)}
    ext = {"G": pt(1), "hash_challenge": h_ch}
    secrets = {}
    d0 = 0x0C0C0C0C0C0C0C0C0C0C0C0C0C0C0C0C0C0C0C0C0C0C0C0C0C0C0C0C0C0C0C0C
    while len(secrets) < 2:
        secrets.setdefault(_ref_mul(d0)[1] % 2, d0)
        d0 += 1
    n = 0

    def sig(r, s_):
        return Obj("pecc", "SchnorrSignature", {"r": r, "s": s_})
    try:
        for par, d0 in sorted(secrets.items()):
            d = d0 if par == 0 else N - d0            # the secret of the even-Y key
            px = _ref_mul(d0)[0].to_bytes(32, "big")
            for i in range(4):
                m = hashlib.sha256(b"v%d" % i).digest()
                k = int.from_bytes(hashlib.sha256(b"k%d" % i + px).digest(), "big") % N
                if _ref_mul(k)[1] & 1:
                    k = N - k
                rx = _ref_mul(k)[0].to_bytes(32, "big")
                e = int.from_bytes(h_ch(rx + px + m), "big") % N
                s_ = (k + e * d) % N
                m2 = hashlib.sha256(m).digest()
                cases = [("the BIP340 signature", pt(d0), m, sig(pt(k), s_), True),
                         ("the BIP340 signature under the same x-only key given with the other Y", pt(N - d0), m, sig(pt(k), s_), True),
                         ("a signature with s + 1", pt(d0), m, sig(pt(k), (s_ + 1) % N), False),
                         ("a signature with s negated", pt(d0), m, sig(pt(k), N - s_), False),
                         ("the signature of another message", pt(d0), m2, sig(pt(k), s_), False),
                         ("the signature under another key", pt(d0 + 1), m, sig(pt(k), s_), False),
                         ("a signature whose R is the point at infinity", pt(d0), m, sig(pt(0), s_), False),
                         ("a signature for which s·G − e·P is the point at infinity", pt(d0), m, sig(pt(k), (e * d) % N), False),
                         ("a signature built from the negated nonce (s·G − e·P has R's x and an odd Y)", pt(d0), m, sig(pt(k), (N - k + e * d) % N), False)]
                for what, key, msg, sg, want in cases:
                    n += 1
                    where = "key with %s Y, %s" % ("odd" if key.attrs["parity"] else "even", what)
                    try:
                        got = Evaluator(ctx.repo, method_hooks=hooks, externals=ext, max_steps=400000).call(spec, [msg, sg], self_obj=key)
                    except Raised as x:
                        ctx.count("cells", n)
                        return [ctx.bad(spec, "%s: the verifier raises %s where BIP340 verification returns %s" % (where, x.name, want), fn, mod, key="verifier-cells")]
                    if bool(got) is not want or not isinstance(got, bool):
                        ctx.count("cells", n)
                        return [ctx.bad(spec, "%s: the verifier returns %r, BIP340 verification gives %s" % (where, got, want), fn, mod, key="verifier-cells")]
    except Undecided as u:
        return [ctx.err(spec, "verifier outside the evaluator's subset: %s" % u, fn, mod)]
    ctx.count("cells", n)
    return [ctx.ok(spec, "%d cells (key parity × message × valid signature / 7 invalid ones): the verdict equals BIP340 Verify computed by the rule's own secp256k1" % n, fn, mod, key="verifier-cells")]


def c02_16(ctx):
    """CELLS verifier: verify_schnorr against BIP340 Verify over key parity and the rejection reasons"""
    return _verifier_cells(ctx)


def c02_15(ctx):
    """CELLS signer: the whole signing path over key format, key parity and nonce parity"""
    r = _signer_cells(ctx)
    if r is None:
        mod, fn = rl.get(ctx, "pecc:PrivateKey.sign_schnorr")
        return [ctx.err("pecc:PrivateKey.sign_schnorr", "signing path outside the evaluator's subset", fn, mod)]
    return r


OBLIGATIONS = [
    ("C02.14", "REJECT-SET", c02_14),
    ("C02.15", "CELLS signer", c02_15),
    ("C02.16", "CELLS verifier", c02_16),
    ("C02.13", "SHARED", c02_13),
    ("C02.12", "SET-ORDER", c02_12),
    ("C02.10", "MEMO", c02_10),
    ("C02.1", "TABLE+SIBLING", c02_1),
    ("C02.2", "MEMO key", c02_2),
    ("C02.3", "RANGE accept-set", c02_3),
    ("C02.4", "GUARD", c02_4),
    ("C02.5", "GUARD", c02_5),
    ("C02.6", "GUARD", c02_6),
    ("C02.7", "LAYOUT preimage", c02_7),
    ("C02.8", "DATAFLOW parity", c02_8),
    ("C02.9", "LAYOUT codec", c02_9),
    ("C02.11", "RANGE+DATAFLOW scalar discipline", c02_11),
]
FLOORS = {"C02.15": 1, "C02.16": 1, "C02.1": 21, "C02.3": 2, "C02.4": 4, "C02.6": 4, "C02.7": 3, "C02.8": 5, "C02.9": 2}
