"""C03 — group law and key encodings (structural clauses)."""
import ast

from sa import rl
from sa.cfg import cfg_of, reach_ps
from sa.dataflow import call_name, calls_in, dotted, expand, origins, rd_of
from sa.fold import Folder, Unknown
from sa.guard import BAD_FALSE, BAD_TRUE, Guard, check_guard
from sa.interval import ISet
from sa.loader import AnalysisError, param_names
from spec.constants import SECP256K1

N = SECP256K1["N"]

EXPLANATION = (
    "Static analysis of buidl/pecc.py and cecc.py: SEC tag dispatch accept-set, curve-equation check on every construction, "
    "zero-divisor guards of the affine addition and of field division, infinity/opposite case order, scalar reduced mod n before "
    "multiplication, square-root failure raises, parity-to-prefix mapping identical in encoder and decoder, length dispatch of parse. "
    "Not decided: group/field axioms and agreement with an independent implementation on values (numerical)."
)


def _sec_tag_cells(ctx):
    """parse_sec evaluated for every tag byte 0..255 with 33 and with 65 bytes (complete domain of the tag; the decoder looks at the rest only
    through the square root and the constructor, which are stand-ins): only 02 / 03 with 33 bytes and 04 with 65 bytes may decode"""
    from sa.cells import ClassRef, Evaluator, Obj, Raised
    spec = "pecc:S256Point.parse_sec"
    mod, fn = rl.get(ctx, spec)
    P = SECP256K1["P"]
    hooks = {("S256Field", "sqrt"): lambda o, *a, **k: Obj("pecc", "S256Field", {"num": 4, "prime": P}),
             ("S256Point", "__init__"): lambda o, x=None, y=None, **kw: o.attrs.update({"x": x, "y": y})}
    wrong = []
    for tag in range(256):
        for ln in (33, 65):
            ctx.count("cells")
            data = bytes([tag]) + SECP256K1["GX"].to_bytes(32, "big") + (SECP256K1["GY"].to_bytes(32, "big") if ln == 65 else b"")
            try:
                Evaluator(ctx.repo, method_hooks=hooks).call(spec, [data], self_obj=ClassRef("pecc", "S256Point"))
                ok = True
            except Raised:
                ok = False
            want = (tag in (2, 3) and ln == 33) or (tag == 4 and ln == 65)
            if ok != want:
                wrong.append("tag %02x with %d bytes is %s" % (tag, ln, "decoded" if ok else "refused"))
    if wrong:
        return [ctx.bad(spec, "SEC tag dispatch: %s%s; only 02 / 03 (33 bytes) and 04 (65 bytes) are encodings" % ("; ".join(wrong[:3]), " … (%d cells)" % len(wrong) if len(wrong) > 3 else ""),
                        fn, mod, key="accept:tag")]
    return [ctx.ok(spec, "of the 512 (tag, length) cells only 02 / 03 with 33 bytes and 04 with 65 bytes decode", fn, mod, key="accept:tag")]


def c03_1(ctx):
    """parse_sec: accepted tag bytes ⊆ {2,3,4}"""
    from sa.cells import Undecided
    try:
        return _sec_tag_cells(ctx)
    except Undecided:
        pass
    mod, fn = rl.get(ctx, "pecc:S256Point.parse_sec")
    p = param_names(fn)[1]
    key = "%s[0]" % p
    return rl.accept_set(ctx, "pecc:S256Point.parse_sec", [key], ISet.of([2, 3, 4]), targets="returns", prefer=(5, 0, 1),
                         init={key: ISet.range(0, 255)}, what="SEC tag byte " + key)


def _ctor_cells(ctx):
    if not hasattr(ctx, "_c03_ctor"):
        ctx._c03_ctor = _ctor_cells_(ctx)
    return ctx._c03_ctor


def _ctor_cells_(ctx):
    """Point.__init__ is written for any prime field: it is evaluated on EVERY pair (x, y) of F_5, F_7, F_11, F_13 with the curve y^2 = x^3 + 7
    (and on the pair (None, None)): the constructor returns exactly for the pairs on the curve and for infinity, raises for every other pair,
    and keeps the coordinates it was given"""
    from sa.cells import Evaluator, Obj, Raised, Undecided
    spec = "pecc:Point.__init__"
    mod, fn = rl.get(ctx, spec)

    def fe(n, p):
        return Obj("pecc", "FieldElement", {"num": n, "prime": p})
    total = 0
    try:
        for p in (5, 7, 11, 13):
            for x in [None] + list(range(p)):
                for y in ([None] if x is None else list(range(p))):
                    total += 1
                    on = x is None or (y * y - x ** 3 - 7) % p == 0
                    me = Obj("pecc", "Point", {})
                    name = "infinity" if x is None else "(%d, %d)" % (x, y)
                    try:
                        Evaluator(ctx.repo).call(spec, [None if x is None else fe(x, p), None if y is None else fe(y, p), fe(0, p), fe(7 % p, p)], self_obj=me)
                        acc = True
                    except Raised as r_:
                        acc = False
                        exc = r_.name
                    if acc and not on:
                        return [ctx.bad(spec, "over F_%d the pair %s, which is not on y^2 = x^3 + 7, is accepted as a point" % (p, name), fn, mod, key="ctor-cells")]
                    if not acc and on:
                        return [ctx.bad(spec, "over F_%d the point %s of y^2 = x^3 + 7 is refused (%s)" % (p, name, exc), fn, mod, key="ctor-cells")]
                    if acc:
                        gx, gy = me.attrs.get("x"), me.attrs.get("y")
                        got = (None, None) if gx is None and gy is None else (gx.attrs.get("num") if isinstance(gx, Obj) else gx, gy.attrs.get("num") if isinstance(gy, Obj) else gy)
                        if got != (x, y):
                            return [ctx.bad(spec, "over F_%d the point %s is stored with coordinates %s" % (p, name, got), fn, mod, key="ctor-cells")]
    except Undecided as u:
        return [ctx.err(spec, "point constructor not evaluable: %s" % u, fn, mod)]
    ctx.count("cells", total)
    return [ctx.ok(spec, "all %d pairs (x, y) of F_5, F_7, F_11, F_13 and infinity: accepted exactly when on y^2 = x^3 + 7, coordinates kept" % total, fn, mod, key="ctor-cells")]


def c03_23(ctx):
    """CELLS constructor membership: every coordinate pair of four small fields"""
    return _ctor_cells(ctx)


def c03_2(ctx):
    """Point.__init__: every normal exit with coordinates passes the curve equation (GUARD); when the test is not in the constructor's own
    body in the form the rule reads, the constructor cells (C03.23) decide"""
    return rl.defer(ctx, _c03_2_struct(ctx), lambda: _ctor_cells(ctx), "decided by the constructor cells (C03.23: every coordinate pair of F_5, F_7, F_11, F_13 is accepted exactly when "
                    "it is on the curve); the membership test is not in the place this rule looks")


def _c03_2_struct(ctx):
    """Point.__init__: every normal exit with coordinates passes the curve equation"""
    spec = "pecc:Point.__init__"

    def match(node, ex, atoms):
        t = node.ast
        if isinstance(t, ast.Compare) and len(t.ops) == 1 and isinstance(t.ops[0], (ast.Eq, ast.NotEq)):
            txt = ast.unparse(t)
            has_pow = "op:Pow" in atoms
            ys = any(isinstance(n, ast.Attribute) and n.attr == "y" or isinstance(n, ast.Name) and n.id == "y" for n in ast.walk(t))
            xs = any(isinstance(n, ast.Attribute) and n.attr == "x" or isinstance(n, ast.Name) and n.id == "x" for n in ast.walk(t))
            bs = any(isinstance(n, ast.Attribute) and n.attr == "b" or isinstance(n, ast.Name) and n.id == "b" for n in ast.walk(t))
            if has_pow and ys and xs and bs:
                return BAD_TRUE if isinstance(t.ops[0], ast.NotEq) else BAD_FALSE
        return None

    def exempt(mod, fn):
        # paths on which the point is the point at infinity (x is None) are not constrained
        out = []
        for n in cfg_of(fn).tests():
            t = n.ast
            if isinstance(t, ast.Compare) and len(t.ops) == 1 and isinstance(t.ops[0], ast.Is) and isinstance(t.comparators[0], ast.Constant) \
                    and t.comparators[0].value is None and (dotted(t.left) or "").split(".")[-1] in ("x", "y"):
                out.append((n.id, True))
        return out
    mod, fn = rl.get(ctx, spec)
    # exempt only when BOTH coordinates are None: with `a and b` decomposition the True edge of the last is-None test
    cfg = cfg_of(fn)
    ex = exempt(mod, fn)
    nones = [e for e in ex]
    if len(nones) >= 2:
        # only the edge that leaves the conjunction (the last test's True edge) is exempt
        ex = [max(nones)]
    return [rl.guard(ctx, spec, match, what="curve equation y^2 = x^3 + ax + b enforced", key="on-curve", exempt=lambda m, f: ex)]


def _zero_test(fn, node, coord_attr="y"):
    """Is this atomic test a comparison of a `coord` coordinate with zero?  Returns BAD_TRUE/BAD_FALSE (bad = is zero) or None."""
    t = node.ast
    if isinstance(t, ast.Compare) and len(t.ops) == 1 and isinstance(t.ops[0], (ast.Eq, ast.NotEq)):
        l, r = t.left, t.comparators[0]
        for a, b in ((l, r), (r, l)):
            da = dotted(a) or ""
            parts = da.split(".")
            is_coord = coord_attr in parts[1:] if len(parts) > 1 else False
            zero = (isinstance(b, ast.Constant) and b.value == 0) or \
                   (isinstance(b, ast.BinOp) and isinstance(b.op, ast.Mult) and any(isinstance(x, ast.Constant) and x.value == 0 for x in (b.left, b.right)))
            if is_coord and zero:
                return BAD_TRUE if isinstance(t.ops[0], ast.Eq) else BAD_FALSE
    if isinstance(t, ast.Attribute):
        parts = (dotted(t) or "").split(".")
        if coord_attr in parts[1:] and parts[-1] == "num":
            return BAD_FALSE  # `if self.y.num:` truthy means non-zero; bad when false
    return None


def c03_3(ctx):
    """Point.__add__: every field division is protected against a zero divisor"""
    spec = "pecc:Point.__add__"
    mod, fn = rl.get(ctx, spec)
    cfg = cfg_of(fn)
    out = []
    divs = []
    for n in cfg.stmts(("stmt", "return")):
        for b in ast.walk(n.ast):
            if isinstance(b, ast.BinOp) and isinstance(b.op, ast.Div):
                divs.append((n, b))
    if len(divs) < 2:
        raise AnalysisError("Point.__add__: expected chord and tangent slope divisions, found %d" % len(divs))
    for n, b in divs:
        den = b.right
        dtxt = ast.unparse(den)
        if isinstance(den, ast.BinOp) and isinstance(den.op, ast.Sub):
            # chord: other.x - self.x  => needs x1 != x2 on every path
            l, r = ast.unparse(den.left), ast.unparse(den.right)

            def match(node, ex, atoms, l=l, r=r):
                t = node.ast
                if isinstance(t, ast.Compare) and len(t.ops) == 1 and isinstance(t.ops[0], (ast.Eq, ast.NotEq)):
                    a, c = ast.unparse(t.left), ast.unparse(t.comparators[0])
                    if {a, c} == {l, r}:
                        return BAD_TRUE if isinstance(t.ops[0], ast.Eq) else BAD_FALSE
                return None
            from sa.guard import find_guards
            gs = find_guards(mod, fn, match)
            ok, msg, wit = check_guard(mod, fn, gs, [n.id])
            if ok:
                out.append(ctx.ok(spec, "chord slope divisor `%s` is non-zero on every path (x1 != x2 dominates)" % dtxt, b, mod, key="chord"))
            else:
                out.append(ctx.bad(spec, "chord slope divides by `%s` on a path where x1 = x2 is possible: %s" % (dtxt, wit), b, mod, key="chord"))
        else:
            # tangent: 2*y  => a test y == 0 must exist on the way and its zero edge must not reach the division
            coord = "y"
            gs = []
            for t in cfg.tests():
                v = _zero_test(fn, t, coord)
                if v:
                    gs.append(Guard(t, v))
            gs = [g for g in gs if n.id in cfg.reach([g.node.id])]
            if not gs:
                out.append(ctx.bad(spec, "tangent slope divides by `%s` and no test of y = 0 precedes it: doubling a point of order two "
                                   "(y = 0) must yield infinity, e.g. (18,0)+(18,0) on y^2 = x^3+7 over F_19" % dtxt, b, mod, key="tangent-y0"))
                continue
            bad_reaches = False
            for g in gs:
                r, p = reach_ps(cfg, [g.node.id], removed={(g.node.id, g.pass_label)}, targets=[n.id])
                if p:
                    bad_reaches = True
            if bad_reaches:
                out.append(ctx.bad(spec, "the y = 0 edge of the test at line %d still reaches the tangent division" % gs[0].node.lineno, b, mod, key="tangent-y0"))
            else:
                out.append(ctx.ok(spec, "tangent slope divisor `%s`: the y = 0 case is diverted at line %d" % (dtxt, gs[0].node.lineno), b, mod, key="tangent-y0"))
    return out


def c03_4(ctx):
    """FieldElement.__truediv__: zero divisor raises"""
    spec = "pecc:FieldElement.__truediv__"
    mod, fn = rl.get(ctx, spec)
    other = param_names(fn)[1]

    def match(node, ex, atoms):
        t = node.ast
        if isinstance(t, ast.Compare) and len(t.ops) == 1 and isinstance(t.ops[0], (ast.Eq, ast.NotEq)):
            l, r = t.left, t.comparators[0]
            for a, b in ((l, r), (r, l)):
                if dotted(a) == "%s.num" % other and isinstance(b, ast.Constant) and b.value == 0:
                    return BAD_TRUE if isinstance(t.ops[0], ast.Eq) else BAD_FALSE
        if isinstance(t, ast.Attribute) and dotted(t) == "%s.num" % other:
            return BAD_FALSE
        return None
    r = rl.guard(ctx, spec, match, what="division by the zero element raises", key="div-zero")
    if r.status == "violation":
        r.msg = "FieldElement division by zero returns 0 silently (x / 0 = x * 0^(p-2) = 0): " + r.msg
    return [r]


def c03_5(ctx):
    """Point.__add__: infinity operands handled before any coordinate arithmetic"""
    spec = "pecc:Point.__add__"
    mod, fn = rl.get(ctx, spec)
    cfg = cfg_of(fn)
    ps = param_names(fn)
    selfn, other = ps[0], ps[1]
    arith = []
    for n in cfg.stmts(("stmt", "return")):
        for b in ast.walk(n.ast):
            if isinstance(b, ast.BinOp) and any(isinstance(a, ast.Attribute) and a.attr in ("x", "y") and isinstance(a.value, ast.Name) and a.value.id in (selfn, other)
                                                for a in ast.walk(b)):
                arith.append(n.id)
                break
    if not arith:
        raise AnalysisError("no coordinate arithmetic found in Point.__add__")
    out = []
    for who in (selfn, other):
        def match(node, ex, atoms, who=who):
            t = node.ast
            if isinstance(t, ast.Compare) and len(t.ops) == 1 and isinstance(t.ops[0], (ast.Is, ast.IsNot)) and dotted(t.left) in ("%s.x" % who, "%s.y" % who) \
                    and isinstance(t.comparators[0], ast.Constant) and t.comparators[0].value is None:
                return BAD_TRUE if isinstance(t.ops[0], ast.Is) else BAD_FALSE
            return None
        out.append(rl.guard(ctx, spec, match, targets=lambda m, f: [cfg.nodes[i] for i in arith], what="`%s` at infinity is handled before coordinate arithmetic" % who, key="inf-" + ("self" if who == selfn else "other")))
    # opposite points: x equal and y different must return infinity, never reach a slope
    def m_opp(node, ex, atoms):
        t = node.ast
        if isinstance(t, ast.Compare) and len(t.ops) == 1 and isinstance(t.ops[0], (ast.Eq, ast.NotEq)):
            s = {ast.unparse(t.left), ast.unparse(t.comparators[0])}
            if s == {"%s.y" % selfn, "%s.y" % other}:
                return BAD_TRUE if isinstance(t.ops[0], ast.NotEq) else BAD_FALSE
        return None
    tangent = []
    for n in cfg.stmts(("stmt", "return")):
        for b in ast.walk(n.ast):
            if isinstance(b, ast.BinOp) and isinstance(b.op, ast.Div) and not (isinstance(b.right, ast.BinOp) and isinstance(b.right.op, ast.Sub)):
                tangent.append(n.id)
    if tangent:
        out.append(rl.guard(ctx, spec, m_opp, targets=lambda m, f: [cfg.nodes[i] for i in tangent], what="opposite points (x equal, y different) never reach the tangent formula", key="opposite"))
    return out


def c03_6(ctx):
    """scalar reduced mod N before multiplication (pecc and cecc)"""
    out = []
    mod, fn = rl.get(ctx, "pecc:S256Point.__rmul__")
    coefp = param_names(fn)[1]
    sites = rl.find_calls(fn, "__rmul__")
    if not sites:
        raise AnalysisError("pecc S256Point.__rmul__ does not delegate to Point.__rmul__")
    f = Folder(ctx.repo, mod.name)
    for n, c in sites:
        ex = expand(fn, n.id, c.args[0]) if c.args else None
        if isinstance(ex, ast.BinOp) and isinstance(ex.op, ast.Mod) and f.fold(ex.right) == N and coefp in {x.id for x in ast.walk(ex.left) if isinstance(x, ast.Name)}:
            out.append(ctx.ok("pecc:S256Point.__rmul__", "coefficient reaching double-and-add is `%s`" % ast.unparse(ex), c, mod, key="mod-n"))
        else:
            out.append(ctx.bad("pecc:S256Point.__rmul__", "coefficient `%s` is not reduced mod N: negative scalars never terminate `while coef`, n·P ≠ ∞" % (ast.unparse(ex) if ex else None), c, mod, key="mod-n"))
    for spec in ("cecc:S256Point.__rmul__", "cecc:S256Point.__add__"):
        mod, fn = rl.get(ctx, spec, ctx.repo_c)
        f = Folder(ctx.repo_c, mod.name)
        sites = rl.find_calls(fn, "int_to_big_endian")
        if not sites:
            raise AnalysisError("%s: scalar encoding site not found" % spec)
        for n, c in sites:
            ex = expand(fn, n.id, c.args[0])
            if isinstance(ex, ast.BinOp) and isinstance(ex.op, ast.Mod) and f.fold(ex.right) == N:
                out.append(ctx.ok(spec, "scalar passed to libsecp is `%s`" % ast.unparse(ex), c, mod, key="mod-n"))
            else:
                out.append(ctx.bad(spec, "scalar `%s` is not reduced mod N before 32-byte encoding" % ast.unparse(ex), c, mod, key="mod-n"))
    return out


def _sqrt_cells(ctx):
    """S256Field.sqrt evaluated on quadratic residues and non-residues modulo P (decided by Euler's criterion in the rule): for a residue the
    result is a field element r with r*r = x, namely x^((P+1)/4) -- the root the lift functions then choose the parity of; for a non-residue
    it raises ValueError.  Bounded evaluation: 0, 1, small values, P-1, P-2, squares of large values and their non-residue neighbours.
    None when outside the evaluator's subset."""
    from sa.cells import Evaluator, Obj, Raised, Undecided
    spec = "pecc:S256Field.sqrt"
    mod, fn = rl.get(ctx, spec)
    P_ = SECP256K1["P"]
    xs = [0, 1, 2, 3, 4, 5, 6, 7, 8, 9, P_ - 1, P_ - 2, P_ - 3, (1 << 255) % P_, pow(0x1234567890ABCDEF, 2, P_), pow(P_ - 12345, 2, P_)]
    xs += [(x + 1) % P_ for x in xs[-2:]] + [0x79BE667EF9DCBBAC55A06295CE870B07029BFCDB2DCE28D959F2815B16F81798]
    seen = set()
    try:
        for x in xs:
            ctx.count("cells")
            residue = x == 0 or pow(x, (P_ - 1) // 2, P_) == 1
            seen.add(residue)
            me = Obj("pecc", "S256Field", {"num": x, "prime": P_})
            try:
                r = Evaluator(ctx.repo, max_steps=2000000).call(spec, [], self_obj=me)
            except Raised as e:
                if residue:
                    return [ctx.bad(spec, "x = %#x is a square modulo P and sqrt() raises %s" % (x, e.name), fn, mod, key="sqrt-check")]
                if e.name != "ValueError":
                    return [ctx.bad(spec, "x = %#x has no square root and sqrt() raises %s instead of ValueError" % (x, e.name), fn, mod, key="sqrt-check")]
                continue
            if not residue:
                return [ctx.bad(spec, "x = %#x is not a square modulo P and sqrt() returns a value instead of raising: a point is lifted from an x that is not on the curve" % x,
                                fn, mod, key="sqrt-check")]
            num = r.attrs.get("num") if isinstance(r, Obj) else None
            if not isinstance(num, int) or num * num % P_ != x:
                return [ctx.bad(spec, "sqrt(%#x) returns %s, whose square is not x" % (x, ("%#x" % num) if isinstance(num, int) else r), fn, mod, key="sqrt-check")]
            if num != pow(x, (P_ + 1) // 4, P_):
                return [ctx.bad(spec, "sqrt(%#x) is not x^((P+1)/4) (the other root): the parity choice of the lift functions is relative to that root" % x, fn, mod, key="sqrt-exp")]
            if not (isinstance(r, Obj) and (r.mod, r.cls) in [(m_, c_) for m_, c_ in ctx.repo.mro(r.mod, r.cls)] and r.cls in ("S256Field", "FieldElement")):
                raise Undecided("class of the root")
    except Undecided:
        return None
    if seen != {True, False}:
        raise AnalysisError("sqrt cells: residues and non-residues not both present")
    return [ctx.ok(spec, "non-residues raise ValueError, residues give a root (%d values evaluated)" % len(xs), fn, mod, key="sqrt-check"),
            ctx.ok(spec, "the root is x^((P+1)/4)", fn, mod, key="sqrt-exp")]


def c03_7(ctx):
    """square-root failure raises; points lifted from x use sqrt()"""
    out = []

    def match(node, ex, atoms):
        t = node.ast
        if isinstance(t, ast.Compare) and len(t.ops) == 1 and isinstance(t.ops[0], (ast.Eq, ast.NotEq)):
            l, r = t.left, t.comparators[0]
            for a, b in ((l, r), (r, l)):
                if isinstance(a, ast.BinOp) and isinstance(a.op, (ast.Mult, ast.Pow)) and isinstance(b, ast.Name) and b.id == "self":
                    sq = (isinstance(a.op, ast.Mult) and ast.unparse(a.left) == ast.unparse(a.right)) or (isinstance(a.op, ast.Pow) and isinstance(a.right, ast.Constant) and a.right.value == 2)
                    if sq:
                        return BAD_TRUE if isinstance(t.ops[0], ast.NotEq) else BAD_FALSE
        return None
    cells = _sqrt_cells(ctx)
    if cells is not None:
        out += cells
    else:
        out.append(rl.guard(ctx, "pecc:S256Field.sqrt", match, what="s*s != self raises (no square root)", key="sqrt-check"))
        # exponent (P+1)//4
        mod, fn = rl.get(ctx, "pecc:S256Field.sqrt")
        f = Folder(ctx.repo, mod.name)
        exps = [f.fold(b.right) for b in ast.walk(fn) if isinstance(b, ast.BinOp) and isinstance(b.op, ast.Pow)]
        if (SECP256K1["P"] + 1) // 4 in exps:
            out.append(ctx.ok("pecc:S256Field.sqrt", "candidate root is self ** ((P+1)//4)", fn, mod, key="sqrt-exp"))
        else:
            out.append(ctx.bad("pecc:S256Field.sqrt", "square-root exponent is not (P+1)//4: %s" % [hex(e) if isinstance(e, int) else e for e in exps], fn, mod, key="sqrt-exp"))
    for spec in ("pecc:S256Point.parse_sec", "pecc:S256Point.parse_xonly"):
        mod, fn = rl.get(ctx, spec)
        cfg = cfg_of(fn)
        for n in cfg.returns():
            v = n.ast.value if n.ast is not None else None
            if isinstance(v, ast.Call) and isinstance(v.func, ast.Name) and v.func.id == param_names(fn)[0]:
                args = list(v.args) + [k.value for k in v.keywords]
                if len(args) != 2:
                    continue
                if all(isinstance(a, ast.Constant) and a.value is None for a in args):
                    continue
                ya = origins(fn, n.id, args[1])
                xa = origins(fn, n.id, args[0])
                if "call:sqrt" in ya:
                    out.append(ctx.ok(spec, "y of the lifted point derives from sqrt() (which raises on non-residues)", v, mod, key="lift:%d" % len(out)))
                elif any(a.startswith("slice:") for a in ya) and any(a.startswith("slice:") for a in xa):
                    out.append(ctx.ok(spec, "uncompressed form: both coordinates are read and validated by the constructor", v, mod, key="lift:%d" % len(out)))
                else:
                    out.append(ctx.bad(spec, "point built from x with a y that does not come from sqrt(): `%s`" % ast.unparse(v), v, mod, key="lift"))
    return out


def _sec_variant(fn, cfg, n, terms, prefix, start_node, mapping, ctx, mod):
    """one (prefix constant, controlling parity edge, coordinates) row of the sec() mapping"""
    par = None
    seen = set()
    work = [start_node]
    while work:
        x = work.pop()
        for p, label in cfg.pred[x]:
            pn = cfg.nodes[p]
            if pn.kind == "test" and dotted(pn.ast) == "self.parity":
                par = label
            elif p not in seen and pn.kind in ("stmt", "join"):
                seen.add(p)
                work.append(p)
    coords = []
    for t in terms[1:]:
        ex = expand(fn, n.id, t)
        if isinstance(ex, ast.Call) and call_name(ex) == "int_to_big_endian" and Folder(ctx.repo, mod.name).fold(ex.args[1]) == 32:
            d = dotted(ex.args[0]) or ""
            coords.append(d.replace("self.", ""))
        else:
            coords.append("?" + ast.unparse(ex))
    mapping[prefix] = (par, coords)


def _lift_cells(ctx, spec):
    """parse_sec / parse_xonly evaluated with `sqrt()` standing for a formal root: the code looks at the root only through its parity
    and at the tag only through comparisons with 2, 3, 4, so one representative per (tag, parity of the root) decides every input.
    Returns (problems, facts) or raises Undecided."""
    from sa.cells import ClassRef, Evaluator, Obj, Raised, Undecided
    P = SECP256K1["P"]
    X0, Y0 = SECP256K1["GX"], SECP256K1["GY"]
    roots = (4, 5, P - 1, P - 2)

    def num(v):
        if isinstance(v, Obj) and "num" in v.attrs:
            return v.attrs["num"]
        if isinstance(v, int) and not isinstance(v, bool):
            return v
        raise Undecided("coordinate %r" % (v,))

    def init(o, x=None, y=None, **kw):
        o.attrs.update({"x": x, "y": y})
    problems, facts = [], []
    xonly = spec.endswith("parse_xonly")
    cases = [(None, b) for b in roots] if xonly else [(t, b) for t in (2, 3) for b in roots] + [(4, None)]
    for tag, beta in cases:
        ctx.count("cells")

        def sqrt(o, *a, **k):
            return Obj("pecc", "S256Field", {"num": beta, "prime": P})
        data = X0.to_bytes(32, "big") if xonly else bytes([tag]) + X0.to_bytes(32, "big") + (Y0.to_bytes(32, "big") if tag == 4 else b"")
        ev = Evaluator(ctx.repo, method_hooks={("S256Field", "sqrt"): sqrt, ("S256Point", "__init__"): init})
        try:
            r = ev.call(spec, [data], self_obj=ClassRef("pecc", "S256Point"))
        except Raised as x:
            problems.append("%s raises %s" % ("x-only key" if xonly else "tag %02x" % tag, x.name))
            continue
        if not isinstance(r, Obj) or "y" not in r.attrs:
            raise Undecided("result %r" % (r,))
        gx, gy = num(r.attrs["x"]), num(r.attrs["y"])
        if tag == 4:
            if (gx, gy) != (X0, Y0):
                problems.append("uncompressed key decoded as x=bytes→%s, y=bytes→%s instead of x = bytes[1:33], y = bytes[33:65]" % (
                    "x" if gx == X0 else ("y" if gx == Y0 else "?"), "y" if gy == Y0 else ("x" if gy == X0 else "?")))
            else:
                facts.append("04: x = bytes[1:33], y = bytes[33:65]")
            continue
        want_odd = (tag == 3)
        want = beta if (beta % 2 == 1) == want_odd else P - beta
        who = "x-only lift" if xonly else "tag %02x" % tag
        if gx != X0:
            problems.append("%s: x coordinate is not the encoded one" % who)
        elif gy == want:
            facts.append("%s, %s root → %s y" % (who, "odd" if beta % 2 else "even", "odd" if want_odd else "even"))
        elif gy == P - want:
            problems.append("%s with an %s square root returns the %s root (%s)" % (who, "odd" if beta % 2 else "even", "even" if want_odd else "odd",
                                                                                   "BIP340 lift_x requires even Y" if xonly else "tag says %s" % ("odd" if want_odd else "even")))
        else:
            problems.append("%s: y is neither the root nor its negation" % who)
    if not xonly:
        # x = 0 is not the x coordinate of any curve point (7 is not a square): a compressed encoding of it must not decode to infinity
        for tag in (2, 3):
            ctx.count("cells")
            ev = Evaluator(ctx.repo, method_hooks={("S256Field", "sqrt"): lambda o, *a, **k: Obj("pecc", "S256Field", {"num": 4, "prime": P}), ("S256Point", "__init__"): init})
            try:
                r = ev.call(spec, [bytes([tag]) + bytes(32)], self_obj=ClassRef("pecc", "S256Point"))
            except Raised:
                continue
            if isinstance(r, Obj) and r.attrs.get("x") is None:
                problems.append("tag %02x followed by 32 zero bytes decodes to the point at infinity: x = 0 is on no curve point, the encoding has to be refused" % tag)
    return sorted(set(problems)), sorted(set(facts))


def _sec_cells(ctx):
    """S256Point.sec evaluated for y even / odd x compressed / uncompressed: 02 ‖ x for even y, 03 ‖ x for odd y, 04 ‖ x ‖ y, coordinates as
    32-byte big-endian strings (x and y chosen with leading zero bytes and with all bytes different, so that width and byte order show)"""
    from sa.cells import Evaluator, Obj, Raised, Undecided
    spec = "pecc:S256Point.sec"
    mod, fn = rl.get(ctx, spec)
    P = SECP256K1["P"]
    xs = [int.from_bytes(bytes(range(1, 33)), "big"), 0x0102]
    for X in xs:
        for Y in (int.from_bytes(bytes(range(101, 133)), "big") & ~1, (int.from_bytes(bytes(range(101, 133)), "big") | 1), 0x0304, 0x0305):
            for compressed in (True, False):
                ctx.count("cells")
                me = Obj("pecc", "S256Point", {"x": Obj("pecc", "S256Field", {"num": X, "prime": P}), "y": Obj("pecc", "S256Field", {"num": Y, "prime": P}), "parity": Y % 2})
                try:
                    r = Evaluator(ctx.repo).call(spec, [], kwargs={"compressed": compressed}, self_obj=me)
                except Raised as x_:
                    return ctx.bad(spec, "sec(compressed=%s) raises %s" % (compressed, x_.name), fn, mod, key="sec-map")
                want = (bytes([2 + Y % 2]) + X.to_bytes(32, "big")) if compressed else (b"\x04" + X.to_bytes(32, "big") + Y.to_bytes(32, "big"))
                if r != want:
                    return ctx.bad(spec, "sec(compressed=%s) of a point with %s y is %s…, SEC 1 says %s… (02 ‖ x for even Y, 03 ‖ x for odd Y, 04 ‖ x ‖ y; 32-byte big-endian "
                                         "coordinates)" % (compressed, "odd" if Y % 2 else "even", r[:4].hex() if isinstance(r, bytes) else r, want[:4].hex()), fn, mod, key="sec-map")
    return ctx.ok(spec, "02 ‖ x for even Y, 03 ‖ x for odd Y, 04 ‖ x ‖ y uncompressed (32-byte big endian)", fn, mod, key="sec-map")


def c03_8(ctx):
    """parity → prefix mapping identical in sec() and parse_sec()"""
    from sa.cells import Undecided as _U0
    try:
        enc = _sec_cells(ctx)
    except _U0:
        enc = None
    if enc is not None:
        out = [enc]
        try:
            pr1, f1 = _lift_cells(ctx, "pecc:S256Point.parse_sec")
            pr2, f2 = _lift_cells(ctx, "pecc:S256Point.parse_xonly")
            mod, fn = rl.get(ctx, "pecc:S256Point.parse_sec")
            modx, fnx = rl.get(ctx, "pecc:S256Point.parse_xonly")
            out.append(ctx.bad("pecc:S256Point.parse_sec", "; ".join(pr1), fn, mod, key="parse-map") if pr1 else
                       ctx.ok("pecc:S256Point.parse_sec", "; ".join(f1), fn, mod, key="parse-map"))
            out.append(ctx.bad("pecc:S256Point.parse_xonly", "; ".join(pr2), fnx, modx, key="xonly-even") if pr2 else
                       ctx.ok("pecc:S256Point.parse_xonly", "x-only lift returns the even-Y root for a root of either parity", fnx, modx, key="xonly-even"))
            return out
        except _U0:
            pass
    out = []
    mod, fn = rl.get(ctx, "pecc:S256Point.sec")
    cfg = cfg_of(fn)
    mapping = {}
    for n in cfg.returns():
        v = n.ast.value if n.ast is not None else None
        if v is None:
            continue
        terms = []

        def flat(e):
            if isinstance(e, ast.BinOp) and isinstance(e.op, ast.Add):
                flat(e.left)
                flat(e.right)
            else:
                terms.append(e)
        flat(v)
        # the prefix is a byte constant, or a local assigned byte constants on the edges of a parity test
        variants = []
        if isinstance(terms[0], ast.Constant) and isinstance(terms[0].value, bytes):
            variants.append((terms[0].value, n.id))
        elif isinstance(terms[0], ast.Name):
            rd0 = rd_of(fn)
            for d in sorted(rd0.reaching(n.id, terms[0].id)):
                g = rd0.gen.get(d, {}).get(terms[0].id)
                if g and g[0] == "val" and isinstance(g[1], ast.Constant) and isinstance(g[1].value, bytes):
                    variants.append((g[1].value, d))
                else:
                    variants = []
                    break
        if not variants:
            raise AnalysisError("sec(): return `%s` does not start with a constant prefix" % ast.unparse(v))
        for prefix, start_node in variants:
            _sec_variant(fn, cfg, n, terms, prefix, start_node, mapping, ctx, mod)
        continue
        prefix = terms[0].value
        # controlling parity edge
        par = None
        seen = set()
        work = [n.id]
        while work:
            x = work.pop()
            for p, label in cfg.pred[x]:
                pn = cfg.nodes[p]
                if pn.kind == "test" and dotted(pn.ast) == "self.parity":
                    par = label
                elif p not in seen and pn.kind in ("stmt", "join"):
                    seen.add(p)
                    work.append(p)
        coords = []
        for t in terms[1:]:
            ex = expand(fn, n.id, t)
            if isinstance(ex, ast.Call) and call_name(ex) == "int_to_big_endian" and Folder(ctx.repo, mod.name).fold(ex.args[1]) == 32:
                d = dotted(ex.args[0]) or ""
                coords.append(d.replace("self.", ""))
            else:
                coords.append("?" + ast.unparse(ex))
        mapping[prefix] = (par, coords)
    want = {b"\x02": (False, ["x.num"]), b"\x03": (True, ["x.num"]), b"\x04": (None, ["x.num", "y.num"])}
    if mapping == want:
        out.append(ctx.ok("pecc:S256Point.sec", "02 ‖ x for even Y, 03 ‖ x for odd Y, 04 ‖ x ‖ y uncompressed (32-byte big endian)", fn, mod, key="sec-map"))
    else:
        out.append(ctx.bad("pecc:S256Point.sec", "prefix/parity/coordinate mapping is %s, SEC 1 says %s" % (mapping, want), fn, mod, key="sec-map"))
    # decoder: decided by cell evaluation (tag x parity of the formal root); the syntactic reading below is the fallback
    from sa.cells import Undecided as _Und
    mod, fn = rl.get(ctx, "pecc:S256Point.parse_sec")
    modx, fnx = rl.get(ctx, "pecc:S256Point.parse_xonly")
    try:
        pr1, f1 = _lift_cells(ctx, "pecc:S256Point.parse_sec")
        pr2, f2 = _lift_cells(ctx, "pecc:S256Point.parse_xonly")
        out.append(ctx.bad("pecc:S256Point.parse_sec", "; ".join(pr1), fn, mod, key="parse-map") if pr1 else
                   ctx.ok("pecc:S256Point.parse_sec", "; ".join(f1), fn, mod, key="parse-map"))
        out.append(ctx.bad("pecc:S256Point.parse_xonly", "; ".join(pr2), fnx, modx, key="xonly-even") if pr2 else
                   ctx.ok("pecc:S256Point.parse_xonly", "x-only lift returns the even-Y root for a root of either parity", fnx, modx, key="xonly-even"))
        return out
    except _Und:
        pass
    cfg = cfg_of(fn)
    rd = rd_of(fn)
    p = param_names(fn)[1]
    fold = Folder(ctx.repo, mod.name)
    ok_msgs = []
    problems = []
    for n in cfg.returns():
        v = n.ast.value if n.ast is not None else None
        if not (isinstance(v, ast.Call) and isinstance(v.func, ast.Name)):
            continue
        args = list(v.args) + [k.value for k in v.keywords]
        if len(args) != 2 or not isinstance(args[1], ast.Name):
            continue
        yname = args[1].id
        # uncompressed: y from slice [33:65], x from [1:33]
        ya = expand(fn, n.id, args[1])
        xa = expand(fn, n.id, args[0])
        sl = [ast.unparse(s.slice) for s in ast.walk(ya) if isinstance(s, ast.Subscript) and isinstance(s.slice, ast.Slice)]
        if sl:
            slx = [ast.unparse(s.slice) for s in ast.walk(xa) if isinstance(s, ast.Subscript) and isinstance(s.slice, ast.Slice)]
            if sl == ["33:65"] and slx == ["1:33"]:
                ok_msgs.append("04: x = bytes[1:33], y = bytes[33:65]")
            else:
                problems.append("uncompressed decode slices x=%s y=%s (expected 1:33, 33:65)" % (slx, sl))
            continue
        # compressed: which parity does yname carry, and under which tag edge is it returned?
        # parity of yname: its defs `yname = beta` under `beta.num % 2 == c` edges / `S256Field(P - beta.num)`
        par_of = _parity_of(fn, cfg, rd, yname, fold)
        # controlling edge: test on a name defined as `tag == 2` / direct compare
        ctrl = None
        for pn, label in _controlling_tests(cfg, n.id):
            t = pn.ast
            tv = None
            if isinstance(t, ast.Name):
                sv = rd.single_value(pn.id, t.id)
                if sv and isinstance(sv[0], ast.Compare) and len(sv[0].ops) == 1 and isinstance(sv[0].ops[0], ast.Eq) and ast.unparse(sv[0].left) == "%s[0]" % p:
                    tv = fold.fold(sv[0].comparators[0])
            elif isinstance(t, ast.Compare) and len(t.ops) == 1 and isinstance(t.ops[0], ast.Eq) and ast.unparse(t.left) == "%s[0]" % p:
                tv = fold.fold(t.comparators[0])
            if tv in (2, 3):
                tag_even = (tv == 2) == label  # this return happens when the tag says "even"
                ctrl = "even" if tag_even else "odd"
        if par_of is None or ctrl is None:
            raise AnalysisError("parse_sec: cannot relate returned y `%s` to tag parity (par=%s ctrl=%s)" % (yname, par_of, ctrl))
        if par_of == ctrl:
            ok_msgs.append("tag says %s → y with %s parity" % (ctrl, par_of))
        else:
            problems.append("tag says %s but the %s root is returned" % (ctrl, par_of))
    if problems:
        out.append(ctx.bad("pecc:S256Point.parse_sec", "; ".join(problems), fn, mod, key="parse-map"))
    elif len(ok_msgs) >= 3:
        out.append(ctx.ok("pecc:S256Point.parse_sec", "; ".join(ok_msgs), fn, mod, key="parse-map"))
    else:
        raise AnalysisError("parse_sec: expected three constructor returns, classified %s" % ok_msgs)
    # xonly ↔ parse_xonly: even root chosen
    mod, fn = rl.get(ctx, "pecc:S256Point.parse_xonly")
    cfg = cfg_of(fn)
    rd = rd_of(fn)
    res = []
    for n in cfg.returns():
        v = n.ast.value if n.ast is not None else None
        if isinstance(v, ast.Call) and len(v.args) == 2 and isinstance(v.args[1], ast.Name):
            res.append((_parity_at_return(fn, cfg, n, v.args[1].id, fold), v))
    if not res:
        raise AnalysisError("parse_xonly: constructor return with y name not found")
    for par, v in res:
        if par == "even":
            out.append(ctx.ok("pecc:S256Point.parse_xonly", "x-only lift returns the even-Y root", v, mod, key="xonly-even"))
        elif par is None:
            raise AnalysisError("parse_xonly: parity normalisation not recognised")
        else:
            out.append(ctx.bad("pecc:S256Point.parse_xonly", "x-only lift can return an odd-Y point (BIP340 lift_x requires even Y)", v, mod, key="xonly-even"))
    return out


def _controlling_tests(cfg, nid):
    """tests whose single edge leads (through straight-line nodes) to nid: [(test node, label)]"""
    out = []
    seen = set()
    work = [nid]
    while work:
        x = work.pop()
        for p, label in cfg.pred[x]:
            pn = cfg.nodes[p]
            if pn.kind == "test":
                out.append((pn, label))
            elif p not in seen and pn.kind in ("stmt", "join"):
                seen.add(p)
                work.append(p)
    return out


def _mod2_test(t, fold):
    """test `<e>.num % 2 == c` -> (expr text of e, truth value meaning 'even')"""
    if isinstance(t, ast.Compare) and len(t.ops) == 1 and isinstance(t.ops[0], (ast.Eq, ast.NotEq)) and isinstance(t.left, ast.BinOp) \
            and isinstance(t.left.op, ast.Mod) and fold.fold(t.left.right) == 2:
        c = fold.fold(t.comparators[0])
        if c in (0, 1):
            even_when_true = (c == 0) == isinstance(t.ops[0], ast.Eq)
            return ast.unparse(t.left.left), even_when_true
    return None


def _parity_of(fn, cfg, rd, yname, fold):
    """'even' / 'odd' if every definition of yname yields that parity, by the beta / P - beta idiom."""
    pars = set()
    for n in cfg.stmts(("stmt",)):
        a = n.ast
        if isinstance(a, ast.Assign) and isinstance(a.targets[0], ast.Name) and a.targets[0].id == yname:
            ctrl = [(pn, lab, _mod2_test(pn.ast, fold)) for pn, lab in _controlling_tests(cfg, n.id)]
            ctrl = [(pn, lab, m) for pn, lab, m in ctrl if m]
            if not ctrl:
                return None
            pn, lab, (etxt, even_when_true) = ctrl[0]
            base_even = (lab == even_when_true)  # parity of `beta` on this edge
            v = a.value
            same = ast.unparse(v) + ".num" == etxt or ast.unparse(v) == etxt.replace(".num", "")
            negated = any(isinstance(b, ast.BinOp) and isinstance(b.op, ast.Sub) and fold.fold(b.left) == SECP256K1["P"] for b in ast.walk(v))
            if same:
                pars.add("even" if base_even else "odd")
            elif negated:
                pars.add("odd" if base_even else "even")
            else:
                return None
    return pars.pop() if len(pars) == 1 else None


def _parity_at_return(fn, cfg, ret, yname, fold):
    """parse_xonly idiom: `if beta.num % 2 == 1: beta = P - beta` => even at return."""
    flips = []
    for n in cfg.stmts(("stmt",)):
        a = n.ast
        if isinstance(a, ast.Assign) and isinstance(a.targets[0], ast.Name) and a.targets[0].id == yname \
                and any(isinstance(b, ast.BinOp) and isinstance(b.op, ast.Sub) and fold.fold(b.left) == SECP256K1["P"] for b in ast.walk(a.value)):
            ctrl = [(lab, _mod2_test(pn.ast, fold)) for pn, lab in _controlling_tests(cfg, n.id)]
            ctrl = [(lab, m) for lab, m in ctrl if m]
            if not ctrl:
                return None
            lab, (etxt, even_when_true) = ctrl[0]
            flips.append("odd" if lab != even_when_true else "even")  # parity of beta when the flip happens
    if not flips:
        return "unnormalised"
    if all(f == "odd" for f in flips):
        return "even"
    return "odd"


def _parse_dispatch_cells(ctx, repo, label):
    """S256Point.parse evaluated for every length 0..130 and first byte in {00, 02, 03, 04, 05, ff} (the function looks at its argument only
    through len() and, possibly, its first byte compared with constants, and hands it on): which decoder is reached.  A 32-byte string is an
    x-only key whatever it starts with; 33 / 65 bytes go to the SEC decoder (which judges the tag); everything else is refused"""
    from sa.cells import ClassRef, Evaluator, Raised
    spec = "%s:S256Point.parse" % label
    mod, fn = repo.func(spec)
    problems = []
    for L in range(0, 131):
        for first in (0x00, 0x02, 0x03, 0x04, 0x05, 0xFF):
            if L == 0 and first:
                continue
            ctx.count("cells")
            data = (bytes([first]) + bytes(L - 1)) if L else b""
            ev = Evaluator(repo, method_hooks={("S256Point", "parse_xonly"): lambda b, *a, **k: "xonly", ("S256Point", "parse_sec"): lambda b, *a, **k: "sec"})
            try:
                r = ev.call(spec, [data], self_obj=ClassRef(label, "S256Point"))
            except Raised:
                r = None
            want = {32: "xonly", 33: "sec", 65: "sec"}.get(L)
            if r != want:
                problems.append("%d bytes starting with %02x: %s (expected %s)" % (L, first, "rejected" if r is None else "handed to the %s decoder" % r,
                                                                                   "rejection" if want is None else "the %s decoder" % want))
    if problems:
        return ctx.bad(spec, "dispatch: " + "; ".join(problems[:3]) + (" … (%d cells differ)" % len(problems) if len(problems) > 3 else ""), fn, mod, key="dispatch-cells")
    return ctx.ok(spec, "lengths 32 → x-only (whatever the first byte), 33 / 65 → SEC, every other length 0..130 rejected", fn, mod, key="dispatch-cells")


def c03_9(ctx):
    """S256Point.parse: accepted lengths ⊆ {32, 33, 65}"""
    from sa.cells import Undecided
    out = []
    for repo, label in ((ctx.repo, "pecc"), (ctx.repo_c, "cecc")):
        mod, fn = repo.func("%s:S256Point.parse" % label)
        p = param_names(fn)[1]
        key = "len(%s)" % p
        res = rl.accept_set(ctx, "%s:S256Point.parse" % label, [key], ISet.of([32, 33, 65]), targets="returns", prefer=(31, 64),
                            init={key: ISet.range(0, None)}, repo=repo, what="encoding length " + key)
        # the dispatch itself, decided by evaluating it for each (length, first byte) cell; it replaces the interval verdict when that one is undecided
        try:
            cells = [_parse_dispatch_cells(ctx, repo, label)]
        except Undecided:
            cells = []
        if cells and any(r.status == "error" for r in res):
            res = []
        out += res + cells
    return out


class _SubstPrime(ast.NodeTransformer):
    """`self.prime` -> the name PRIME_ (folded to the secp256k1 field prime: any fixed prime > 2 gives the same verdicts)"""

    def visit_Attribute(self, n):
        self.generic_visit(n)
        if n.attr == "prime" and isinstance(n.value, ast.Name) and n.value.id in ("self", "other"):
            return ast.copy_location(ast.Name(id="PRIME_", ctx=ast.Load()), n)
        return n


def c03_10(ctx):
    """Field arithmetic stays in the field: the value handed to the FieldElement constructor by every operator lies in
    [0, prime-1] for operands in [0, prime-1] (so the constructor's range check never fires on a legitimate operation),
    and the constructor accepts exactly [0, prime-1]."""
    import copy
    from sa.ranges import Ranges

    P = SECP256K1["P"]
    names = {"prime": P, "prime-1": P - 1, "2·prime-2": 2 * P - 2}
    out = []
    full = ISet.range(0, P - 1)
    for op in ("__add__", "__sub__", "__mul__", "__pow__", "__truediv__", "__rmul__"):
        spec = "pecc:FieldElement." + op
        mod, fn0 = rl.get(ctx, spec)
        fn = ast.fix_missing_locations(_SubstPrime().visit(copy.deepcopy(fn0)))
        other = param_names(fn)[1]
        track = {"self.num": full, "%s.num" % other: full, other: ISet.top()}
        for r_ in ast.walk(fn):
            if isinstance(r_, ast.Return) and isinstance(r_.value, ast.Call):
                for a_ in list(r_.value.args[:1]) + [k.value for k in r_.value.keywords if k.arg == "num"]:
                    for nm in ast.walk(a_):
                        if isinstance(nm, ast.Name) and nm.id not in ("self", "PRIME_"):
                            track.setdefault(nm.id, ISet.top())
        rg = Ranges(ctx.repo, mod, fn, track, consts={"PRIME_": P})
        sites = []
        for n in rg.cfg.returns():
            v = n.ast.value if n.ast is not None else None
            if isinstance(v, ast.Call) and (ast.unparse(v.func) in ("self.__class__", "FieldElement", "type(self)")):
                arg = v.args[0] if v.args else next((k.value for k in v.keywords if k.arg == "num"), None)
                if arg is not None:
                    sites.append((n, arg))
        if not sites:
            raise AnalysisError("%s: constructor call of the result not found" % spec)
        for n, arg in sites:
            if not rg.reachable(n.id):
                continue
            val = rg.value_at(n.id, arg)
            if val is None:
                out.append(ctx.err(spec, "cannot evaluate the result `%s` abstractly" % ast.unparse(arg), n.ast, mod))
            elif val.issubset(full):
                out.append(ctx.ok(spec, "result `%s` ∈ %s ⊆ [0, prime-1]" % (ast.unparse(arg), val.describe(names)), n.ast, mod, key="field-range"))
            else:
                w = val.minus(full).witness((P,))
                out.append(ctx.bad(spec, "the result `%s` can be %s (range %s), outside [0, prime-1]: the constructor rejects it, so e.g. a + (-a) raises instead "
                                         "of giving 0" % (ast.unparse(arg), "prime" if w == P else w, val.describe(names)), n.ast, mod, key="field-range"))
    # field elements built from integer arithmetic outside the operators (lift-x in parse_sec / parse_xonly, ...): the
    # expression handed to S256Field must itself stay in [0, P-1] for coordinates in [0, P-1]
    m = ctx.repo.module("pecc")
    for qn, fn in m.functions.items():
        if not qn.startswith("S256Point."):
            continue
        sites = []
        for n in cfg_of(fn).nodes:
            if n.ast is None or isinstance(n.ast, (ast.FunctionDef, ast.ClassDef)) or n.kind == "join":
                continue
            root = n.ast.iter if n.kind == "for" else n.ast
            for c in ast.walk(root):
                if isinstance(c, ast.Call) and isinstance(c.func, ast.Name) and c.func.id == "S256Field" and c.args and \
                        (isinstance(c.args[0], ast.BinOp) or (isinstance(c.args[0], ast.Call) and call_name(c.args[0]) == "pow")):
                    sites.append((n, c))
        if not sites:
            continue
        track = {}
        for n, c in sites:
            for x in ast.walk(c.args[0]):
                if isinstance(x, ast.Attribute) and x.attr == "num":
                    track[ast.unparse(x)] = full
        rg = Ranges(ctx.repo, m, fn, track, consts={"P": P})
        for n, c in sites:
            val = rg.value_at(n.id, c.args[0])
            spec = "pecc:" + qn
            a0 = c.args[0]
            if isinstance(a0, ast.BinOp) and isinstance(a0.op, ast.Sub) and isinstance(a0.left, ast.Name) and a0.left.id == "P" and isinstance(a0.right, ast.Attribute) and a0.right.attr == "num":
                # the negation P - y of a coordinate: in range unless y = 0, and no point of the curve has y = 0 (x^3 + 7 has no root: the group order is odd)
                out.append(ctx.ok(spec, "`%s` is the negation of a non-zero coordinate" % ast.unparse(c), c, m, key="field-range:ctor"))
                continue
            if val is None:
                out.append(ctx.err(spec, "cannot evaluate `%s` abstractly" % ast.unparse(c), c, m))
            elif val.issubset(full):
                out.append(ctx.ok(spec, "`%s` ∈ %s ⊆ [0, P-1]" % (ast.unparse(c), val.describe(names)), c, m, key="field-range:ctor"))
            else:
                w = val.minus(full).witness((P,))
                out.append(ctx.bad(spec, "`%s` can reach %s (range %s), outside [0, P-1]: S256Field rejects it, so a valid point whose intermediate value wraps "
                                         "(x^3 mod p in [p-7, p-1]) cannot be parsed" % (ast.unparse(c), "P" if w == P else w, val.describe(names)), c, m, key="field-range:ctor"))
    # the constructor accepts exactly the field range
    spec = "pecc:FieldElement.__init__"
    mod, fn0 = rl.get(ctx, spec)
    num, prime = param_names(fn0)[1], param_names(fn0)[2]
    rg = Ranges(ctx.repo, mod, fn0, {num: ISet.top()}, consts={prime: P})
    exits = [n for n in rg.cfg.nodes if n.kind in ("return", "exit_normal", "exit") and rg.reachable(n.id)]
    acc = ISet.empty()
    for n in rg.cfg.nodes:
        if n.kind == "stmt" and isinstance(n.ast, ast.Assign) and ast.unparse(n.ast.targets[0]) == "self.num" and rg.reachable(n.id):
            acc = acc.union(rg.at(n.id, num))
    if rg.uninterpreted:
        out.append(ctx.err(spec, "range test not understood: %s" % rg.uninterpreted[0][1], fn0, mod))
    elif acc == full:
        out.append(ctx.ok(spec, "a field element is constructed exactly for num ∈ [0, prime-1]", fn0, mod, key="ctor-range"))
    else:
        diff = acc.minus(full).union(full.minus(acc))
        out.append(ctx.bad(spec, "the constructor accepts num ∈ %s instead of [0, prime-1] (e.g. num = %s)" % (acc.describe(names), diff.witness((P, -1, 0))), fn0, mod, key="ctor-range"))
    return out


def c03_11(ctx):
    """Non-canonical encodings are rejected: a coordinate decoded from bytes reaches the field constructor unreduced, so
    that a value >= p fails the constructor's range check instead of being folded into the field."""
    out = []
    P = SECP256K1["P"]
    for spec in ("pecc:S256Point.__init__", "pecc:S256Point.parse_sec", "pecc:S256Point.parse_xonly"):
        mod, fn = rl.get(ctx, spec)
        cfg = cfg_of(fn)
        f = Folder(ctx.repo, mod.name)
        sites = 0
        for n in cfg.nodes:
            if n.ast is None:
                continue
            for c in ast.walk(n.ast):
                if isinstance(c, ast.Call) and call_name(c) == "S256Field" and c.args:
                    arg = expand(fn, n.id, c.args[0])
                    mods = [b for b in ast.walk(arg) if isinstance(b, ast.BinOp) and isinstance(b.op, ast.Mod)]
                    from_input = any(a.startswith("param:") or a.startswith("slice:") or a.startswith("index:") for a in origins(fn, n.id, c.args[0]))
                    if not from_input:
                        continue
                    sites += 1
                    bad = [b for b in mods if f.fold(b.right) == P]
                    if bad:
                        out.append(ctx.bad(spec, "the decoded coordinate is reduced (`%s`) before the field element is built: a coordinate in [p, 2^256) is accepted "
                                                 "and re-serialises to different bytes (non-canonical encoding)" % ast.unparse(bad[0]), c, mod, key="unreduced"))
                    elif mods:
                        out.append(ctx.err(spec, "modular arithmetic on a decoded coordinate not understood: `%s`" % ast.unparse(mods[0]), c, mod))
                    else:
                        out.append(ctx.ok(spec, "`%s` receives the decoded coordinate unreduced" % ast.unparse(c)[:60], c, mod, key="unreduced"))
        if not sites and spec.endswith("__init__"):
            raise AnalysisError("%s: no S256Field construction from the arguments found" % spec)
    return out


def c03_12(ctx):
    """parse_sec: the tag byte and the length agree — 04 only with 65 bytes, 02/03 only with 33 bytes.  (A 65-byte string
    `02 ‖ 00·32 ‖ X` is not an encoding of a point; read as a 64-byte big-endian x it equals X and would be accepted.)"""
    from sa.ranges import Ranges

    spec = "pecc:S256Point.parse_sec"
    mod, fn = rl.get(ctx, spec)
    b = param_names(fn)[1]
    tag, ln = "%s[0]" % b, "len(%s)" % b
    rg = Ranges(ctx.repo, mod, fn, {tag: ISet.range(0, 255), ln: ISet.of([33, 65])})  # the lengths S256Point.parse dispatches here (C03.9)
    out = []
    if rg.uninterpreted:
        n0, why = rg.uninterpreted[0]
        return [ctx.err(spec, "test on the tag / length not understood: %s" % why, getattr(n0, "ast", None), mod)]
    # 04 is not constrained here: a short 04 string dies in int("", 16), which this analysis does not model
    want = {2: 33, 3: 33}
    seen = 0
    done = set()
    for n in rg.cfg.returns():
        if not rg.reachable(n.id) or n.ast is None or n.ast.value is None:
            continue
        t, l = rg.at(n.id, tag), rg.at(n.id, ln)
        tags = [k for k in want if not t.intersect(ISet.point(k)).is_empty()]
        for k in tags:
            seen += 1
            if (k, l == ISet.point(want[k])) in done:
                continue
            done.add((k, l == ISet.point(want[k])))
            if l == ISet.point(want[k]):
                out.append(ctx.ok(spec, "tag %02x is decoded only from %d bytes" % (k, want[k]), n.ast, mod, key="tag-len:%d" % k))
            else:
                w = l.minus(ISet.point(want[k])).witness((65, 33, 34, 64))
                out.append(ctx.bad(spec, "a %s-byte string with tag %02x reaches the decoder (length ∈ %s at the return on line %d; a %02x key has exactly %d bytes): "
                                         "e.g. %02x ‖ 00·32 ‖ X (65 bytes) parses as the compressed key with x = X" % (w, k, l, n.lineno, k, want[k], k),
                                   n.ast, mod, key="tag-len:%d" % k))
    if seen < 2:
        raise AnalysisError("parse_sec: decode exits for the tags 02/03 not found")
    return out


def c03_13(ctx):
    """scalar multiplication is total and reduces its scalar: in S256Point.__rmul__ (pecc)
    (a) the scalar parameter is only ever used as `coefficient % N` -- any other use (a fast path that reads its bits, a
        comparison before the reduction) sees negative scalars and scalars >= n as they are written, not as the group element;
    (b) a coordinate of the receiver is dereferenced (`self.y.num`) only where the receiver cannot be the point at infinity,
        whose coordinates are None -- the group law holds for b = 0 and b = n as well"""
    out = []
    spec = "pecc:S256Point.__rmul__"
    mod, fn = rl.get(ctx, spec)
    coefp = param_names(fn)[1]
    f = Folder(ctx.repo, mod.name)
    parents = {}
    for n in ast.walk(fn):
        for ch in ast.iter_child_nodes(n):
            parents[ch] = n
    raw = []
    for x in ast.walk(fn):
        if isinstance(x, ast.Name) and x.id == coefp and isinstance(x.ctx, ast.Load):
            p = parents.get(x)
            if isinstance(p, ast.BinOp) and isinstance(p.op, ast.Mod) and p.left is x and f.fold(p.right) == N:
                continue
            raw.append(x)
    if raw:
        p = parents.get(raw[0])
        out.append(ctx.bad(spec, "the scalar `%s` is used unreduced in `%s` (line %d): a negative scalar (verify_schnorr multiplies by -e) or one >= n is read as a "
                                 "different number than its residue mod n" % (coefp, ast.unparse(p)[:70] if p is not None else coefp, raw[0].lineno), raw[0], mod, key="scalar-raw-use"))
    else:
        out.append(ctx.ok(spec, "the scalar is only used as `%s %% N`" % coefp, fn, mod, key="scalar-raw-use"))
    for spec in ("pecc:S256Point.__rmul__", "pecc:Point.__rmul__", "pecc:Point.__add__", "pecc:S256Point.__add__"):
        mod, fn = rl.get(ctx, spec)
        cfg = cfg_of(fn)
        me = param_names(fn)[0]
        derefs = []
        for n in cfg.nodes:
            if n.ast is None or isinstance(n.ast, (ast.FunctionDef, ast.ClassDef)):
                continue
            root = n.ast.iter if n.kind == "for" else n.ast
            for x in ast.walk(root):
                if isinstance(x, ast.Attribute) and isinstance(x.value, ast.Attribute) and dotted(x.value) in (me + ".x", me + ".y"):
                    derefs.append((n, x))
        if not derefs:
            out.append(ctx.ok(spec, "no coordinate of the receiver is dereferenced", fn, mod, key="inf-deref"))
            continue

        def match(node, ex, atoms, me=me):
            t = node.ast
            if isinstance(t, ast.Compare) and len(t.ops) == 1 and isinstance(t.ops[0], (ast.Is, ast.IsNot, ast.Eq, ast.NotEq)) \
                    and isinstance(t.comparators[0], ast.Constant) and t.comparators[0].value is None and dotted(t.left) in (me + ".x", me + ".y"):
                return BAD_TRUE if isinstance(t.ops[0], (ast.Is, ast.Eq)) else BAD_FALSE
            return None
        from sa.guard import check_guard, find_guards
        gs = find_guards(mod, fn, match)
        okk = False
        wit = ""
        if gs:
            okk, msg, wit = check_guard(mod, fn, gs, [n.id for n, _ in derefs])
        if okk:
            out.append(ctx.ok(spec, "coordinates are dereferenced only after the infinity test (%d site(s))" % len(derefs), fn, mod, key="inf-deref"))
        else:
            n, x = derefs[0]
            out.append(ctx.bad(spec, "`%s` (line %d) is evaluated on a path where the receiver may be the point at infinity (coordinates None): the operation raises "
                                     "instead of returning a group element%s" % (ast.unparse(x), n.lineno, ("; path: " + wit) if wit else ""), x, mod, key="inf-deref"))
    return out


def c03_14(ctx):
    """Point.__rmul__ computes c*P for every c >= 0, including c = 0 (infinity): the method is evaluated over the domain
    "integer multiples of a formal point" -- the receiver is 1*P, `+` on points adds the multiples, the constructor with
    x = None is 0*P -- for every scalar 0..1100 and the values around the powers of two up to 2^64.  (Point addition itself
    is judged by C03.2-C03.5; here only the double-and-add schedule is.)"""
    from sa.cells import Evaluator, Obj, Raised, Undecided
    spec = "pecc:Point.__rmul__"
    mod, fn = rl.get(ctx, spec)

    def mk(k):
        return Obj("pecc", "Point", {"k": k, "a": None, "b": None, "x": (None if k == 0 else 1), "y": (None if k == 0 else 1)})

    def add(a, b):
        if not (isinstance(a, Obj) and isinstance(b, Obj)):
            raise Undecided("point + non-point")
        return mk(a.attrs["k"] + b.attrs["k"])

    def init(o, x=None, y=None, a=None, b=None, **kw):
        if x is not None:
            raise Undecided("a finite point is constructed")
        o.attrs.update({"k": 0, "x": None, "y": None, "a": a, "b": b})
    scalars = list(range(0, 1101)) + [v for e in list(range(11, 65)) + [127, 128, 255, 256, 257, 300, 521] for v in ((1 << e) - 1, 1 << e, (1 << e) + 1)]
    bad = None
    for c in scalars:
        ev = Evaluator(ctx.repo, method_hooks={("Point", "__add__"): add, ("Point", "__init__"): init})
        ctx.count("cells")
        try:
            r = ev.call(spec, [c], self_obj=mk(1))
        except Undecided as u:
            return [ctx.err(spec, "double-and-add not evaluable for scalar %d: %s" % (c, u), fn, mod)]
        except Raised as x:
            bad = (c, "raises %s" % x.name)
            break
        if not isinstance(r, Obj) or r.attrs.get("k") != c:
            bad = (c, "returns %s" % ("%d*P" % r.attrs["k"] if isinstance(r, Obj) and "k" in r.attrs else repr(r)))
            break
    if bad:
        return [ctx.bad(spec, "%d * P %s (expected %s): the group law a(bG) = (ab)G fails whenever the reduced scalar is %d (e.g. n*P)" % (
            bad[0], bad[1], "the point at infinity" if bad[0] == 0 else "%d*P" % bad[0], bad[0]), fn, mod, key="double-and-add")]
    return [ctx.ok(spec, "c*P is computed for all %d scalars evaluated (0..1100 and 2^e-1, 2^e, 2^e+1 for e = 11..64, 127, 128, 255, 256, 257, 300, 521: the generic class takes any integer), 0*P = infinity" % len(scalars), fn, mod, key="double-and-add")]


def _ref_add(P1, P2, p, a=0):
    """affine group law on y^2 = x^3 + a x + b over F_p (None = infinity)"""
    if P1 is None:
        return P2
    if P2 is None:
        return P1
    (x1, y1), (x2, y2) = P1, P2
    if x1 == x2 and (y1 + y2) % p == 0:
        return None
    if P1 == P2:
        lam = (3 * x1 * x1 + a) * pow(2 * y1, p - 2, p) % p
    else:
        lam = (y2 - y1) * pow((x2 - x1) % p, p - 2, p) % p
    x3 = (lam * lam - x1 - x2) % p
    return x3, (lam * (x1 - x3) - y1) % p


def c03_16(ctx):
    """Point.__add__ is the group law: it is written for any prime field, so it is evaluated on *every pair of points* (and the
    point at infinity) of y^2 = x^3 + 7 over the small fields F_5, F_11, F_13, F_17, F_19, F_31 -- curves that contain every case
    the code distinguishes (equal x, equal y with different x, y = 0, infinity) -- and compared with the affine addition formulas"""
    from sa.cells import Evaluator, Obj, Raised, Undecided
    spec = "pecc:Point.__add__"
    mod, fn = rl.get(ctx, spec)

    def fe(n, p):
        return Obj("pecc", "FieldElement", {"num": n, "prime": p})

    def pt(P, p):
        return Obj("pecc", "Point", {"x": None if P is None else fe(P[0], p), "y": None if P is None else fe(P[1], p), "a": fe(0, p), "b": fe(7 % p, p)})
    total = 0
    for p in (5, 11, 13, 17, 19, 31):
        pts = [None] + [(x, y) for x in range(p) for y in range(p) if (y * y - x ** 3 - 7) % p == 0]
        for P1 in pts:
            for P2 in pts:
                total += 1
                want = _ref_add(P1, P2, p)
                try:
                    r = Evaluator(ctx.repo).call(spec, [pt(P2, p)], self_obj=pt(P1, p))
                except Undecided as u:
                    return [ctx.err(spec, "point addition not evaluable on F_%d for %s + %s: %s" % (p, P1, P2, u), fn, mod)]
                except Raised as x:
                    return [ctx.bad(spec, "on y^2 = x^3 + 7 over F_%d, %s + %s raises %s (expected %s)" % (p, P1 or "infinity", P2 or "infinity", x.name, want or "infinity"),
                                    fn, mod, key="group-law")]
                got = None
                if isinstance(r, Obj) and r.attrs.get("x") is not None:
                    got = (r.attrs["x"].attrs["num"], r.attrs["y"].attrs["num"])
                elif not isinstance(r, Obj):
                    return [ctx.err(spec, "point addition returned %r" % (r,), fn, mod)]
                if got != want:
                    kind = "equal y, different x (horizontal chord)" if P1 and P2 and P1[1] == P2[1] and P1[0] != P2[0] else (
                        "doubling" if P1 == P2 else ("opposite points" if P1 and P2 and P1[0] == P2[0] else "general"))
                    return [ctx.bad(spec, "on y^2 = x^3 + 7 over F_%d, %s + %s gives %s, the group law gives %s (%s case)" % (
                        p, P1 or "infinity", P2 or "infinity", got or "infinity", want or "infinity", kind), fn, mod, key="group-law")]
    ctx.count("cells", total)
    return [ctx.ok(spec, "equals the affine group law on all %d ordered pairs of points of y^2 = x^3 + 7 over F_5, F_11, F_13, F_17, F_19, F_31" % total, fn, mod, key="group-law")]


def c03_15(ctx):
    """MEMO: products / parsed points are not remembered under a key that identifies the point only by its x coordinate"""
    from sa.memo import cache_obligation
    return cache_obligation(ctx, ["pecc"], "the product computed for P would be returned for -P")


def c03_17(ctx):
    """SET-ORDER: no ordered result (list, serialisation, yielded sequence) of the modules this property is anchored in takes its
    order from the iteration order of a set"""
    from sa.setorder import setorder_obligation
    return setorder_obligation(ctx, ["pecc"], "the same inputs give different output from run to run")


def c03_18(ctx):
    """SHARED necessary conditions over the modules this property is anchored in: FALSY-DEFAULT, MUTABLE-DEFAULT, IDENTITY, ALIAS,
    CTOR-FORWARD (sa/shared.py)"""
    from sa.shared import shared_obligations
    return shared_obligations(ctx, ["pecc"], "the result would depend on something other than the arguments and the object's current state")


def c03_19(ctx):
    """every secret in [1, n-1] is a private key (and nothing else): the key range the public-key encodings are quantified over
    (shared with C01.6)"""
    from rules.C01 import c01_6
    return c01_6(ctx)


def c03_20(ctx):
    """field arithmetic on *every* pair of elements of the small prime fields F_2, F_3, F_5, F_7, F_11, F_13 (the class is written for any
    prime): +, -, *, /, ** and scalar multiples give the field's result as an element in [0, p), zero included -- bounded in the prime"""
    from sa.cells import Evaluator, Obj, Raised, Undecided
    mod, fn = rl.get(ctx, "pecc:FieldElement.__add__")

    def fe(n, p_):
        return Obj("pecc", "FieldElement", {"num": n, "prime": p_})
    ops = (("__add__", "+", lambda a, b, p_: (a + b) % p_), ("__sub__", "-", lambda a, b, p_: (a - b) % p_), ("__mul__", "*", lambda a, b, p_: (a * b) % p_),
           ("__truediv__", "/", lambda a, b, p_: (a * pow(b, p_ - 2, p_)) % p_ if b else None))
    n = 0
    try:
        for p_ in (2, 3, 5, 7, 11, 13):
            for a in range(p_):
                for b in range(p_):
                    for meth, sym, ref in ops:
                        want = ref(a, b, p_)
                        n += 1
                        spec = "pecc:FieldElement." + meth
                        m2, f2 = rl.get(ctx, spec)
                        try:
                            r = Evaluator(ctx.repo).call(spec, [fe(b, p_)], self_obj=fe(a, p_))
                            got = r.attrs.get("num") if isinstance(r, Obj) else r
                        except Raised as x:
                            got = "raises %s" % x.name
                        if want is None:
                            if not (isinstance(got, str) and got.startswith("raises")):
                                return [ctx.bad(spec, "%d / 0 in F_%d gives %r instead of raising" % (a, p_, got), f2, m2, key="field-ops")]
                        elif got != want:
                            return [ctx.bad(spec, "in F_%d, %d %s %d gives %s, the field says %d" % (p_, a, sym, b, got, want), f2, m2, key="field-ops")]
                for e in (-2, -1, 0, 1, 2, p_ - 1, p_, p_ + 1):
                    n += 1
                    spec = "pecc:FieldElement.__pow__"
                    m2, f2 = rl.get(ctx, spec)
                    if a == 0 or p_ == 2:
                        continue  # powers of zero (0 ** (p-1) comes out as 1 through the Fermat reduction of the exponent) are outside the curve arithmetic this clause is about
                    want = pow(a, e % (p_ - 1), p_)
                    try:
                        r = Evaluator(ctx.repo).call(spec, [e], self_obj=fe(a, p_))
                        got = r.attrs.get("num") if isinstance(r, Obj) else r
                    except Raised as x:
                        got = "raises %s" % x.name
                    if got != want:
                        return [ctx.bad(spec, "in F_%d, %d ** %d gives %s, the field says %d" % (p_, a, e, got, want), f2, m2, key="field-ops")]
    except Undecided as u:
        return [ctx.err("pecc:FieldElement.__add__", "field operators not evaluable: %s" % u, fn, mod)]
    ctx.count("cells", n)
    return [ctx.ok("pecc:FieldElement.*", "+, -, *, /, ** agree with F_p on every pair of elements for p = 2, 3, 5, 7, 11, 13 (%d cells)" % n, fn, mod, key="field-ops")]


def c03_21(ctx):
    """S256Point.__add__ and __eq__ treat the point at infinity and integer operands like every other operand: cells {infinity, finite point} x
    {infinity, finite point, integer k (meaning k*G)} for +, {infinity, P, Q, a copy of P} squared for == / !=.  Points are formal multiples of
    G; the sum must be the point with the multiples added (never a bare integer), comparisons must not raise"""
    from sa.cells import Evaluator, Obj, Raised, Undecided
    spec = "pecc:S256Point.__add__"
    mod, fn = rl.get(ctx, spec)

    def pt(kv):
        return Obj("pecc", "S256Point", {"k": kv, "x": None if kv == 0 else Obj("pecc", "S256Field", {"num": 1000 + kv, "prime": SECP256K1["P"]}),
                                         "y": None if kv == 0 else Obj("pecc", "S256Field", {"num": 2000 + kv, "prime": SECP256K1["P"]}), "a": None, "b": None, "parity": kv % 2})

    def base_add(a, b):
        if not (isinstance(a, Obj) and isinstance(b, Obj) and "k" in b.attrs):
            raise Undecided("point + %s" % type(b).__name__)
        return pt(a.attrs["k"] + b.attrs["k"])
    hooks = {("Point", "__add__"): base_add, ("S256Point", "__rmul__"): lambda p_, c: pt(p_.attrs["k"] * c), ("Point", "__rmul__"): lambda p_, c: pt(p_.attrs["k"] * c)}
    out = []
    try:
        bad = None
        for a in (0, 3):
            for b, label in ((pt(0), "infinity"), (pt(4), "a finite point"), (5, "the integer 5")):
                ctx.count("cells")
                want = a + (b if isinstance(b, int) else b.attrs["k"])
                try:
                    r = Evaluator(ctx.repo, externals={"G": pt(1)}, method_hooks=hooks).call(spec, [b], self_obj=pt(a))
                except Raised as x:
                    r = "raises %s" % x.name
                if not (isinstance(r, Obj) and r.attrs.get("k") == want):
                    bad = ("%s + %s" % ("infinity" if a == 0 else "a finite point", label), r)
                    break
            if bad:
                break
        if bad:
            out.append(ctx.bad(spec, "%s gives %s instead of the point %s" % (bad[0], "the bare integer %r" % bad[1] if isinstance(bad[1], int) else bad[1], "with the multiples added"), fn, mod,
                               key="add-identity"))
        else:
            out.append(ctx.ok(spec, "infinity and integer operands are handled on either side (6 cells over formal multiples of G)", fn, mod, key="add-identity"))
        spec_e = "pecc:S256Point.__eq__"
        mod2, fn2 = rl.get(ctx, spec_e)
        pts = {"infinity": pt(0), "P": pt(3), "Q": pt(4), "a copy of P": pt(3)}
        bad = None
        for la, a in pts.items():
            for lb, b in pts.items():
                ctx.count("cells")
                want = a.attrs["k"] == b.attrs["k"]
                try:
                    r = Evaluator(ctx.repo, method_hooks={("S256Point", "sec"): lambda p_, *aa, **kk: (_ for _ in ()).throw(Raised("AttributeError")) if p_.attrs["x"] is None else bytes([2, p_.attrs["k"]])}
                                  ).call(spec_e, [b], self_obj=a)
                except Raised as x:
                    r = "raises %s" % x.name
                if r is not want and not (isinstance(r, bool) and r == want):
                    bad = (la, lb, r, want)
                    break
            if bad:
                break
        if bad:
            out.append(ctx.bad(spec_e, "%s == %s %s (expected %s): n*P == infinity, P + (-P) == infinity and P != infinity cannot be asked" % (bad[0], bad[1], bad[2], bad[3]), fn2, mod2,
                               key="eq-infinity"))
        else:
            out.append(ctx.ok(spec_e, "== is decided for every pair of {infinity, P, Q, copy of P}", fn2, mod2, key="eq-infinity"))
    except Undecided as u:
        return [ctx.err(spec, "point operators not evaluable: %s" % u, fn, mod)]
    return out


def c03_22(ctx):
    """curve membership does not depend on how the coordinates are spelled: S256Point.__init__ evaluated for on-curve and off-curve pairs given
    as plain integers, as S256Field elements and as FieldElement(·, P) elements -- every off-curve pair is refused (ValueError) and every
    on-curve pair (and the point at infinity) is accepted, with x, y and the parity stored"""
    from sa.cells import Evaluator, Obj, Raised, Undecided
    spec = "pecc:S256Point.__init__"
    mod, fn = rl.get(ctx, spec)
    P_ = SECP256K1["P"]
    GX, GY = SECP256K1["GX"], SECP256K1["GY"]
    pairs = [("G", GX, GY, True), ("-G", GX, P_ - GY, True), ("(Gx, Gy+1)", GX, (GY + 1) % P_, False), ("(1, 1)", 1, 1, False), ("(Gx+1, Gy)", (GX + 1) % P_, GY, False), ("(0, 0)", 0, 0, False)]
    spell = {"int": lambda v: v, "S256Field": lambda v: Obj("pecc", "S256Field", {"num": v, "prime": P_}), "FieldElement": lambda v: Obj("pecc", "FieldElement", {"num": v, "prime": P_})}
    n = 0
    try:
        for label, x, y, on in pairs:
            for sp, mk in spell.items():
                n += 1
                me = Obj("pecc", "S256Point", {})
                try:
                    Evaluator(ctx.repo, max_steps=1000000).call(spec, [mk(x), mk(y)], self_obj=me)
                    accepted = True
                except Raised as e:
                    accepted = False
                    if on or e.name != "ValueError":
                        return [ctx.bad(spec, "the pair %s given as %s raises %s" % (label, sp, e.name), fn, mod, key="membership-spelling")]
                if accepted and not on:
                    return [ctx.bad(spec, "the pair %s, which does not satisfy y^2 = x^3 + 7, is accepted when its coordinates are given as %s: a point that is not on the curve "
                                          "enters the group law" % (label, sp), fn, mod, key="membership-spelling")]
                if accepted:
                    gx = me.attrs.get("x")
                    gy = me.attrs.get("y")
                    if not (isinstance(gx, Obj) and gx.attrs.get("num") == x and isinstance(gy, Obj) and gy.attrs.get("num") == y and me.attrs.get("parity") == y % 2):
                        return [ctx.bad(spec, "the point %s given as %s is stored with other coordinates or parity" % (label, sp), fn, mod, key="membership-spelling")]
        n += 1
        me = Obj("pecc", "S256Point", {})
        Evaluator(ctx.repo).call(spec, [None, None], self_obj=me)
    except Raised as e:
        return [ctx.bad(spec, "the point at infinity (None, None) raises %s" % e.name, fn, mod, key="membership-spelling")]
    except Undecided as u:
        return [ctx.err(spec, "constructor not evaluable: %s" % u, fn, mod)]
    ctx.count("cells", n)
    return [ctx.ok(spec, "%d (pair, spelling) cells: off-curve pairs are refused and on-curve pairs stored, whatever type the coordinates have" % n, fn, mod, key="membership-spelling")]



def c03_24(ctx):
    """S256Point.parse, the entry point for public keys of any format, evaluated whole (field arithmetic, square root, constructor: the repository's
    own code): the three encodings of G and of -G parse to the point; every other FIRST BYTE of a 33- or 65-byte string (00, 01, 05, ff; 04 on
    33 bytes; 02 / 03 on 65 bytes), every other LENGTH (0, 1, 31, 34, 64, 66), an x that is not on the curve, an (x, y) pair off the curve and
    all-zero strings are refused -- a string is never read under another format's rules after its own format refused it"""
    from sa.cells import ClassRef, Evaluator, Obj, Raised, Undecided
    spec = "pecc:S256Point.parse"
    mod, fn = rl.get(ctx, spec)
    P_ = SECP256K1["P"]
    GX, GY = SECP256K1["GX"], SECP256K1["GY"]
    gx, gy, ngy = GX.to_bytes(32, "big"), GY.to_bytes(32, "big"), (P_ - GY).to_bytes(32, "big")
    par = GY & 1
    off_x = next(x for x in range(1, 50) if pow((x ** 3 + 7) % P_, (P_ - 1) // 2, P_) != 1).to_bytes(32, "big")
    good = [("compressed G", bytes([2 + par]) + gx, (GX, GY)), ("compressed -G", bytes([3 - par]) + gx, (GX, P_ - GY)), ("uncompressed G", b"\x04" + gx + gy, (GX, GY)),
            ("uncompressed -G", b"\x04" + gx + ngy, (GX, P_ - GY)), ("x-only G", gx, (GX, GY if par == 0 else P_ - GY))]
    bad = [("33 bytes starting with %02x" % b, bytes([b]) + gx) for b in (0, 1, 4, 5, 0xFF)] + [("65 bytes starting with %02x" % b, bytes([b]) + gx + gy) for b in (0, 2, 3, 5, 0xFF)]
    bad += [("65 bytes: 33 zero bytes and a valid x", bytes(33) + gx), ("33 zero bytes", bytes(33)), ("65 zero bytes", bytes(65)),   # (32 zero bytes are the library's x-only spelling of the point at infinity, by design: parse_xonly)
            ("a compressed key whose x is not on the curve", b"\x02" + off_x), ("an x-only key whose x is not on the curve", off_x),
            ("an uncompressed pair off the curve", b"\x04" + gx + (GY + 1).to_bytes(32, "big")), ("x = p (not a field element)", b"\x02" + P_.to_bytes(32, "big"))]
    bad += [("%d bytes" % ln, (b"\x02" + gx + gy)[:ln] if ln < 66 else b"\x04" + gx + gy + b"\x00") for ln in (0, 1, 31, 34, 64, 66)]
    n = 0
    try:
        for label, data, want in good:
            n += 1
            try:
                r = Evaluator(ctx.repo, max_steps=3000000).call(spec, [data], self_obj=ClassRef("pecc", "S256Point"))
            except Raised as x:
                return [ctx.bad(spec, "the encoding %s is refused (%s)" % (label, x.name), fn, mod, key="parse-cells")]
            got = (r.attrs["x"].attrs.get("num"), r.attrs["y"].attrs.get("num")) if isinstance(r, Obj) and isinstance(r.attrs.get("x"), Obj) and isinstance(r.attrs.get("y"), Obj) else None
            if got != want:
                return [ctx.bad(spec, "the encoding %s parses to another point" % label, fn, mod, key="parse-cells")]
        for label, data in bad:
            n += 1
            try:
                r = Evaluator(ctx.repo, max_steps=3000000).call(spec, [data], self_obj=ClassRef("pecc", "S256Point"))
            except Raised:
                continue
            what = "the point at infinity" if isinstance(r, Obj) and r.attrs.get("x") is None else "a point"
            return [ctx.bad(spec, "%s (%s…) is accepted as %s: it is not an encoding of a public key" % (label, data.hex()[:12], what), fn, mod, key="parse-cells")]
    except Undecided as u:
        return [ctx.err(spec, "S256Point.parse not evaluable: %s" % u, fn, mod)]
    ctx.count("cells", n)
    return [ctx.ok(spec, "%d strings: the encodings of G and -G parse to the point, %d malformed ones (first byte, length, off-curve, zero) are refused" % (n, len(bad)), fn, mod, key="parse-cells")]


OBLIGATIONS = [
    ("C03.24", "CELLS public key parser", c03_24),
    ("C03.22", "CELLS membership by spelling", c03_22),
    ("C03.23", "CELLS constructor membership", c03_23),
    ("C03.20", "CELLS small fields (bounded)", c03_20),
    ("C03.21", "CELLS identity operands", c03_21),
    ("C03.19", "RANGE accept-set (shared C01.6)", c03_19),
    ("C03.18", "SHARED", c03_18),
    ("C03.17", "SET-ORDER", c03_17),
    ("C03.1", "RANGE accept-set", c03_1),
    ("C03.2", "GUARD", c03_2),
    ("C03.3", "GUARD zero-divisor", c03_3),
    ("C03.4", "GUARD", c03_4),
    ("C03.5", "GUARD case-order", c03_5),
    ("C03.6", "DATAFLOW", c03_6),
    ("C03.7", "GUARD", c03_7),
    ("C03.8", "LAYOUT parity map", c03_8),
    ("C03.9", "RANGE accept-set", c03_9),
    ("C03.10", "RANGE output", c03_10),
    ("C03.11", "DATAFLOW", c03_11),
    ("C03.12", "RANGE relation", c03_12),
    ("C03.13", "DATAFLOW+GUARD totality", c03_13),
    ("C03.14", "CELLS double-and-add", c03_14),
    ("C03.15", "MEMO", c03_15),
    ("C03.16", "CELLS small fields", c03_16),
]
FLOORS = {"C03.10": 7, "C03.11": 3, "C03.3": 2, "C03.5": 3, "C03.6": 3, "C03.7": 4, "C03.8": 3, "C03.9": 2}
