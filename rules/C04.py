"""C04 — transaction wire codec and txid (structural clauses)."""
import ast

from sa import rl
from sa.cfg import cfg_of
from sa.dataflow import call_name, dotted, expand, origins
from sa.effects import Effects
from sa.fold import Folder, Unknown
from sa.guard import BAD_FALSE, BAD_TRUE
from sa.interval import ISet
from sa.layout import WriterExec, fmt_terms
from sa.layoutcmp import diff, fmt_shape, pair, writer_shape
from sa.loader import AnalysisError, param_names
from sa.ranges import Ranges
from spec import layouts as L

EXPLANATION = (
    "Static analysis of buidl/tx.py, script.py, witness.py, helper.py, timelock.py: interval partition of the script push-length "
    "chain (no gap in [0,520], minimal push form per tile, raising tile beyond 520) and of the reader's opcode dispatch; compact-size "
    "writer tiles and reader tag→width map; byte-layout extraction of 7 serializer/parser pairs compared with each other and with the "
    "protocol/BIP144 layout; count prefixes versus loop emission; typed transitive attribute read-set of Tx.hash excludes witness data and "
    "includes every non-witness field; cut-set proof that the fetcher stores/returns only transactions whose recomputed id equals the "
    "requested one. Not decided: byte-exact round trip on values, double-SHA256."
)


def _emits(node):
    """classification of an accumulator append in raw_serialize: ('const', n) / ('len1',) / ('len2',) / ('data',) / None"""
    a = node.ast
    if not isinstance(a, ast.AugAssign) or not isinstance(a.op, ast.Add):
        return None
    v = a.value
    if isinstance(v, ast.Call) and call_name(v) == "int_to_byte" and v.args:
        if isinstance(v.args[0], ast.Constant) and isinstance(v.args[0].value, int):
            return ("const", v.args[0].value)
        return ("len", 1, ast.unparse(v.args[0]))
    if isinstance(v, ast.Call) and call_name(v) == "int_to_little_endian" and len(v.args) == 2 and isinstance(v.args[1], ast.Constant):
        return ("len", v.args[1].value, ast.unparse(v.args[0]))
    return None


def _push_cells(ctx):
    """Script.raw_serialize evaluated on a one-element script for *every* element length 0..521 (and 522, 65535, 65536): the element is
    written as <length> data (0..75), 4c <length> data (76..255), 4d <length, 2 bytes little endian> data (256..520), and refused beyond --
    the complete domain of the clause.  An op code is written as its one byte.  None when the function is outside the evaluator's subset."""
    from sa.cells import Evaluator, Obj, Raised, Undecided
    spec = "script:Script.raw_serialize"
    mod, fn = rl.get(ctx, spec)

    def want(L):
        if L <= 75:
            return bytes([L])
        if L <= 255:
            return b"\x4c" + bytes([L])
        if L <= 520:
            return b"\x4d" + L.to_bytes(2, "little")
        return None
    first = {}
    try:
        for L in list(range(0, 523)) + [65535, 65536]:
            ctx.count("cells")
            data = bytes([0xAB]) * L
            me = Obj("script", "Script", {"commands": [0x76, data, 0xAC], "raw": None})
            try:
                r = Evaluator(ctx.repo, max_steps=50000).call(spec, [], self_obj=me)
            except Raised:
                r = None
            w = want(L)
            exp = None if w is None else b"\x76" + w + data + b"\xac"
            if r != exp and "kind" not in first:
                if exp is None:
                    first.update(kind="raise-tile", msg="an element of %d bytes is serialised; nothing longer than 520 bytes can be pushed" % L)
                elif r is None:
                    first.update(kind="gap", msg="a push of %d bytes is not serialisable (it raises)" % L)
                else:
                    got_prefix = r[1:len(r) - L - 1] if isinstance(r, bytes) and len(r) >= L + 2 else r
                    first.update(kind="minimal", msg="an element of %d bytes is written with the prefix %s; the minimal push for it is %s" % (
                        L, got_prefix.hex() if isinstance(got_prefix, bytes) else got_prefix, w.hex()))
    except Undecided:
        return None
    if first:
        return [ctx.bad(spec, first["msg"], fn, mod, key=first["kind"])]
    return [ctx.ok(spec, "push lengths [0,520] are covered: direct [0, 75], PUSHDATA1 [76, 255], PUSHDATA2 [256, 520] (every length 0..522 evaluated)", fn, mod, key="gap"),
            ctx.ok(spec, "direct form used only for lengths [0, 75] ⊆ [0, 75]", fn, mod, key="minimal-direct"),
            ctx.ok(spec, "pd1 form used only for lengths [76, 255] ⊆ [76, 255]", fn, mod, key="minimal-pd1"),
            ctx.ok(spec, "pd2 form used only for lengths [256, 520] ⊆ [256, 520]", fn, mod, key="minimal-pd2"),
            ctx.ok(spec, "the raising arm is reached only for lengths [521, +∞]", fn, mod, key="raise-tile")]


def c04_1(ctx):
    """push-length chain tiles [0,520] without gap, minimal forms"""
    ev = _push_cells(ctx)
    if ev is not None:
        return ev
    spec = "script:Script.raw_serialize"
    mod, fn = rl.get(ctx, spec)
    cfg = cfg_of(fn)
    # the tracked variable: the local assigned from len(<loop var>)
    var = None
    for n in cfg.stmts(("stmt",)):
        a = n.ast
        if isinstance(a, ast.Assign) and isinstance(a.targets[0], ast.Name) and isinstance(a.value, ast.Call) and call_name(a.value) == "len":
            var = a.targets[0].id
    if var is None:
        raise AnalysisError("raw_serialize: `length = len(command)` not found")
    ra = Ranges(ctx.repo, mod, fn, {var: ISet.range(0, None)})
    if ra.uninterpreted:
        raise AnalysisError("raw_serialize: %s" % ra.uninterpreted[0][1])
    ctx.count("tests_interpreted", len(ra.interpreted_tests))
    tiles = {"direct": ISet.empty(), "pd1": ISet.empty(), "pd2": ISet.empty(), "pd4": ISet.empty(), "raise": ISet.empty()}
    nodes = {}
    for n in cfg.nodes:
        if n.kind == "raise" and ra.reachable(n.id):
            tiles["raise"] = tiles["raise"].union(ra.at(n.id, var))
            nodes["raise"] = n
            continue
        em = _emits(n)
        if not em or not ra.reachable(n.id):
            continue
        s = ra.at(n.id, var)
        if em[0] == "const" and em[1] in (76, 77, 78):
            k = {76: "pd1", 77: "pd2", 78: "pd4"}[em[1]]
            tiles[k] = tiles[k].union(s)
            nodes[k] = n
            # the following length field must have the matching width
            nxt = [cfg.nodes[b] for b, _ in cfg.succ[n.id]]
            w = [_emits(x) for x in nxt]
            want = {76: 1, 77: 2, 78: 4}[em[1]]
            if not (w and w[0] and w[0][0] == "len" and w[0][1] == want and w[0][2] == var):
                return [ctx.bad(spec, "opcode %d is not followed by a %d-byte length of `%s`" % (em[1], want, var), n.ast, mod, key="pd-width")]
        elif em[0] == "len" and em[2] == var:
            preds = [cfg.nodes[p] for p, _ in cfg.pred[n.id]]
            if all(p.kind == "test" for p in preds):
                tiles["direct"] = tiles["direct"].union(s)
                nodes["direct"] = n
    out = []
    want = {"direct": ISet.range(0, 75), "pd1": ISet.range(76, 255), "pd2": ISet.range(256, 520)}
    covered = tiles["direct"].union(tiles["pd1"]).union(tiles["pd2"]).union(tiles["pd4"])
    gap = ISet.range(0, 520).minus(covered)
    if not gap.is_empty():
        w = gap.witness()
        out.append(ctx.bad(spec, "a push of %d bytes is not serialisable: the chain on `%s` leaves the gap %s inside [0,520] (it reaches %s)" % (
            w, var, gap, "the raising arm" if tiles["raise"].contains(w) else "no arm"), (nodes.get("raise") or fn).ast if nodes.get("raise") else fn, mod,
            key="gap", detail={"tiles": {k: repr(v) for k, v in tiles.items()}}) if tiles["raise"].contains(w) else
            ctx.err(spec, "the statements that emit the push prefix for a length of %d were not recognised" % w, fn, mod))
    else:
        out.append(ctx.ok(spec, "push lengths [0,520] are covered: direct %s, PUSHDATA1 %s, PUSHDATA2 %s" % (tiles["direct"], tiles["pd1"], tiles["pd2"]), fn, mod, key="gap"))
    for k in ("direct", "pd1", "pd2"):
        t = tiles[k].intersect(ISet.range(0, 520))
        extra = t.minus(want[k])
        if not extra.is_empty():
            out.append(ctx.bad(spec, "length %d is written in %s form; the minimal form for it is %s" % (
                extra.witness(), k, next(kk for kk, vv in want.items() if vv.contains(extra.witness()))), nodes[k].ast if k in nodes else fn, mod, key="minimal-" + k))
        else:
            out.append(ctx.ok(spec, "%s form used only for lengths %s ⊆ %s" % (k, t, want[k]), nodes[k].ast if k in nodes else fn, mod, key="minimal-" + k))
    over = tiles["raise"].intersect(ISet.range(0, 520))
    if over.is_empty() and not tiles["raise"].is_empty():
        out.append(ctx.ok(spec, "the raising arm is reached only for lengths %s" % tiles["raise"], nodes["raise"].ast, mod, key="raise-tile"))
    elif tiles["raise"].is_empty():
        out.append(ctx.bad(spec, "no arm rejects pushes longer than 520 bytes", fn, mod, key="raise-tile"))
    elif gap.is_empty():
        out.append(ctx.bad(spec, "length %d ≤ 520 reaches the raising arm" % over.witness(), nodes["raise"].ast, mod, key="raise-tile"))
    return out


def _script_parse_cells(ctx):
    """Script.parse evaluated on the complete partition of the first byte: for every byte 0..255 a script that starts with it, followed by the
    data the byte announces (for 76 / 77 / 78 the 1 / 2 / 4-byte little-endian length with lengths on both sides of 75 / 255 / 520) and one more
    opcode, must parse to exactly [push | opcode, OP_1]; and a push that announces more bytes than the script holds must keep the raw bytes
    (Script.raw), so that the script re-serialises as it was.  None when outside the evaluator's subset"""
    from sa.cells import ClassRef, Evaluator, Obj, Raised, Undecided
    spec = "script:Script.parse"
    mod, fn = rl.get(ctx, spec)
    C = ClassRef("script", "Script")

    def data(n):
        return bytes((7 * i + 3) & 255 for i in range(n))
    cases = []
    for b in range(256):
        if 1 <= b <= 75:
            cases.append((bytes([b]) + data(b) + b"\x51", [data(b), 0x51], "direct push of %d bytes" % b))
        elif b == 76:
            for L in (0, 1, 75, 76, 255):
                cases.append((b"\x4c" + bytes([L]) + data(L) + b"\x51", [data(L), 0x51], "OP_PUSHDATA1 of %d bytes" % L))
        elif b == 77:
            for L in (0, 1, 255, 256, 520, 0x0201):
                cases.append((b"\x4d" + L.to_bytes(2, "little") + data(L) + b"\x51", [data(L), 0x51], "OP_PUSHDATA2 of %d bytes" % L))
        elif b == 78:
            for L in (0, 1, 300, 0x010203 % 70000):
                cases.append((b"\x4e" + L.to_bytes(4, "little") + data(L) + b"\x51", [data(L), 0x51], "OP_PUSHDATA4 of %d bytes" % L))
        else:
            cases.append((bytes([b]) + b"\x51", [b, 0x51], "opcode %#04x" % b))
    n = 0
    try:
        for raw, want, label in cases:
            n += 1
            try:
                r = Evaluator(ctx.repo, max_steps=2000000).call(spec, [], kwargs={"raw": raw}, self_obj=C)
            except Raised as x:
                return [ctx.bad(spec, "a script starting with a %s raises %s" % (label, x.name), fn, mod, key="parse-cells")]
            got = r.attrs.get("commands") if isinstance(r, Obj) else None
            if got != want:
                return [ctx.bad(spec, "a script starting with a %s followed by OP_1 parses to %s" % (
                    label, [c_.hex()[:16] + ("…" if len(c_) > 8 else "") if isinstance(c_, bytes) else c_ for c_ in got] if isinstance(got, list) else got), fn, mod, key="parse-cells")]
            if r.attrs.get("raw"):
                return [ctx.bad(spec, "a well-formed script starting with a %s is kept as raw bytes (the byte counter disagrees with its length)" % label, fn, mod, key="parse-cells")]
        for raw, label in ((b"\x05\xaa", "direct push of 5 with 1 byte left"), (b"\x4c\x09\xaa\xbb", "OP_PUSHDATA1 of 9 with 2 bytes left"),
                           (b"\x4d\x00\x01\xaa", "OP_PUSHDATA2 of 256 with 1 byte left"), (b"\x4e\x10\x00\x00\x00\xaa", "OP_PUSHDATA4 of 16 with 1 byte left")):
            n += 1
            try:
                r = Evaluator(ctx.repo, max_steps=2000000).call(spec, [], kwargs={"raw": raw}, self_obj=C)
            except Raised as x:
                return [ctx.bad(spec, "a script with a %s raises %s" % (label, x.name), fn, mod, key="parse-truncated")]
            if not isinstance(r, Obj) or r.attrs.get("raw") != raw:
                return [ctx.bad(spec, "a script with a %s does not keep its raw bytes: it re-serialises as a shorter push (different bytes, different txid)" % label, fn, mod,
                                key="parse-truncated")]
    except Undecided:
        return None
    ctx.count("cells", n)
    return [ctx.ok(spec, "%d scripts, one or more per first byte 0..255: direct pushes 1..75, 76/77/78 with 1/2/4-byte little-endian lengths, everything else an opcode" % (n - 4),
                   fn, mod, key="parse-cells"),
            ctx.ok(spec, "a push that announces more than the script holds keeps the raw bytes", fn, mod, key="parse-truncated")]


def c04_2(ctx):
    """reader dispatch: direct 1..75, 76/77/78 with 1/2/4-byte little-endian lengths"""
    ev = _script_parse_cells(ctx)
    if ev is not None:
        return ev
    spec = "script:Script.parse"
    mod, fn = rl.get(ctx, spec)
    cfg = cfg_of(fn)
    var = None
    for n in cfg.stmts(("stmt",)):
        a = n.ast
        if isinstance(a, ast.Assign) and isinstance(a.targets[0], ast.Name) and isinstance(a.value, ast.Subscript) and ast.unparse(a.value.slice) == "0":
            var = a.targets[0].id
    if var is None:
        raise AnalysisError("Script.parse: current byte variable not found")
    ra = Ranges(ctx.repo, mod, fn, {var: ISet.range(0, 255)}, types={var: ISet.range(0, 255)})
    if ra.uninterpreted:
        raise AnalysisError("Script.parse: %s" % ra.uninterpreted[0][1])
    got = {}
    direct = ISet.empty()
    opcode = ISet.empty()
    for n in cfg.stmts(("stmt",)):
        a = n.ast
        if not ra.reachable(n.id):
            continue
        s = ra.at(n.id, var)
        if isinstance(a, ast.Assign) and isinstance(a.value, ast.Call) and call_name(a.value) == "little_endian_to_int":
            inner = a.value.args[0]
            if isinstance(inner, ast.Call) and call_name(inner) == "read" and inner.args and isinstance(inner.args[0], ast.Constant):
                got[inner.args[0].value] = got.get(inner.args[0].value, ISet.empty()).union(s)
            elif isinstance(inner, ast.Call) and call_name(inner) == "read" and inner.args:
                # table-driven width: `width = {76: 1, 77: 2, 78: 4}[byte]`
                wex = expand(fn, n.id, inner.args[0], stop=(var,))
                tbl = Folder(ctx.repo, mod.name).fold(wex.value) if isinstance(wex, ast.Subscript) and isinstance(wex.slice, ast.Name) and wex.slice.id == var else None
                if isinstance(tbl, dict) and all(isinstance(k, int) and isinstance(w_, int) for k, w_ in tbl.items()):
                    for k, w_ in tbl.items():
                        if s.contains(k):
                            got[w_] = got.get(w_, ISet.empty()).union(ISet.point(k))
                    if not s.issubset(ISet.of(list(tbl.keys()))):
                        raise AnalysisError("Script.parse: length width table %s is indexed with bytes %s outside its keys" % (tbl, s))
                else:
                    # a width computed from the opcode byte (`1 << (byte - 76)`): evaluate it for every byte value that reaches this statement
                    vals = s.enumerate(16) if hasattr(s, "enumerate") else None
                    done = False
                    if vals is not None:
                        done = True
                        for k in vals:
                            w_ = Folder(ctx.repo, mod.name, env={var: k}).fold(wex)
                            if not isinstance(w_, int):
                                done = False
                                break
                            got[w_] = got.get(w_, ISet.empty()).union(ISet.point(k))
                    if not done:
                        raise AnalysisError("Script.parse: width of the length field `%s` not recognised" % ast.unparse(inner.args[0]))
        if isinstance(a, ast.Expr) and isinstance(a.value, ast.Call) and call_name(a.value) == "append" and a.value.args:
            arg = a.value.args[0]
            ex = expand(fn, n.id, arg, stop=(var,))
            if isinstance(ex, ast.Call) and call_name(ex) == "read" and ex.args and isinstance(ex.args[0], ast.Name) and ex.args[0].id == var:
                direct = direct.union(s)
            elif isinstance(ex, ast.Name) and ex.id == var:
                opcode = opcode.union(s)
    out = []
    # the consumed-byte counter advances by the *announced* length: a push that runs past the end of the script must leave
    # count != length so that the raw bytes are kept (Script.raw) and re-serialised as they were
    announced = set()
    for n in cfg.stmts(("stmt",)):
        a = n.ast
        if isinstance(a, ast.Assign) and isinstance(a.targets[0], ast.Name) and isinstance(a.value, ast.Call) and call_name(a.value) == "little_endian_to_int":
            announced.add(a.targets[0].id)
    cnt = None
    for t in cfg.tests():
        r_ = rl.rel(t.ast, lambda e: isinstance(e, ast.Name), lambda e: isinstance(e, ast.Name) and e.id == "length")
        if r_ and t.loops:
            cnt = t.ast.left.id if isinstance(t.ast.left, ast.Name) and t.ast.left.id != "length" else (t.ast.comparators[0].id if isinstance(t.ast.comparators[0], ast.Name) else None)
    if cnt and announced:
        for n in cfg.stmts(("stmt",)):
            a = n.ast
            if isinstance(a, ast.AugAssign) and isinstance(a.target, ast.Name) and a.target.id == cnt and isinstance(a.op, ast.Add) and ra.reachable(n.id) \
                    and not ra.at(n.id, var).intersect(ISet.range(76, 78)).is_empty() and not isinstance(a.value, ast.Constant):
                names = {x.id for x in ast.walk(a.value) if isinstance(x, ast.Name)}
                lens = [x for x in ast.walk(a.value) if isinstance(x, ast.Call) and call_name(x) == "len"]
                if names & announced and not lens:
                    out.append(ctx.ok(spec, "PUSHDATA arm advances the byte counter by the announced length (`%s`)" % ast.unparse(a), a, mod, key="count-announced:%d" % len(out)))
                elif lens:
                    out.append(ctx.bad(spec, "`%s` advances the byte counter by the number of bytes actually read: a PUSHDATA whose announced length runs past the end of the "
                                             "script is no longer noticed, the raw bytes are not kept, and the script re-serialises as a shorter push (different bytes and txid)" %
                                       ast.unparse(a), a, mod, key="count-announced"))
                else:
                    out.append(ctx.err(spec, "PUSHDATA arm: counter increment `%s` not recognised" % ast.unparse(a), a, mod))
    exp = {1: ISet.point(76), 2: ISet.point(77), 4: ISet.point(78)}
    for w, s in sorted(exp.items()):
        g = got.get(w, ISet.empty())
        if g == s:
            out.append(ctx.ok(spec, "opcode %s is followed by a %d-byte little-endian length" % (s, w), fn, mod, key="pd%d" % w))
        else:
            out.append(ctx.bad(spec, "a %d-byte length is read for opcode(s) %s, consensus: %s" % (w, g, s), fn, mod, key="pd%d" % w))
    if direct == ISet.range(1, 75):
        out.append(ctx.ok(spec, "bytes 1..75 push that many bytes", fn, mod, key="direct"))
    else:
        out.append(ctx.bad(spec, "direct push is taken for bytes %s, consensus: [1, 75]" % direct, fn, mod, key="direct"))
    want_op = ISet.range(0, 255).minus(ISet.range(1, 78))
    if opcode == want_op:
        out.append(ctx.ok(spec, "all other bytes %s are kept as opcodes" % opcode, fn, mod, key="opcodes"))
    else:
        out.append(ctx.bad(spec, "bytes kept as opcodes: %s, expected %s" % (opcode, want_op), fn, mod, key="opcodes"))
    return out


def c04_3(ctx):
    """compact size: writer tiles contiguous and minimal; reader tag→width equals writer's.  The interval reading of the encoder is the
    primary rule when the encoder is in a form it reads; otherwise (or when it reports on a form it reads only partly) the compact-size
    cells (every width boundary and its neighbours, evaluated) decide"""
    from rules.bitcodecs import varint_cells
    spec = "helper:encode_varint"
    try:
        out = _c04_3_struct(ctx)
    except AnalysisError as e:
        mod, fn = rl.get(ctx, spec)
        out = [ctx.err(spec, str(e), fn, mod) for _ in range(FLOORS["C04.3"])]
    return rl.defer(ctx, out, lambda: varint_cells(ctx), "decided by the compact-size cells (every width boundary and its neighbours: canonical form written, inverted by the reader); the encoder is not in the form the interval rule reads")


def _c04_3_struct(ctx):
    out = []
    spec = "helper:encode_varint"
    mod, fn = rl.get(ctx, spec)
    cfg = cfg_of(fn)
    var = param_names(fn)[0]
    ra = Ranges(ctx.repo, mod, fn, {var: ISet.range(0, None)})
    if ra.uninterpreted:
        raise AnalysisError("encode_varint: %s" % ra.uninterpreted[0][1])
    fold = Folder(ctx.repo, mod.name)
    wmap = {}
    tiles = []
    for n in cfg.returns():
        v = n.ast.value if n.ast is not None else None
        if v is None:
            continue
        s = ra.at(n.id, var)
        tagc = fold.fold(v.left) if isinstance(v, ast.BinOp) and isinstance(v.op, ast.Add) else None  # b"\xfd" or bytes([253]) or a named constant
        if isinstance(tagc, bytes) and len(tagc) == 1 and isinstance(v.right, ast.Call) and call_name(v.right) == "int_to_little_endian":
            w = fold.fold(v.right.args[1])
            tiles.append((s, tagc[0], w, n))
            wmap[tagc[0]] = w
        elif isinstance(v, ast.Call) and call_name(v) == "bytes":
            tiles.append((s, None, 1, n))
        elif tagc == b"" and isinstance(v.right, ast.Call) and call_name(v.right) in ("int_to_little_endian", "int_to_big_endian") and fold.fold(v.right.args[1]) == 1:
            tiles.append((s, None, 1, n))  # empty prefix + one byte: the tag-less form written through the codec helper
        elif isinstance(v, ast.Call) and call_name(v) in ("int_to_little_endian", "int_to_big_endian") and len(v.args) == 2 and fold.fold(v.args[1]) == 1:
            tiles.append((s, None, 1, n))
        else:
            raise AnalysisError("encode_varint: return form not recognised: %s" % ast.unparse(v))
    raise_set = ISet.empty()
    for n in cfg.nodes:
        if n.kind == "raise" and ra.reachable(n.id):
            raise_set = raise_set.union(ra.at(n.id, var))
    spec_tiles = {None: ISet.range(0, 0xFC), 0xFD: ISet.range(0xFD, 0xFFFF), 0xFE: ISet.range(0x10000, 0xFFFFFFFF), 0xFF: ISet.range(1 << 32, (1 << 64) - 1)}
    spec_w = {None: 1, 0xFD: 2, 0xFE: 4, 0xFF: 8}
    seen = set()
    for s, tag, w, n in tiles:
        seen.add(tag)
        if tag not in spec_tiles:
            out.append(ctx.bad(spec, "unknown compact-size tag 0x%02x" % tag, n.ast, mod, key="tag"))
            continue
        tagname = "none" if tag is None else "%02x" % tag
        if w != spec_w[tag]:
            out.append(ctx.bad(spec, "tag %s carries a %s-byte integer, protocol: %d" % (tagname, w, spec_w[tag]), n.ast, mod, key="width-" + tagname))
        elif s == spec_tiles[tag]:
            out.append(ctx.ok(spec, "tag %s ↔ values %s" % (tagname, s), n.ast, mod, key="tile-" + tagname))
        else:
            d = s.minus(spec_tiles[tag]).union(spec_tiles[tag].minus(s))
            out.append(ctx.bad(spec, "tag %s is used for values %s, protocol (minimal encoding): %s; e.g. %s" % (
                tagname, s, spec_tiles[tag], hex(d.witness())), n.ast, mod, key="tile-" + tagname))
    if seen != set(spec_tiles):
        out.append(ctx.bad(spec, "compact-size forms present: %s, expected none/fd/fe/ff" % sorted(str(x) for x in seen), fn, mod, key="forms"))
    if not raise_set.intersect(ISet.range(0, (1 << 64) - 1)).is_empty():
        out.append(ctx.bad(spec, "value %s < 2^64 is rejected" % hex(raise_set.intersect(ISet.range(0, (1 << 64) - 1)).witness()), fn, mod, key="overflow"))
    elif raise_set.is_empty():
        out.append(ctx.bad(spec, "values ≥ 2^64 are not rejected", fn, mod, key="overflow"))
    else:
        out.append(ctx.ok(spec, "values %s raise" % raise_set, fn, mod, key="overflow"))
    # reader
    rspec = "helper:read_varint"
    rmod, rfn = rl.get(ctx, rspec)
    rcfg = cfg_of(rfn)
    tagvar = None
    for n in rcfg.stmts(("stmt",)):
        a = n.ast
        if isinstance(a, ast.Assign) and isinstance(a.targets[0], ast.Name) and isinstance(a.value, ast.Subscript) and ast.unparse(a.value.slice) == "0":
            tagvar = a.targets[0].id
    if tagvar is None:
        raise AnalysisError("read_varint: tag variable not found")
    rr = Ranges(ctx.repo, rmod, rfn, {tagvar: ISet.range(0, 255)}, types={tagvar: ISet.range(0, 255)})
    rmap = {}
    plain = ISet.empty()
    table_keys = None
    for n in rcfg.returns():
        v = n.ast.value if n.ast is not None else None
        s = rr.at(n.id, tagvar)
        if isinstance(v, ast.Call) and call_name(v) == "little_endian_to_int" and isinstance(v.args[0], ast.Call) and call_name(v.args[0]) == "read":
            w = Folder(ctx.repo, rmod.name).fold(v.args[0].args[0])
            if not isinstance(w, int):
                # table-driven: width = {253: 2, 254: 4, 255: 8}.get(tag) / TABLE[tag]
                wex = expand(rfn, n.id, v.args[0].args[0], stop=(tagvar,))
                tb = None
                if isinstance(wex, ast.Call) and isinstance(wex.func, ast.Attribute) and wex.func.attr == "get" and wex.args and isinstance(wex.args[0], ast.Name) and wex.args[0].id == tagvar:
                    tb = Folder(ctx.repo, rmod.name).fold(wex.func.value)
                elif isinstance(wex, ast.Subscript) and isinstance(wex.slice, ast.Name) and wex.slice.id == tagvar:
                    tb = Folder(ctx.repo, rmod.name).fold(wex.value)
                if isinstance(tb, dict) and all(isinstance(k, int) and isinstance(x, int) for k, x in tb.items()):
                    for k, x in tb.items():
                        rmap[k] = x
                    table_keys = ISet.of(list(tb.keys()))
                    continue
                raise AnalysisError("read_varint: width `%s` not recognised" % ast.unparse(v.args[0].args[0]))
            if len(s.iv) == 1 and s.iv[0][0] == s.iv[0][1]:
                rmap[s.iv[0][0]] = w
            else:
                out.append(ctx.bad(rspec, "width %s is read for tag set %s (not a single tag)" % (w, s), n.ast, rmod, key="reader-tags"))
        elif isinstance(v, ast.Name) and v.id == tagvar:
            plain = plain.union(s)
        elif isinstance(v, ast.Call) and call_name(v) in ("little_endian_to_int", "big_endian_to_int"):
            raise AnalysisError("read_varint: return form not recognised")
    if "table_keys" in dir() and table_keys is not None and plain == ISet.range(0, 255):
        # `width = TABLE.get(tag); if width is None: return tag` : the literal tags are the bytes that are not keys
        none_guard = any(isinstance(t_.ast, ast.Compare) and isinstance(t_.ast.ops[0], (ast.Is, ast.IsNot)) for t_ in rcfg.tests())
        if none_guard:
            plain = ISet.range(0, 255).minus(table_keys)
    if rmap == {0xFD: 2, 0xFE: 4, 0xFF: 8} and plain == ISet.range(0, 0xFC):
        out.append(ctx.ok(rspec, "reader: fd→2, fe→4, ff→8 bytes little endian, tags 0..fc are the value", rfn, rmod, key="reader-map"))
    else:
        out.append(ctx.bad(rspec, "reader tag→width map %s with literal tags %s; protocol {fd:2, fe:4, ff:8}, literal [0,0xfc]" % (
            {hex(k): v for k, v in rmap.items()}, plain), rfn, rmod, key="reader-map"))
    if {k: v for k, v in wmap.items()} == rmap:
        out.append(ctx.ok("helper:encode_varint↔read_varint", "writer and reader agree on tag→width", fn, mod, key="agree"))
    else:
        out.append(ctx.bad("helper:encode_varint↔read_varint", "writer tag→width %s, reader %s" % (wmap, rmap), fn, mod, key="agree"))
    return out


PAIRS = [
    ("tx:Tx.serialize_legacy", "tx:Tx.parse_legacy", L.TX_LEGACY),
    ("tx:Tx.serialize_segwit", "tx:Tx.parse_segwit", L.TX_SEGWIT),
    ("tx:TxIn.serialize", "tx:TxIn.parse", L.TXIN),
    ("tx:TxOut.serialize", "tx:TxOut.parse", L.TXOUT),
    ("witness:Witness.serialize", "witness:Witness.parse", L.WITNESS),
    ("timelock:Locktime.serialize", "timelock:Locktime.parse", L.UINT32_LE_SELF),
    ("timelock:Sequence.serialize", "timelock:Sequence.parse", L.UINT32_LE_SELF),
]


def layout_pair(ctx, wspec, rspec, spec_shape, repo=None, key=None):
    repo = repo or ctx.repo
    wm, wf = repo.func(wspec)
    rm, rf = repo.func(rspec)
    ctx.note_fn(wm, wf)
    ctx.note_fn(rm, rf)
    ws, rs, d, wt, rt = pair(repo, wspec, rspec)
    ctx.count("layout_terms", len(ws) + len(rs))
    out = []
    k = key or wspec.split(":")[1]
    if d is None:
        out.append(ctx.ok(wspec + "↔" + rspec.split(":")[1], "writer %s ≡ reader" % fmt_shape(ws), wf, wm, key="wr:" + k))
    else:
        out.append(ctx.bad(wspec + "↔" + rspec.split(":")[1], "writer and reader disagree at %s; writer: %s; reader: %s" % (d, fmt_shape(ws), fmt_shape(rs)), wf, wm,
                           key="wr:" + k, detail={"writer": wt, "reader": rt}))
    if spec_shape is not None:
        d2 = diff(ws, spec_shape)
        if d2 is None:
            out.append(ctx.ok(wspec, "writer equals the published layout", wf, wm, key="spec:" + k))
        else:
            out.append(ctx.bad(wspec, "writer differs from the published layout at %s; writer: %s; specification: %s" % (d2, fmt_shape(ws), fmt_shape(spec_shape)), wf, wm, key="spec:" + k))
        d3 = diff(spec_shape, rs)
        if d3 is None:
            out.append(ctx.ok(rspec, "reader equals the published layout", rf, rm, key="rspec:" + k))
        else:
            out.append(ctx.bad(rspec, "reader differs from the published layout at %s; reader: %s; specification: %s" % (d3, fmt_shape(rs), fmt_shape(spec_shape)), rf, rm, key="rspec:" + k))
    return out


def _sniff_cells(ctx):
    """Tx.parse evaluated for every value 0..255 of the byte after the 4-byte version (and two values of the byte after it), with the two
    parsers as recording stand-ins: a zero marker hands the stream, rewound to its start, to parse_segwit; every other byte hands it, rewound
    to its start, to parse_legacy; the network argument is passed on.  None when outside the evaluator's subset"""
    from sa.cells import ClassRef, Evaluator, FileStandIn, Raised, Undecided
    spec = "tx:Tx.parse"
    mod, fn = rl.get(ctx, spec)
    calls = []

    def rec(which):
        def f(cls, s=None, *a, network="mainnet", **k):
            calls.append((which, getattr(s, "pos", None), network))
            return which
        return f
    hooks = {("Tx", "parse_segwit"): rec("segwit"), ("Tx", "parse_legacy"): rec("legacy")}
    try:
        for b5 in range(256):
            for b6 in (0x01, 0x00):
                for net in ("mainnet", "testnet"):
                    ctx.count("cells")
                    del calls[:]
                    stream = FileStandIn(b"\x02\x00\x00\x00" + bytes([b5, b6]) + bytes(20))
                    try:
                        r = Evaluator(ctx.repo, method_hooks=hooks).call(spec, [stream], kwargs={"network": net}, self_obj=ClassRef("tx", "Tx"))
                    except Raised as x:
                        return [ctx.bad(spec, "Tx.parse raises %s for a transaction whose fifth byte is %#04x" % (x.name, b5), fn, mod, key="sniff")]
                    want = ("segwit" if b5 == 0 else "legacy", 0, net)
                    if calls != [want] or r != want[0]:
                        return [ctx.bad(spec, "a transaction whose byte after the version is %#04x goes to %s (expected: %s parser, stream rewound to its start, network passed on)" % (
                            b5, calls or "no parser", want[0]), fn, mod, key="sniff")]
    except Undecided:
        return None
    return [ctx.ok(spec, "marker byte after the 4-byte version selects the segwit parser for 0x00 and the legacy parser for all 255 other values; stream rewound to its start", fn, mod,
                   key="sniff")]


def c04_4(ctx):
    out = []
    for w, r, sp in PAIRS:
        out += [x for x in layout_pair(ctx, w, r, None)]
    # Script.serialize = varstr(raw_serialize()); Script.parse(stream) reads a varstr first
    mod, fn = rl.get(ctx, "script:Script.serialize")
    t = WriterExec(ctx.repo, mod, fn, max_inline=0).run()
    if t and len(t) == 1 and t[0][0] == "varstr" and len(t[0][1]) == 1 and t[0][1][0][:2] == ("nested", "raw_serialize"):
        out.append(ctx.ok("script:Script.serialize", "compact-size length ‖ raw_serialize()", fn, mod, key="script-ser"))
    else:
        out.append(ctx.bad("script:Script.serialize", "layout is %s, expected varstr[raw_serialize]" % fmt_terms(t or []), fn, mod, key="script-ser"))
    mod, fn = rl.get(ctx, "script:Script.parse")
    sites = rl.find_calls(fn, "read_varstr")
    if sites:
        out.append(ctx.ok("script:Script.parse", "the stream form reads a compact-size-prefixed string", sites[0][1], mod, key="script-parse"))
    else:
        out.append(ctx.bad("script:Script.parse", "the stream form does not read a compact-size-prefixed string", fn, mod, key="script-parse"))
    # Tx.parse sniffing: byte 5 == 0 -> segwit
    mod, fn = rl.get(ctx, "tx:Tx.parse")
    ev = _sniff_cells(ctx)
    if ev is not None:
        return out + ev
    cfg = cfg_of(fn)
    ok = False
    wrong_sel = False
    for n in cfg.tests():
        t = expand(fn, n.id, n.ast, depth=3)
        neg = False
        if isinstance(t, ast.UnaryOp) and isinstance(t.op, ast.Not):
            t, neg = t.operand, True
        if isinstance(t, ast.Compare) and len(t.ops) == 1 and isinstance(t.ops[0], (ast.Eq, ast.NotEq)) and any(isinstance(x, ast.Constant) and x.value in (b"\x00", 0) for x in (t.left, t.comparators[0])):
            # the edge on which the marker byte is zero must select parse_segwit (as an assignment or as the call itself)
            lab = isinstance(t.ops[0], ast.Eq) != neg
            for b, l in cfg.succ[n.id]:
                a = cfg.nodes[b].ast
                txt = ast.unparse(a) if a is not None else ""
                if l == lab and "parse_segwit" in txt:
                    ok = True
                elif l == lab and "parse_legacy" in txt:
                    wrong_sel = True
    reads = [Folder(ctx.repo, mod.name).fold(c.args[0]) for n, c in sorted(rl.find_calls(fn, "read"), key=lambda x: (x[0].lineno, x[1].col_offset)) if c.args]
    seeks = [Folder(ctx.repo, mod.name).fold(c.args[0]) for n, c in rl.find_calls(fn, "seek") if c.args]
    if ok and reads == [4, 1] and seeks == [-5]:
        out.append(ctx.ok("tx:Tx.parse", "marker byte after the 4-byte version selects the segwit parser; stream rewound by 5", fn, mod, key="sniff"))
    elif wrong_sel or (ok and (reads != [4, 1] or seeks != [-5]) and all(isinstance(x, int) for x in reads + seeks)):
        out.append(ctx.bad("tx:Tx.parse", "segwit sniffing: reads %s, seek %s, zero marker selects %s (expected reads [4,1], seek [-5], parse_segwit)" % (
            reads, seeks, "parse_legacy" if wrong_sel else "parse_segwit"), fn, mod, key="sniff"))
    else:
        out.append(ctx.err("tx:Tx.parse", "segwit sniffing idiom not recognised (reads %s, seek %s)" % (reads, seeks), fn, mod))
    return out


def c04_5(ctx):
    out = []
    for w, r, sp in PAIRS:
        out += [x for x in layout_pair(ctx, w, r, sp) if x.key.startswith(("spec:", "rspec:"))]
    return out


def c04_6(ctx):
    """NONINT: txid read-set"""
    eff = Effects(ctx.repo)
    out = []
    must = {("Tx", "version"), ("Tx", "tx_ins"), ("Tx", "tx_outs"), ("Tx", "locktime"), ("TxIn", "prev_tx"), ("TxIn", "prev_index"),
            ("TxIn", "script_sig"), ("TxIn", "sequence"), ("TxOut", "amount"), ("TxOut", "script_pubkey")}
    forbid_attrs = {"witness", "segwit", "items"}
    for spec in ("tx:Tx.hash", "tx:Tx.id"):
        mod, fn = rl.get(ctx, spec)
        rs = eff.reads(spec)
        ctx.count("call_sites", eff.resolved)
        bad = sorted(r for r in rs if r[1] in forbid_attrs and r[0] in ("Tx", "TxIn", "Witness"))
        risky = [u for u in eff.unresolved if any(k in u for k in ("serialize", "witness"))]
        if bad:
            out.append(ctx.bad(spec, "the transaction id depends on witness data: transitive read-set contains %s" % bad, fn, mod, key="reads-witness"))
        elif risky:
            out.append(ctx.err(spec, "unresolved serializer call on the txid path: %s" % risky[0], fn, mod))
        else:
            out.append(ctx.ok(spec, "read-set (%d attributes) excludes witness/segwit" % len(rs), fn, mod, key="reads-witness"))
        missing = sorted(must - rs)
        if missing:
            out.append(ctx.bad(spec, "the transaction id does not depend on %s" % missing, fn, mod, key="reads-all"))
        else:
            out.append(ctx.ok(spec, "read-set includes every non-witness field", fn, mod, key="reads-all"))
    # shape: hash256(...)[::-1]
    mod, fn = rl.get(ctx, "tx:Tx.hash")
    t = WriterExec(ctx.repo, mod, fn, max_inline=0).run()
    good = t and len(t) == 1 and t[0][0] == "slice" and t[0][1] == "::-1" and t[0][2][0][0] == "hash" and t[0][2][0][1] == "hash256" \
        and t[0][2][0][2] and t[0][2][0][2][0][:2] == ("nested", "serialize_legacy")
    if good:
        out.append(ctx.ok("tx:Tx.hash", "hash256(serialize_legacy())[::-1]", fn, mod, key="shape"))
    else:
        out.append(ctx.bad("tx:Tx.hash", "txid is computed as %s, expected hash256(serialize_legacy())[::-1]" % fmt_terms(t or []), fn, mod, key="shape"))
    return out


def c04_7(ctx):
    """fetcher integrity: cache store dominated by id check"""
    spec = "tx:TxFetcher.fetch"
    mod, fn = rl.get(ctx, spec)
    idp = param_names(fn)[1]

    def store_target(a):
        """the `<x>.cache[key]` target of an assignment (also inside a chained `t = cls.cache[k] = v`)"""
        if isinstance(a, ast.Assign):
            for t in a.targets:
                if isinstance(t, ast.Subscript) and (dotted(t.value) or "").endswith(".cache"):
                    return t
        return None

    def is_store(n):
        return store_target(n.ast) is not None

    def targets(m, f):
        return [n for n in cfg_of(f).stmts(("stmt",)) if is_store(n)]

    def match(node, ex, atoms):
        t = node.ast
        if isinstance(t, ast.Compare) and len(t.ops) == 1 and isinstance(t.ops[0], (ast.Eq, ast.NotEq)):
            l, r = t.left, t.comparators[0]
            for a, b in ((l, r), (r, l)):
                if isinstance(a, ast.Name) and a.id == idp:
                    ob = origins(fn, node.id, b)
                    if ("call:hash256" in ob or "call:id" in ob or "call:hash" in ob) and not (isinstance(b, ast.Name) and b.id == idp):
                        return BAD_TRUE if isinstance(t.ops[0], ast.NotEq) else BAD_FALSE
        return None
    out = [rl.guard(ctx, spec, match, targets=targets, what="a fetched transaction is cached only after its recomputed id equals the requested id", key="server-lied")]
    # the stored object is the parsed transaction whose id was computed
    cfg = cfg_of(fn)
    for n in targets(mod, fn):
        vo = origins(fn, n.id, n.ast.value)
        if "call:parse" in vo:
            out.append(ctx.ok(spec, "the cached value is the parsed response", n.ast, mod, key="stored"))
        else:
            out.append(ctx.bad(spec, "the cached value `%s` is not the parsed response" % ast.unparse(n.ast.value), n.ast, mod, key="stored"))
    # the key of the store is the requested id
    for n in targets(mod, fn):
        k = store_target(n.ast).slice
        if isinstance(k, ast.Name) and k.id == idp:
            out.append(ctx.ok(spec, "cache key is the requested id", n.ast, mod, key="store-key"))
        else:
            out.append(ctx.bad(spec, "cache key `%s` is not the requested id" % ast.unparse(k), n.ast, mod, key="store-key"))
    # returns only hand out cache[tx_id]
    for n in cfg.returns():
        v = n.ast.value if n.ast is not None else None
        if v is not None:
            v = expand(fn, n.id, v)
        if isinstance(v, ast.Subscript) and (dotted(v.value) or "").endswith(".cache") and isinstance(v.slice, ast.Name) and v.slice.id == idp:
            out.append(ctx.ok(spec, "returns the cache entry of the requested id", n.ast, mod, key="return"))
        elif v is not None:
            # returning a local: must be dominated by the same guard
            r = rl.guard(ctx, spec, match, targets=lambda m, f, n=n: [n], what="returned transaction passed the id check", key="return")
            out.append(r)
    return out


def c04_8(ctx):
    """COUNT: every count prefix is followed by a loop over the same sequence emitting exactly one item per element"""
    out = []
    for spec in ("tx:Tx.serialize_legacy", "tx:Tx.serialize_segwit", "witness:Witness.serialize"):
        mod, fn = rl.get(ctx, spec)
        t = WriterExec(ctx.repo, mod, fn).run()
        sh = writer_shape(ctx.repo, mod, fn, t)
        counts = [(i, e) for i, e in enumerate(sh) if e[0] in ("count", "varint")]
        if not counts:
            raise AnalysisError("%s: no count prefix found" % spec)
        for i, e in counts:
            nxt = sh[i + 1] if i + 1 < len(sh) else None
            if e[0] == "count" and nxt and nxt[0] == "repeat" and nxt[1] == e[1] and len(nxt[2]) == 1 and nxt[2][0][0] in ("nested", "varstr"):
                out.append(ctx.ok(spec, "count of `%s` is followed by one item per element" % e[1], fn, mod, key="count:" + str(e[1])))
            else:
                out.append(ctx.bad(spec, "count prefix %s is not followed by a loop emitting one item per element of the same sequence (next: %s)" % (
                    fmt_shape([e]), fmt_shape([nxt]) if nxt else None), fn, mod, key="count:" + str(e[1])))
    return out


def _shape_pools(repo):
    """(opcode values, push lengths, command counts) that the template predicates and typed constructors of script.py
    compare against, plus one fresh member of each (the cell "none of the constants")"""
    m = repo.module("script")
    ops, lens, counts = set(), set(), set()
    for qn, fn in m.functions.items():
        c, _, name = qn.rpartition(".")
        if not (name.startswith("is_") or name == "__init__" or (c == "ScriptPubKey" and name == "parse")):
            continue
        for n in ast.walk(fn):
            if isinstance(n, ast.Compare) and len(n.ops) == 1:
                a, b = n.left, n.comparators[0]
                for x, y in ((a, b), (b, a)):
                    if isinstance(y, ast.Constant) and type(y.value) is int and 0 <= y.value <= 0xFF:
                        if isinstance(x, ast.Call) and call_name(x) == "len":
                            (counts if "commands" in ast.unparse(x) and "[" not in ast.unparse(x) else lens).add(y.value)
                        else:
                            ops.add(y.value)
                    elif isinstance(y, (ast.Tuple, ast.List, ast.Set)):
                        for el in y.elts:
                            if isinstance(el, ast.Constant) and type(el.value) is int and 0 <= el.value <= 0xFF:
                                (lens if isinstance(x, ast.Call) and call_name(x) == "len" else ops).add(el.value)
            elif isinstance(n, ast.List):
                for el in n.elts:
                    if isinstance(el, ast.Constant) and type(el.value) is int and 0 <= el.value <= 0xFF:
                        ops.add(el.value)
    # template tables written as module-level constants: `(0x76, 0xA9, Push(20), 0x88, 0xAC)`, `{"p2wpkh": (0, 20)}` ...
    for name, node in m.constants.items():
        for n in ast.walk(node):
            if isinstance(n, (ast.Tuple, ast.List)):
                ints = [el.value for el in n.elts if isinstance(el, ast.Constant) and type(el.value) is int and 0 <= el.value <= 0xFF]
                calls = [el for el in n.elts if isinstance(el, ast.Call) and len(el.args) == 1 and isinstance(el.args[0], ast.Constant) and type(el.args[0].value) is int]
                if calls:
                    ops.update(ints)
                    lens.update(c.args[0].value for c in calls if 0 <= c.args[0].value <= 0xFF)
                    counts.add(len(n.elts))
    # the standard templates themselves (BIP13 / BIP141 / BIP341): the cells of the specification are always among those evaluated
    ops |= {0x00, 0x51, 0x76, 0xA9, 0x87, 0x88, 0xAC}
    lens |= {20, 32}
    counts |= {2, 3, 5}
    fresh_op = next(v for v in (0x61, 0x6A, 0x52, 0x75) + tuple(range(1, 256)) if v not in ops)
    fresh_len = next(v for v in (33, 21, 31, 19, 64) if v not in lens)
    fresh_count = next(v for v in range(1, 9) if v not in counts)
    return sorted(ops) + [fresh_op], sorted(lens) + [fresh_len], sorted(counts) + [fresh_count]


def c04_9(ctx):
    """ScriptPubKey.parse re-types a parsed script into a template class only when the commands are exactly that template:
    the object returned must carry the command list that was read (cell evaluation over every combination of the opcode
    values / push lengths / command counts the code compares against, one representative of "anything else" each)"""
    import itertools

    from sa.cells import Evaluator, Obj, Raised, Undecided
    spec = "script:ScriptPubKey.parse"
    mod, fn = rl.get(ctx, spec)
    inner = [c for c in ast.walk(fn) if isinstance(c, ast.Call) and isinstance(c.func, ast.Attribute) and c.func.attr in ("parse", "raw_parse")
             and (ast.unparse(c.func.value) in ("super()", "Script") or ast.unparse(c.func.value).startswith("super("))]
    if len(inner) != 1:
        raise AnalysisError("ScriptPubKey.parse: the call that reads the generic script was not found")
    ops, lens, counts = _shape_pools(ctx.repo)
    items = list(ops) + [bytes(n) for n in lens]
    shapes = []
    for n in counts:
        if n <= 3:
            shapes += [list(t) for t in itertools.product(items, repeat=n)]
    # longer templates: every list literal of a typed constructor with up to two positions replaced
    tmpl = []
    for qn, f in ctx.repo.module("script").functions.items():
        if qn.endswith("ScriptPubKey.__init__"):
            for lst in ast.walk(f):
                if isinstance(lst, ast.List) and len(lst.elts) > 3:
                    tmpl.append([el.value if isinstance(el, ast.Constant) else None for el in lst.elts])
    for t in tmpl:
        holes = [i for i, v in enumerate(t) if v is None]
        for fill in itertools.product([bytes(n) for n in lens], repeat=len(holes)):
            base = list(t)
            for i, v in zip(holes, fill):
                base[i] = v
            shapes.append(base)
            for i in range(len(base)):
                for v in items:
                    if v != base[i]:
                        b2 = list(base)
                        b2[i] = v
                        shapes.append(b2)
            shapes.append(base + [ops[-1]])
    key = ast.unparse(inner[0])
    bad = None
    retyped = set()
    for sh in shapes:
        src = Obj("script", "ScriptPubKey", {"commands": list(sh)})
        ev = Evaluator(ctx.repo, hooks={key: src})
        ctx.count("cells")
        try:
            res = ev.call(spec, [None], self_obj=__import__("sa.cells", fromlist=["ClassRef"]).ClassRef("script", "ScriptPubKey"))
        except Undecided as u:
            return [ctx.err(spec, "re-typing dispatch not evaluable on %s: %s" % (_shape_txt(sh), u), fn, mod)]
        except Raised as r:
            bad = (sh, "raises %s" % r.name)
            break
        if not isinstance(res, Obj) or "commands" not in res.attrs:
            return [ctx.err(spec, "re-typing dispatch returns %r on %s" % (res, _shape_txt(sh)), fn, mod)]
        if res.cls != "ScriptPubKey":
            retyped.add(res.cls)
        if res.attrs["commands"] != list(sh) or [type(x) for x in res.attrs["commands"]] != [type(x) for x in sh]:
            bad = (sh, "is returned as %s with commands %s" % (res.cls, _shape_txt(res.attrs["commands"])))
            break
    if bad:
        return [ctx.bad(spec, "a script with commands %s %s: the output script re-serialises to different bytes (and a different txid)" % (
            _shape_txt(bad[0]), bad[1]), fn, mod, key="retype", detail={"witness_commands": _shape_txt(bad[0])})]
    if len(retyped) < 3:
        raise AnalysisError("ScriptPubKey.parse: fewer than 3 template classes reached (%s)" % sorted(retyped))
    return [ctx.ok(spec, "all %d command-list cells (opcodes %s, push lengths %s, counts %s) come back with the commands that were read; template classes reached: %s" % (
        len(shapes), [hex(o) for o in ops], lens, counts, ", ".join(sorted(retyped))), fn, mod, key="retype")]


def _shape_txt(sh):
    return "[" + ", ".join(hex(x) if isinstance(x, int) else "<%d bytes>" % len(x) if isinstance(x, bytes) else repr(x) for x in sh) + "]"


def helper_codec_faithful(ctx):
    """the four integer codec helpers every layout rule treats as primitives really are `n.to_bytes(length, order)` /
    `int.from_bytes(b, order)` of their own arguments: unsigned, exact width, raising when the value does not fit"""
    out = []
    for name, order in (("int_to_little_endian", "little"), ("int_to_big_endian", "big")):
        spec = "helper:" + name
        mod, fn = rl.get(ctx, spec)
        ps = param_names(fn)
        rets = [r for r in ast.walk(fn) if isinstance(r, ast.Return) and r.value is not None]
        for r in rets:
            v = r.value
            ok = isinstance(v, ast.Call) and isinstance(v.func, ast.Attribute) and v.func.attr == "to_bytes"
            if ok and isinstance(v.func.value, ast.Name) and v.func.value.id == ps[0] and len(v.args) == 2 and isinstance(v.args[0], ast.Name) and v.args[0].id == ps[1] \
                    and isinstance(v.args[1], ast.Constant) and v.args[1].value == order and not any(k.arg == "signed" for k in v.keywords):
                out.append(ctx.ok(spec, "returns %s.to_bytes(%s, %r)" % (ps[0], ps[1], order), r, mod, key="codec:" + name))
            elif ok and isinstance(v.func.value, ast.BinOp) and isinstance(v.func.value.op, (ast.BitAnd, ast.Mod)):
                out.append(ctx.bad(spec, "`%s` reduces the value to the field width before encoding it: a value that does not fit (a port of 65536+8333, a 5-byte amount in a "
                                         "4-byte field) is silently written as another number instead of raising" % ast.unparse(v), r, mod, key="codec:" + name))
            elif ok and isinstance(v.args[1] if len(v.args) > 1 else None, ast.Constant) and v.args[1].value != order:
                out.append(ctx.bad(spec, "`%s` encodes %s-endian" % (ast.unparse(v), v.args[1].value), r, mod, key="codec:" + name))
            elif ok and any(k.arg == "signed" for k in v.keywords):
                out.append(ctx.bad(spec, "`%s` is a signed encoding: values >= 2^(8*length-1) no longer fit" % ast.unparse(v), r, mod, key="codec:" + name))
            else:
                out.append(ctx.err(spec, "`%s` not recognised as %s.to_bytes(%s, %r)" % (ast.unparse(v), ps[0], ps[1], order), r, mod))
    for name, order in (("little_endian_to_int", "little"), ("big_endian_to_int", "big")):
        spec = "helper:" + name
        mod, fn = rl.get(ctx, spec)
        ps = param_names(fn)
        for r in [r for r in ast.walk(fn) if isinstance(r, ast.Return) and r.value is not None]:
            v = r.value
            if isinstance(v, ast.Call) and ast.unparse(v.func) == "int.from_bytes" and len(v.args) == 2 and isinstance(v.args[0], ast.Name) and v.args[0].id == ps[0] \
                    and isinstance(v.args[1], ast.Constant) and v.args[1].value == order and not v.keywords:
                out.append(ctx.ok(spec, "returns int.from_bytes(%s, %r)" % (ps[0], order), r, mod, key="codec:" + name))
            elif isinstance(v, ast.Call) and ast.unparse(v.func) == "int.from_bytes" and any(k.arg == "signed" for k in v.keywords):
                out.append(ctx.bad(spec, "`%s` decodes two's complement: values with the top bit set come back negative" % ast.unparse(v), r, mod, key="codec:" + name))
            elif isinstance(v, ast.Call) and ast.unparse(v.func) == "int.from_bytes" and len(v.args) == 2 and isinstance(v.args[1], ast.Constant) and v.args[1].value != order:
                out.append(ctx.bad(spec, "`%s` decodes %s-endian" % (ast.unparse(v), v.args[1].value), r, mod, key="codec:" + name))
            else:
                out.append(ctx.err(spec, "`%s` not recognised as int.from_bytes(%s, %r)" % (ast.unparse(v), ps[0], order), r, mod))
    if len(out) < 4:
        raise AnalysisError("helper codecs: fewer than four return statements found")
    # int_to_byte: exactly the byte range
    spec = "helper:int_to_byte"
    if ctx.repo.has_func(spec):
        mod, fn = rl.get(ctx, spec)
        out += rl.accept_set(ctx, spec, [param_names(fn)[0]], ISet.range(0, 255), targets="returns", prefer=(255, 256, -1, 0), exact=True)
    return out


def c04_11(ctx):
    return helper_codec_faithful(ctx)


def c04_10(ctx):
    """DOMAIN of the constructors behind the codec: every value the wire format can carry can be held -- TxOut amounts over the
    whole 8-byte field [0, 2^64-1], TxIn sequence and index over [0, 2^32-1].  A policy bound in a constructor (MAX_MONEY)
    makes canonically encoded transactions unparseable"""
    out = []
    for spec, pname, need, label in (("tx:TxOut.__init__", "amount", ISet.range(0, (1 << 64) - 1), "amount"),
                                     ("tx:TxIn.__init__", "prev_index", ISet.range(0, (1 << 32) - 1), "previous output index")):
        mod, fn = rl.get(ctx, spec)
        if pname not in param_names(fn):
            out.append(ctx.err(spec, "parameter `%s` not found" % pname, fn, mod))
            continue
        ra = Ranges(ctx.repo, mod, fn, {pname: ISet.top()})
        cfg = cfg_of(fn)
        exits = [n.id for n in cfg.returns()]
        acc = ra.union_at(exits, pname)
        if need.issubset(acc):
            out.append(ctx.ok(spec, "every %s in %s reaches the end of the constructor" % (label, need.describe({})), fn, mod, key="domain:" + pname))
        elif ra.uninterpreted:
            out.append(ctx.err(spec, "cannot decide the accepted %s: %s" % (label, ra.uninterpreted[0][1]), fn, mod))
        else:
            w = need.minus(acc).witness(((1 << 64) - 1, (1 << 32) - 1, 0))
            out.append(ctx.bad(spec, "%s = %s is refused (accepted: %s) although the wire field can carry it: a canonically encoded transaction with it cannot be "
                                     "parsed or built" % (label, w, acc.describe({})), fn, mod, key="domain:" + pname, detail={"witness_value": str(w)}))
    return out


def c04_12(ctx):
    """MEMO: no method of the modules this property is anchored in answers from a value remembered from an earlier argument or an
    earlier state of the object (confirmed caches of the reference tree: sa/memo.py CONFIRMED_CACHES)"""
    from sa.memo import cache_obligation
    return cache_obligation(ctx, ["tx", "script", "witness", "helper", "timelock"], "a serialisation or id computed once would be returned after the transaction was edited")


def c04_13(ctx):
    """SET-ORDER: no ordered result (list, serialisation, yielded sequence) of the modules this property is anchored in takes its
    order from the iteration order of a set"""
    from sa.setorder import setorder_obligation
    return setorder_obligation(ctx, ["tx", "script", "witness", "helper", "timelock"], "the same inputs give different output from run to run")


def c04_14(ctx):
    """SHARED necessary conditions over the modules this property is anchored in: FALSY-DEFAULT, MUTABLE-DEFAULT, IDENTITY, ALIAS,
    CTOR-FORWARD (sa/shared.py)"""
    from sa.shared import shared_obligations
    return shared_obligations(ctx, ["tx", "script", "witness", "helper", "timelock"], "the result would depend on something other than the arguments and the object's current state")


def c04_15(ctx):
    """the 4-byte fields of a transaction take every value 0 .. 2^32 - 1: the Locktime and Sequence constructors accept exactly that
    range (a transaction with locktime or sequence ffffffff can be parsed and built; nothing wider is written into 4 bytes)"""
    out = []
    for spec in ("timelock:Locktime.__new__", "timelock:Sequence.__new__"):
        mod, fn = rl.get(ctx, spec)
        p = param_names(fn)[1]
        out += rl.accept_set(ctx, spec, [p], ISet.range(0, 0xFFFFFFFF), targets="returns", prefer=(0xFFFFFFFF, 0x100000000, -1, 0), exact=True,
                             what="%s value `%s`" % (spec.split(":")[1].split(".")[0].lower(), p))
    return out


def c04_16(ctx):
    """a witness stack survives serialise / parse whatever the size of its items (consensus bounds what a script may *use*, not what a
    transaction may carry; the id and the bytes of such a transaction must still be reproducible): Witness.serialize and Witness.parse
    evaluated on stacks with items of 0, 1, 75, 252, 253, 520, 521, 10000, 10001, 65535, 65536 and 70000 bytes -- bounded in the size"""
    from sa.cells import ClassRef, Evaluator, FileStandIn, Obj, Raised, Undecided
    spec_w, spec_r = "witness:Witness.serialize", "witness:Witness.parse"
    mod, fn = rl.get(ctx, spec_r)
    hooks = {("Witness", "__init__"): lambda o, items=None, *a, **k: o.attrs.update({"items": list(items or [])})}
    try:
        for size in (0, 1, 75, 252, 253, 520, 521, 10000, 10001, 65535, 65536, 70000):
            ctx.count("cells")
            items = [b"\x30" * 71, bytes([size & 0xFF]) * size]
            me = Obj("witness", "Witness", {"items": list(items)})
            try:
                raw = Evaluator(ctx.repo, max_steps=400000).call(spec_w, [], self_obj=me)
            except Raised as x:
                return [ctx.bad(spec_w, "a witness with an item of %d bytes cannot be serialised (%s)" % (size, x.name), fn, mod, key="witness-roundtrip")]
            st = FileStandIn(raw + b"REST")
            try:
                back = Evaluator(ctx.repo, method_hooks=hooks, max_steps=400000).call(spec_r, [st], self_obj=ClassRef("witness", "Witness"))
            except Raised as x:
                return [ctx.bad(spec_r, "a witness with an item of %d bytes, as Witness.serialize writes it, is refused by Witness.parse (%s): the transaction cannot be "
                                        "parsed back, so neither its bytes nor its id are reproducible" % (size, x.name), fn, mod, key="witness-roundtrip")]
            if not isinstance(back, Obj) or back.attrs.get("items") != items or st.pos != len(raw):
                return [ctx.bad(spec_r, "parse(serialize(w)) differs from w for an item of %d bytes" % size, fn, mod, key="witness-roundtrip")]
    except Undecided as u:
        return [ctx.err(spec_r, "witness codec not evaluable: %s" % u, fn, mod)]
    return [ctx.ok(spec_r, "parse(serialize(w)) = w for item sizes up to 70000 bytes (12 sizes around the compact-size and script limits)", fn, mod, key="witness-roundtrip")]


def c04_17(ctx):
    """ScriptPubKey.parse on the five standard templates with ARBITRARY hash / program bytes (all zero, all 0xff, the field prime, a value that is
    not the x coordinate of a curve point, mixed): an output script is 20 or 32 opaque bytes inside a template -- consensus puts no condition
    on them -- so every such script parses to its template class and re-serialises to the same bytes.  A constructor that validates the
    bytes (as a key, as a field element) makes a canonically encoded transaction with such an output unparseable"""
    from sa.cells import ClassRef, Evaluator, FileStandIn, Obj, Raised, Undecided
    spec = "script:ScriptPubKey.parse"
    mod, fn = rl.get(ctx, spec)
    P_ = 2 ** 256 - 2 ** 32 - 977
    pats32 = [bytes(32), b"\xff" * 32, P_.to_bytes(32, "big"), (P_ - 1).to_bytes(32, "big"), (5).to_bytes(32, "big"), bytes(range(1, 33))]
    pats20 = [bytes(20), b"\xff" * 20, bytes(range(1, 21))]
    templates = [("p2pkh", lambda h: b"\x76\xa9\x14" + h + b"\x88\xac", pats20, "P2PKHScriptPubKey"), ("p2sh", lambda h: b"\xa9\x14" + h + b"\x87", pats20, "P2SHScriptPubKey"),
                 ("p2wpkh", lambda h: b"\x00\x14" + h, pats20, "P2WPKHScriptPubKey"), ("p2wsh", lambda h: b"\x00\x20" + h, pats32, "P2WSHScriptPubKey"),
                 ("p2tr", lambda h: b"\x51\x20" + h, pats32, "P2TRScriptPubKey")]
    n = 0
    try:
        for label, mk, pats, clsname in templates:
            for h in pats:
                n += 1
                raw = mk(h)
                try:
                    ev = Evaluator(ctx.repo, max_steps=3000000)
                    r = ev.call(spec, [FileStandIn(bytes([len(raw)]) + raw)], self_obj=ClassRef("script", "ScriptPubKey"))
                    back = ev.call("script:Script.raw_serialize", [], self_obj=r)
                except Raised as x:
                    return [ctx.bad(spec, "the %s output script %s (hash / program bytes %s…) cannot be parsed or re-serialised (%s): a canonically encoded transaction "
                                          "with this output does not round-trip, and the script has no address" % (label, raw.hex()[:20] + "…", h.hex()[:16], x.name), fn, mod, key="template-opaque")]
                if not isinstance(r, Obj) or r.cls != clsname or back != raw:
                    return [ctx.bad(spec, "the %s output script with hash / program bytes %s… parses to %s and re-serialises to %s" % (
                        label, h.hex()[:16], r.cls if isinstance(r, Obj) else r, back.hex()[:24] if isinstance(back, bytes) else back), fn, mod, key="template-opaque")]
        # near misses: a script in which a DATA ELEMENT stands where the template has an opcode (an element of N bytes where opcode N belongs:
        # an empty PUSHDATA1 element for OP_0, an 81-byte element for OP_1, elements of 0xa9 / 0x87 bytes for HASH160 / EQUAL) is not that
        # template: it must not be given the template's class -- and with it the template's address
        h20, h32 = bytes(range(1, 21)), bytes(range(1, 33))
        near = [("an empty PUSHDATA1 element where p2wpkh has OP_0", b"\x4c\x00\x14" + h20, "P2WPKHScriptPubKey"),
                ("an empty PUSHDATA1 element where p2wsh has OP_0", b"\x4c\x00\x20" + h32, "P2WSHScriptPubKey"),
                ("an 81-byte element where p2tr has OP_1", b"\x4c\x51" + bytes(81) + b"\x20" + h32, "P2TRScriptPubKey"),
                ("elements of 0xa9 and 0x87 bytes where p2sh has HASH160 and EQUAL", b"\x4c\xa9" + bytes(0xA9) + b"\x14" + h20 + b"\x4c\x87" + bytes(0x87), "P2SHScriptPubKey")]
        for what, raw, clsname in near:
            n += 1
            try:
                pre = bytes([len(raw)]) if len(raw) < 0xFD else b"\xfd" + len(raw).to_bytes(2, "little")
                r = Evaluator(ctx.repo, max_steps=3000000).call(spec, [FileStandIn(pre + raw)], self_obj=ClassRef("script", "ScriptPubKey"))
            except Raised:
                continue   # refusing it is also not mistaking it
            if isinstance(r, Obj) and r.cls == clsname:
                return [ctx.bad(spec, "a script with %s parses to %s: it would get the address of a script it is not" % (what, clsname), fn, mod, key="template-opaque")]
    except Undecided as u:
        return [ctx.err(spec, "ScriptPubKey.parse not evaluable: %s" % u, fn, mod)]
    ctx.count("cells", n)
    return [ctx.ok(spec, "%d (template, bytes) cells: every template-shaped script parses to its class and re-serialises unchanged, whatever its 20 / 32 bytes are" % n, fn, mod,
                   key="template-opaque")]



def c04_18(ctx):
    """compact-size integers and strings on every width boundary: canonical form written, inverse read (rules/bitcodecs.py varint_cells)"""
    from rules.bitcodecs import try_cells, varint_cells
    r = try_cells(varint_cells, ctx)
    if r is None:
        mod, fn = rl.get(ctx, "helper:encode_varint")
        return [ctx.err("helper:encode_varint", "compact-size codec outside the evaluator's subset", fn, mod)]
    return r



OBLIGATIONS = [
    ("C04.18", "CELLS compact size", c04_18),
    ("C04.17", "CELLS opaque template bytes", c04_17),
    ("C04.16", "CELLS witness round trip (bounded)", c04_16),
    ("C04.15", "RANGE accept-set", c04_15),
    ("C04.14", "SHARED", c04_14),
    ("C04.13", "SET-ORDER", c04_13),
    ("C04.12", "MEMO", c04_12),
    ("C04.1", "RANGE partition", c04_1),
    ("C04.2", "RANGE partition", c04_2),
    ("C04.3", "RANGE partition+agreement", c04_3),
    ("C04.4", "LAYOUT writer↔reader", c04_4),
    ("C04.5", "LAYOUT vs spec", c04_5),
    ("C04.6", "NONINT", c04_6),
    ("C04.7", "GUARD", c04_7),
    ("C04.8", "COUNT", c04_8),
    ("C04.9", "CELLS re-typing", c04_9),
    ("C04.10", "RANGE domain", c04_10),
    ("C04.11", "CODEC primitives", c04_11),
]
FLOORS = {"C04.1": 4, "C04.2": 2, "C04.3": 7, "C04.4": 10, "C04.5": 14, "C04.6": 5, "C04.7": 4, "C04.8": 5}
