"""C05 — signature hashes (structural clauses): preimage layouts per hash type, memo soundness, dispatch."""
import ast
import re

from sa import rl
from sa.cfg import cfg_of
from sa.dataflow import call_name, dotted, expand, origins
from sa.fold import Folder, Unknown
from sa.layout import WriterExec, fmt_terms
from sa.interval import ISet
from sa.loader import AnalysisError, param_names

EXPLANATION = (
    "Static analysis of buidl/tx.py and witness.py: the three signature-hash functions are executed symbolically (byte-accumulator "
    "abstract interpretation with constant propagation of hash_type over {0,1,2,3,0x81,0x82,0x83}, symbolic booleans for "
    "'this is the signed input', annex and ext_flag) and every resulting preimage is compared item by item with the layout tables of "
    "the Satoshi algorithm, BIP143 and BIP341/342 (DESIGN appendix A); count prefixes are compared with the number of items emitted; "
    "the midstate memo fields are checked for an invalidation of each writable attribute in their read-set and for initialisation; "
    "the dispatch on the spent script is checked as a table. Not decided: digest values; SINGLE-out-of-range behaviour beyond the legacy constant."
)

HASH_TYPES = [1, 2, 3, 0x81, 0x82, 0x83]
NAMES = {0: "DEFAULT", 1: "ALL", 2: "NONE", 3: "SINGLE", 0x81: "ALL|ACP", 0x82: "NONE|ACP", 0x83: "SINGLE|ACP"}


def _norm(src):
    """canonical source text: the signed input is IN, its output OUT"""
    s = src
    s = s.replace("self.tx_ins[input_index]", "IN").replace("self.tx_outs[input_index]", "OUT")
    s = re.sub(r"\(network=self\.network\)|\(self\.network\)", "()", s)
    return s


def toks(terms):
    """flat token list of a preimage"""
    out = []
    for t in terms:
        k = t[0]
        if k == "const":
            out.append("const:" + t[1].hex())
        elif k == "int":
            out.append("int%s%s:%s" % (t[1], t[2], _norm(t[3])))
        elif k == "varint":
            out.append("varint:" + _norm(t[1]))
        elif k == "bytes":
            out.append("bytes:%s%s" % (_norm(t[1]), t[2]))
        elif k == "nested":
            out.append("ser:%s" % _norm(t[2]))
        elif k == "call":
            out.append("call:%s" % _norm(t[1]))
        elif k == "hash":
            out.append("%s[%s]" % (t[1], " ".join(toks(t[2]))))
        elif k == "varstr":
            out.append("varstr[%s]" % " ".join(toks(t[1])))
        elif k == "repeat":
            out.append("repeat<%s>[%s]" % (_norm(t[1]), " ".join(toks(t[3]))))
        elif k == "alt":
            out.append("alt<%s>{%s|%s}" % (_norm(t[1]), " ".join(toks(t[2])), " ".join(toks(t[3]))))
        elif k == "break":
            out.append("break")
        else:
            out.append("?%s" % (t,))
    return out


def _preimage(terms, hashname):
    """dig the argument list of the outermost hash call named hashname"""
    for t in terms:
        if t[0] == "hash" and t[1] == hashname:
            return t[2]
        if t[0] == "call":
            for a in t[2]:
                r = _preimage(a, hashname)
                if r is not None:
                    return r
    return None


def _run(ctx, spec, consts, assume, hashname):
    mod, fn = rl.get(ctx, spec)
    w = WriterExec(ctx.repo, mod, fn, consts=consts, assume=assume)
    t = w.run()
    if t is None:
        raise AnalysisError("%s: no return value" % spec)
    pre = _preimage(t, hashname)
    if pre is None:
        raise AnalysisError("%s: preimage of %s not found in `%s`" % (spec, hashname, fmt_terms(t)[:200]))
    ctx.count("layout_terms", len(pre))
    return mod, fn, w, pre


# ---------------------------------------------------------------------------------------------------
# legacy


def _legacy_parts(pre):
    """split the legacy preimage: version, count_in, inputs part, count_out, outputs part, locktime, hashtype"""
    tk = toks(pre)
    vi = [i for i, t in enumerate(tk) if t.startswith("varint:")]
    if len(vi) != 2:
        raise AnalysisError("legacy preimage: expected two count prefixes, got %s" % tk)
    return tk[:vi[0]], tk[vi[0]], tk[vi[0] + 1:vi[1]], tk[vi[1]], tk[vi[1] + 1:-2], tk[-2:], tk


# the out-of-range exits are decided separately (c05_2, key single-bug:*); for the layout the in-range case is assumed,
# whichever strictness the bound test is written with
_LEGACY_ASSUME = {"input_index >= len(self.tx_ins)": False, "input_index >= len(self.tx_outs)": False,
                  "input_index > len(self.tx_ins)": False, "input_index > len(self.tx_outs)": False,
                  "input_index == len(self.tx_ins)": False, "input_index == len(self.tx_outs)": False}


def c05_1(ctx):
    """COUNT: legacy input/output count prefixes equal the number of items emitted"""
    out = []
    spec = "tx:Tx.sig_hash_legacy"
    for ht in HASH_TYPES:
        acp, base = bool(ht & 0x80), ht & 3
        mod, fn, w, pre = _run(ctx, spec, {"hash_type": ht}, dict(_LEGACY_ASSUME, **{"i == input_index": True, "redeem_script": True}), "hash256")
        head, cin, ins, cout, outs, tail, tk = _legacy_parts(pre)
        want_in = {"1"} if acp else {"len(self.tx_ins)"}
        got_in = cin.split(":", 1)[1]
        if got_in in want_in:
            out.append(ctx.ok(spec, "%s: input count prefix `%s`" % (NAMES[ht], got_in), fn, mod, key="cin:%x" % ht))
        else:
            out.append(ctx.bad(spec, "hash type %s: the input count prefix is `%s` but %s input(s) are serialised (expected %s)" % (
                NAMES[ht], got_in, "one" if acp else "all", sorted(want_in)), fn, mod, key="cin:%x" % ht))
        want_out = {1: {"len(self.tx_outs)"}, 2: {"0"}, 3: {"input_index + 1", "1 + input_index"}}[base]
        got_out = cout.split(":", 1)[1]
        if got_out in want_out:
            out.append(ctx.ok(spec, "%s: output count prefix `%s`" % (NAMES[ht], got_out), fn, mod, key="cout:%x" % ht))
        else:
            out.append(ctx.bad(spec, "hash type %s: the output count prefix is `%s`, the algorithm serialises %s (expected %s)" % (
                NAMES[ht], got_out, {1: "all outputs", 2: "no output", 3: "input_index+1 outputs"}[base], sorted(want_out)), fn, mod, key="cout:%x" % ht))
    return out


def c05_2(ctx):
    """legacy preimage items per hash type"""
    out = []
    spec = "tx:Tx.sig_hash_legacy"
    for ht in HASH_TYPES:
        acp, base = bool(ht & 0x80), ht & 3
        problems = []
        for me in (True, False):
            mod, fn, w, pre = _run(ctx, spec, {"hash_type": ht}, dict(_LEGACY_ASSUME, **{"i == input_index": me, "redeem_script": True}), "hash256")
            head, cin, ins, cout, outs, tail, tk = _legacy_parts(pre)
            if head != ["int4LE:self.version"]:
                problems.append("starts with %s instead of the 4-byte LE version" % head)
            if tail != ["ser:self.locktime", "int4LE:hash_type"]:
                problems.append("ends with %s instead of locktime ‖ 4-byte LE hash type" % tail)
            # inputs
            body = None
            if len(ins) == 1 and ins[0].startswith("repeat<self.tx_ins>["):
                body = ins[0][len("repeat<self.tx_ins>["):-1]
            elif not ins:
                body = ""
            elif len(ins) == 1 and ins[0].startswith("ser:TxIn("):
                body = ins[0].replace("IN.", "tx_in.")
            else:
                raise AnalysisError("legacy inputs part not recognised: %s" % ins)
            if me:
                exp = "ser:TxIn(prev_tx=tx_in.prev_tx, prev_index=tx_in.prev_index, script_sig=redeem_script, sequence=tx_in.sequence)"
                if body != exp:
                    problems.append("signed input serialised as `%s`, expected outpoint ‖ script code ‖ own sequence" % body)
            else:
                if acp:
                    exp = ""
                elif base == 1:
                    exp = "ser:TxIn(prev_tx=tx_in.prev_tx, prev_index=tx_in.prev_index, script_sig=None, sequence=tx_in.sequence)"
                else:
                    exp = "ser:TxIn(prev_tx=tx_in.prev_tx, prev_index=tx_in.prev_index, script_sig=None, sequence=Sequence(0))"
                if body != exp:
                    problems.append("other inputs serialised as `%s`, expected `%s`" % (body, exp or "nothing (ANYONECANPAY)"))
            # outputs
            obody = None
            if len(outs) == 1 and outs[0].startswith("repeat<self.tx_outs>["):
                obody = outs[0][len("repeat<self.tx_outs>["):-1]
            elif not outs:
                obody = ""
            else:
                raise AnalysisError("legacy outputs part not recognised: %s" % outs)
            if base == 1:
                expo = "ser:tx_out"
            elif base == 2:
                expo = ""
            else:
                expo = "ser:tx_out break" if me else "const:ffffffffffffffff00"
            if obody != expo:
                problems.append("outputs (%s matching index) serialised as `%s`, expected `%s`" % ("" if me else "not", obody, expo or "nothing"))
        if problems:
            out.append(ctx.bad(spec, "hash type %s: %s" % (NAMES[ht], "; ".join(sorted(set(problems)))), fn, mod, key="items:%x" % ht))
        else:
            out.append(ctx.ok(spec, "hash type %s: version, inputs (blanked scripts / zeroed sequences), outputs, locktime, hash type as specified" % NAMES[ht], fn, mod, key="items:%x" % ht))
    # out-of-range rules: constant 1 as uint256 LE == 1 << 248 when read big endian
    mod, fn = rl.get(ctx, spec)
    cfg = cfg_of(fn)
    f = Folder(ctx.repo, mod.name)
    # ... and the bounds under which they fire: index >= number of inputs; SINGLE and index >= number of outputs
    for what, cnt in (("inputs", "len(self.tx_ins)"), ("outputs", "len(self.tx_outs)")):
        sites = []
        for n in cfg.tests():
            ex = expand(fn, n.id, n.ast) if isinstance(n.ast, ast.Compare) else n.ast
            if isinstance(ex, ast.Compare) and len(ex.ops) == 1:
                ex2 = ast.Compare(left=expand(fn, n.id, ex.left), ops=ex.ops, comparators=[expand(fn, n.id, ex.comparators[0])])
                r = rl.rel(ex2, "input_index", cnt)
                if r is not None:
                    sites.append((n, r))
        if not sites:
            out.append(ctx.err(spec, "bound test of input_index against the number of %s not found" % what, fn, mod))
            continue
        for n, r in sites:
            # the edge on which the index is out of range must be exactly `index >= count`
            if r in (">=", "<"):
                out.append(ctx.ok(spec, "out-of-range rule for %s fires exactly when input_index >= %s" % (what, cnt), n.ast, mod, key="single-bug:" + what))
            else:
                out.append(ctx.bad(spec, "out-of-range rule for %s is tested as `input_index %s %s`; the algorithm returns the constant 1 whenever input_index >= %s "
                                         "(e.g. 3 inputs, 2 outputs, SIGHASH_SINGLE on input 2 hashes a preimage instead)" % (what, r, cnt, cnt), n.ast, mod, key="single-bug:" + what))
    consts = []
    for n in cfg.returns():
        v = n.ast.value
        ex = expand(fn, n.id, v)
        c = f.fold(ex)
        if isinstance(c, int):
            consts.append(c)
    if consts and all(c == 1 << 248 for c in consts) and len(consts) >= 2:
        out.append(ctx.ok(spec, "out-of-range input / SINGLE without matching output return the constant 1 (little-endian uint256)", fn, mod, key="single-bug"))
    else:
        out.append(ctx.bad(spec, "out-of-range rules return %s, expected the little-endian uint256 constant 1 (= 1<<248 big endian) twice" % [hex(c) for c in consts], fn, mod, key="single-bug"))
    return out


# ---------------------------------------------------------------------------------------------------
# BIP143

ZERO32 = "const:" + "00" * 32


def _is_zero32(tok):
    return tok == ZERO32


def c05_3(ctx):
    out = []
    spec = "tx:Tx.sig_hash_bip143"
    for ht in HASH_TYPES:
        acp, base = bool(ht & 0x80), ht & 3
        mod, fn, w, pre = _run(ctx, spec, {"hash_type": ht}, {"witness_script": True, "input_index < len(self.tx_outs)": True, "input_index >= len(self.tx_outs)": False}, "hash256")
        tk = toks(pre)
        exp = ["int4LE:self.version"]
        exp.append(ZERO32 if acp else "call:self.hash_prevouts")
        exp.append("call:self.hash_sequence" if (not acp and base == 1) else ZERO32)
        exp += ["bytes:IN.prev_tx[::-1]", "int4LE:IN.prev_index", "ser:witness_script", "int8LE:IN.value()", "ser:IN.sequence"]
        if base == 1:
            exp.append("call:self.hash_outputs")
        elif base == 3:
            exp.append("hash256[ser:OUT]")
        else:
            exp.append(ZERO32)
        exp += ["ser:self.locktime", "int4LE:hash_type"]
        tk2 = [re.sub(r"^call:(self\.hash_\w+)\(\)$", r"call:\1", t) for t in tk]
        tk2 = [t.replace("call:self.hash_prevouts()", "call:self.hash_prevouts") for t in tk2]
        tk2 = [re.sub(r"\(\)$", "", t) if t.startswith("call:") else t for t in tk2]
        if tk2 == exp:
            out.append(ctx.ok(spec, "hash type %s: preimage equals BIP143 (%d items)" % (NAMES[ht], len(exp)), fn, mod, key="bip143:%x" % ht))
        else:
            # first difference
            i = 0
            while i < len(exp) and i < len(tk2) and exp[i] == tk2[i]:
                i += 1
            out.append(ctx.bad(spec, "hash type %s: item %d is `%s`, BIP143 requires `%s` (preimage has %d items, BIP143 has %d: every variant is "
                               "4‖32‖32‖36‖scriptCode‖8‖4‖32‖4‖4 with zeroed 32-byte slots)" % (
                                   NAMES[ht], i + 1, tk2[i] if i < len(tk2) else "<end>", exp[i] if i < len(exp) else "<end>", len(tk2), len(exp)),
                               fn, mod, key="bip143:%x" % ht, detail={"found": tk2, "expected": exp}))
    # script code selection
    mod, fn = rl.get(ctx, spec)
    for assume, want, label in (({"witness_script": True}, "ser:witness_script", "p2wsh"),
                                ({"witness_script": False, "redeem_script": True}, "ser:P2PKHScriptPubKey(redeem_script.commands[1])", "p2sh-p2wpkh"),
                                ({"witness_script": False, "redeem_script": False}, "ser:P2PKHScriptPubKey(IN.script_pubkey().commands[1])", "p2wpkh")):
        _, _, w, pre = _run(ctx, spec, {"hash_type": 1}, assume, "hash256")
        tk = toks(pre)
        if len(tk) > 5 and tk[5] == want:
            out.append(ctx.ok(spec, "%s: script code is `%s`" % (label, want[4:]), fn, mod, key="scriptcode:" + label))
        else:
            out.append(ctx.bad(spec, "%s: script code item is `%s`, expected `%s`" % (label, tk[5] if len(tk) > 5 else None, want), fn, mod, key="scriptcode:" + label))
    # midstates hash what BIP143 says
    want = {
        "hash_prevouts": "hash256[repeat<self.tx_ins>[bytes:tx_in.prev_tx[::-1] int4LE:tx_in.prev_index]]",
        "hash_sequence": "hash256[repeat<self.tx_ins>[ser:tx_in.sequence]]",
        "hash_outputs": "hash256[repeat<self.tx_outs>[ser:tx_out]]",
    }
    out += _midstates(ctx, want, "bip143-mid")
    return out


def _midstates(ctx, want, keyp):
    """want: {digest method name: expected preimage}.  The digest may be returned by the method of that name or stored in a
    memo attribute `self._<name>` by any Tx method (the memoised form)."""
    out = []
    mod, _ = ctx.repo.cls("tx:Tx")
    stores = {}
    for qn, fn in mod.functions.items():
        if qn.startswith("Tx.") and (qn[3:].startswith("hash_") or qn[3:].startswith("sha_")):
            w = WriterExec(ctx.repo, mod, fn)
            try:
                ret = w.run()
            except AnalysisError:
                ret = None
            for k, v in w.stores.items():
                stores[k] = (" ".join(toks(v)), fn)
            if ret:
                stores["<return>:" + qn[3:]] = (" ".join(toks(ret)), fn)
    for name, exp in want.items():
        cands = [stores.get("<return>:" + name), stores.get("self._" + name)]
        cands = [c for c in cands if c and not c[0].startswith("bytes:self._")]
        if not ctx.repo.has_func("tx:Tx." + name):
            out.append(ctx.err("tx:Tx." + name, "midstate helper vanished"))
            continue
        fn = mod.functions["Tx." + name]
        ctx.note_fn(mod, fn)
        if any(c[0] == exp for c in cands):
            out.append(ctx.ok("tx:Tx." + name, "%s = %s" % (name, exp), fn, mod, key=keyp + ":" + name))
        else:
            out.append(ctx.bad("tx:Tx." + name, "%s is computed as %s, specification: %s" % (name, [c[0] for c in cands] or "nothing recognisable", exp), fn, mod, key=keyp + ":" + name))
    return out


# ---------------------------------------------------------------------------------------------------
# BIP341


def _bip341_cells(ctx):
    if not hasattr(ctx, "_c05_bip341"):
        ctx._c05_bip341 = _bip341_cells_(ctx)
    return ctx._c05_bip341


def _bip341_cells_(ctx):
    """Tx.sig_hash_bip341 (with sha_prevouts / sha_amounts / sha_script_pubkeys / sha_sequences / sha_outputs) evaluated on a transaction of
    three inputs and three outputs whose every field has different bytes, for hash types {0, 1, 2, 3, 0x81, 0x82, 0x83} × annex absent /
    present × key path / script path × input 0 / 2, against the rule's own BIP341 SigMsg.  Inputs, outputs, timelocks and scripts are stand-ins
    with fixed serialisations (their codecs are other clauses); the tapleaf hash is a fixed value (which witness item is the leaf: C05.20);
    hashing is the standard library's.  Complete in the control parameters BIP341 distinguishes; bounded in the field bytes (one transaction)"""
    import hashlib
    from sa.cells import Evaluator, Obj, Raised, Undecided
    spec = "tx:Tx.sig_hash_bip341"
    mod, fn = rl.get(ctx, spec)
    sha = lambda b: hashlib.sha256(b).digest()
    tag = sha(b"TapSighash")
    vs = lambda b: bytes([len(b)]) + b
    LEAF = bytes(range(200, 232))
    seen = {}

    def tapsighash(m):
        seen["pre"] = bytes(m)
        return sha(tag + tag + bytes(m))
    prevs = [bytes((40 * i + j) & 255 for j in range(32)) for i in range(1, 4)]
    idxs, amounts, seqs = [5, 0, 258], [1000, 70000000000, 3], [0xFFFFFFFE, 7, 0xFFFFFFFF]
    spks = [b"\x51\x20" + bytes([0x10 * (i + 1)]) * 32 for i in range(3)]
    outs = [(21 + i, b"\x00\x14" + bytes([0xA0 + i]) * 20) for i in range(3)]
    out_ser = [a.to_bytes(8, "little") + vs(sp) for a, sp in outs]
    version, locktime = 2, 500001

    def ref(idx, ht, annex, ext):
        m = b"\x00" + bytes([ht]) + version.to_bytes(4, "little") + locktime.to_bytes(4, "little")
        if not ht & 0x80:
            m += sha(b"".join(prevs[i][::-1] + idxs[i].to_bytes(4, "little") for i in range(3)))
            m += sha(b"".join(a.to_bytes(8, "little") for a in amounts))
            m += sha(b"".join(vs(sp) for sp in spks))
            m += sha(b"".join(q.to_bytes(4, "little") for q in seqs))
        if ht & 3 not in (2, 3):
            m += sha(b"".join(out_ser))
        m += bytes([2 * ext + (1 if annex else 0)])
        if ht & 0x80:
            m += prevs[idx][::-1] + idxs[idx].to_bytes(4, "little") + amounts[idx].to_bytes(8, "little") + vs(spks[idx]) + seqs[idx].to_bytes(4, "little")
        else:
            m += idx.to_bytes(4, "little")
        if annex:
            m += sha(vs(annex))
        if ht & 3 == 3:
            m += sha(out_ser[idx])
        if ext:
            m += LEAF + b"\x00\xff\xff\xff\xff"
        return m
    hooks = {("TxIn", "value"): lambda o, *a, **k: o.attrs["amount_"], ("TxIn", "script_pubkey"): lambda o, *a, **k: o.attrs["spk_"],
             ("Witness", "tap_leaf"): lambda o, *a, **k: Obj("taproot", "TapLeaf", {}), ("TapLeaf", "hash"): lambda o, *a, **k: LEAF,
             ("TxOut", "serialize"): lambda o, *a, **k: o.attrs["ser_"]}
    for cls in ("Script", "ScriptPubKey", "P2TRScriptPubKey", "SegwitPubKey"):
        hooks[(cls, "serialize")] = lambda o, *a, **k: vs(o.attrs["raw_"])
        hooks[(cls, "raw_serialize")] = lambda o, *a, **k: o.attrs["raw_"]
    for cls in ("Locktime", "Sequence"):
        hooks[(cls, "serialize")] = lambda o, *a, **k: o.attrs["n_"].to_bytes(4, "little")
    n = 0
    ANNEX = b"\x50\x01\x02\x03"
    try:
        for ht in (0, 1, 2, 3, 0x81, 0x82, 0x83):
            for annex in (None, ANNEX):
                for ext in (0, 1):
                    for idx in (0, 2):
                        n += 1
                        ins = []
                        for i in range(3):
                            items = [b"\x30" * 64] if not ext else [b"\x30" * 64, b"\x20" + bytes(32) + b"\xac", b"\xc0" + bytes(32)]
                            if annex and i == idx:
                                items = items + [annex]
                            ins.append(Obj("tx", "TxIn", {"prev_tx": prevs[i], "prev_index": idxs[i], "sequence": Obj("timelock", "Sequence", {"n_": seqs[i]}),
                                                          "witness": Obj("witness", "Witness", {"items": items}), "amount_": amounts[i],
                                                          "spk_": Obj("script", "P2TRScriptPubKey", {"raw_": spks[i]}), "script_sig": Obj("script", "Script", {"commands": []})}))
                        touts = [Obj("tx", "TxOut", {"amount": a, "script_pubkey": Obj("script", "Script", {"raw_": sp}), "ser_": out_ser[i]}) for i, (a, sp) in enumerate(outs)]
                        me = Obj("tx", "Tx", {"version": version, "tx_ins": ins, "tx_outs": touts, "locktime": Obj("timelock", "Locktime", {"n_": locktime}),
                                              "network": "mainnet", "segwit": True})
                        seen.clear()
                        where = "hash type %#04x, annex %s, %s path, input %d" % (ht, "present" if annex else "absent", "script" if ext else "key", idx)
                        try:
                            got = Evaluator(ctx.repo, method_hooks=hooks, externals={"hash_tapsighash": tapsighash}, max_steps=400000).call(
                                spec, [idx], kwargs={"ext_flag": ext, "hash_type": ht}, self_obj=me)
                        except Raised as x:
                            ctx.count("cells", n)
                            return [ctx.bad(spec, "%s: the digest function raises %s" % (where, x.name), fn, mod, key="bip341-cells")]
                        want = ref(idx, ht, annex, ext)
                        if got != sha(tag + tag + want):
                            pre = seen.get("pre")
                            at = ""
                            if isinstance(pre, bytes):
                                i = next((i for i in range(min(len(pre), len(want))) if pre[i] != want[i]), min(len(pre), len(want)))
                                at = ": the message differs from BIP341's SigMsg at byte %d (%d bytes written, %d expected)" % (i, len(pre), len(want))
                            ctx.count("cells", n)
                            return [ctx.bad(spec, "%s: the digest is not the BIP341 signature hash%s" % (where, at), fn, mod, key="bip341-cells")]
    except Undecided as u:
        return [ctx.err(spec, "BIP341 digest not evaluable: %s" % u, fn, mod)]
    ctx.count("cells", n)
    return [ctx.ok(spec, "%d cells (hash type × annex × key / script path × input): the digest equals the tagged hash of the rule's own BIP341 SigMsg" % n, fn, mod, key="bip341-cells")]


def c05_23(ctx):
    """CELLS BIP341 digest: the whole function over the control parameters"""
    return _bip341_cells(ctx)


def c05_4(ctx):
    """BIP341 message layout: symbolic execution of the writer against the specification's layout for every (hash type, annex, ext_flag); when
    the writer is not in a form the layout executor reads, the BIP341 cells (C05.23) decide"""
    spec = "tx:Tx.sig_hash_bip341"
    try:
        out = _c05_4_struct(ctx)
    except AnalysisError as e:
        mod, fn = rl.get(ctx, spec)
        out = [ctx.err(spec, str(e), fn, mod)]
    return rl.defer(ctx, out, lambda: _bip341_cells(ctx), "decided by the BIP341 cells (C05.23: hash type × annex × key / script path × input, digest equals the rule's own SigMsg); "
                    "the writer is not in the form the layout executor reads")


def _c05_4_struct(ctx):
    out = []
    spec = "tx:Tx.sig_hash_bip341"
    annex_key = "self.tx_ins[input_index].witness.has_annex()"
    for ht in [0] + HASH_TYPES:
        acp, base = bool(ht & 0x80), ht & 3
        for annex in (False, True):
            for ext in (0, 1):
                mod, fn, w, pre = _run(ctx, spec, {"hash_type": ht, "ext_flag": ext}, {annex_key: annex}, "hash_tapsighash")
                if w.unknown_conds:
                    raise AnalysisError("sig_hash_bip341: condition left symbolic: %s" % w.unknown_conds[0])
                tk = toks(pre)
                tk = [re.sub(r"\(\)$", "", t) if t.startswith("call:") else t for t in tk]
                # fold the spend type expression
                f = Folder(ctx.repo, mod.name, {"ext_flag": ext})
                tk2 = []
                for t in tk:
                    m = re.match(r"^int1LE:(.*)$", t)
                    if m and m.group(1) != "hash_type":
                        try:
                            v = f.fold(ast.parse(m.group(1), mode="eval").body)
                        except SyntaxError:
                            v = Unknown
                        tk2.append("int1LE:%s" % (v if v is not Unknown else m.group(1)))
                    else:
                        tk2.append(t)
                exp = ["const:00", "int1LE:hash_type", "int4LE:self.version", "ser:self.locktime"]
                if not acp:
                    exp += ["call:self.sha_prevouts", "call:self.sha_amounts", "call:self.sha_script_pubkeys", "call:self.sha_sequences"]
                if base not in (2, 3):
                    exp.append("call:self.sha_outputs")
                exp.append("int1LE:%d" % (2 * ext + (1 if annex else 0)))
                if acp:
                    exp += ["bytes:IN.prev_tx[::-1]", "int4LE:IN.prev_index", "int8LE:IN.value()", "ser:IN.script_pubkey()", "ser:IN.sequence"]
                else:
                    exp.append("int4LE:input_index")
                if annex:
                    exp.append("sha256[varstr[bytes:IN.witness[-1]]]")
                if base == 3:
                    exp.append("sha256[ser:OUT]")
                if ext == 1:
                    exp += ["ser:IN.witness.tap_leaf()", "const:00ffffffff"]
                # tolerate split constant 00 / ffffffff
                j = " ".join(tk2).replace("const:00 const:ffffffff", "const:00ffffffff")
                key = "bip341:%x:a%d:e%d" % (ht, annex, ext)
                if j == " ".join(exp):
                    out.append(ctx.ok(spec, "hash type %s annex=%s ext=%d: message equals BIP341/342 (%d items)" % (NAMES[ht], annex, ext, len(exp)), fn, mod, key=key))
                else:
                    got = j.split(" ")
                    i = 0
                    while i < len(exp) and i < len(got) and exp[i] == got[i]:
                        i += 1
                    out.append(ctx.bad(spec, "hash type %s, annex %s, ext_flag %d: item %d of the message is `%s`, BIP341 requires `%s`" % (
                        NAMES[ht], "present" if annex else "absent", ext, i + 1, got[i] if i < len(got) else "<end>", exp[i] if i < len(exp) else "<end>"),
                        fn, mod, key=key, detail={"found": got, "expected": exp}))
    want = {
        "sha_prevouts": "sha256[repeat<self.tx_ins>[bytes:tx_in.prev_tx[::-1] int4LE:tx_in.prev_index]]",
        "sha_amounts": "sha256[repeat<self.tx_ins>[int8LE:tx_in.value()]]",
        "sha_script_pubkeys": "sha256[repeat<self.tx_ins>[ser:tx_in.script_pubkey()]]",
        "sha_sequences": "sha256[repeat<self.tx_ins>[ser:tx_in.sequence]]",
        "sha_outputs": "sha256[repeat<self.tx_outs>[ser:tx_out]]",
    }
    out += _midstates(ctx, want, "bip341-mid")
    return out


# ---------------------------------------------------------------------------------------------------
# dispatch


def c05_5(ctx):
    """sig_hash dispatch table: script class -> algorithm (symbolic reading of the predicates); when the dispatch is not in a form it reads, the
    dispatch cells (C05.19, C05.11) decide"""
    spec = "tx:Tx.sig_hash"
    try:
        out = _c05_5_struct(ctx)
    except AnalysisError as e:
        mod, fn = rl.get(ctx, spec)
        out = [ctx.err(spec, str(e), fn, mod)]
    return rl.defer(ctx, out, lambda: c05_19(ctx) + c05_11(ctx), "decided by the dispatch cells (C05.19: spent output type × hash type × index, incl. the nested segwit forms; C05.11: "
                    "extension flag); the dispatch is not in the form the table rule reads")


def _c05_5_struct(ctx):
    """sig_hash dispatch table: script class -> algorithm"""
    spec = "tx:Tx.sig_hash"
    mod, fn = rl.get(ctx, spec)
    cfg = cfg_of(fn)
    out = []
    # enumerate the script classes as assumed predicate valuations and look at which sig_hash_* call is returned
    preds = ["script_pubkey.is_p2sh()", "script_pubkey.is_p2wpkh()", "script_pubkey.is_p2wsh()", "script_pubkey.is_p2tr()",
             "redeem_script.is_p2wpkh()", "redeem_script.is_p2wsh()"]
    cases = {
        "p2pkh": ({}, "sig_hash_legacy"),
        "p2sh": ({"script_pubkey.is_p2sh()": True}, "sig_hash_legacy"),
        "p2wpkh": ({"script_pubkey.is_p2wpkh()": True}, "sig_hash_bip143"),
        "p2wsh": ({"script_pubkey.is_p2wsh()": True}, "sig_hash_bip143"),
        "p2sh-p2wpkh": ({"script_pubkey.is_p2sh()": True, "redeem_script.is_p2wpkh()": True}, "sig_hash_bip143"),
        "p2sh-p2wsh": ({"script_pubkey.is_p2sh()": True, "redeem_script.is_p2wsh()": True}, "sig_hash_bip143"),
        "p2tr": ({"script_pubkey.is_p2tr()": True}, "sig_hash_bip341"),
    }
    for label, (truths, want) in cases.items():
        got = _dispatch(fn, truths, preds)
        if got == want:
            out.append(ctx.ok(spec, "%s → %s" % (label, want), fn, mod, key="dispatch:" + label))
        elif got is None:
            out.append(ctx.err(spec, "dispatch for %s could not be evaluated" % label, fn, mod))
        else:
            out.append(ctx.bad(spec, "a %s input is hashed with %s, expected %s" % (label, got, want), fn, mod, key="dispatch:" + label))
    # (the extension flag is decided by C05.11, which also accounts for the annex)
    return out


def _dispatch(fn, truths, preds):
    """Evaluate the if-chain of sig_hash with the given predicate valuation (others False); returns the sig_hash_* name returned."""
    env = {}

    def ev(e):
        if isinstance(e, ast.BoolOp):
            vals = [ev(v) for v in e.values]
            if isinstance(e.op, ast.And):
                if any(v is False for v in vals):
                    return False
                return None if any(v is None for v in vals) else True
            if any(v is True for v in vals):
                return True
            return None if any(v is None for v in vals) else False
        if isinstance(e, ast.UnaryOp) and isinstance(e.op, ast.Not):
            v = ev(e.operand)
            return None if v is None else (not v)
        txt = ast.unparse(e)
        if txt in preds:
            return truths.get(txt, False)
        if isinstance(e, ast.Name):
            if e.id in env:
                return env[e.id]
            return None
        if isinstance(e, ast.Compare) and len(e.ops) == 1 and isinstance(e.ops[0], (ast.Is, ast.IsNot)) and isinstance(e.comparators[0], ast.Constant) \
                and e.comparators[0].value is None and isinstance(e.left, ast.Name) and e.left.id in env and isinstance(env[e.left.id], bool):
            # locals hold "an object" (True) or None (False)
            return env[e.left.id] if isinstance(e.ops[0], ast.IsNot) else (not env[e.left.id])
        if isinstance(e, ast.Compare):
            return None
        return None

    def run(stmts):
        for st in stmts:
            if isinstance(st, ast.If):
                c = ev(st.test)
                if c is None:
                    # condition independent of the script class (e.g. witness length): look in both arms for a return
                    r = run(st.body) or run(st.orelse)
                    if r:
                        return r
                    continue
                r = run(st.body if c else st.orelse)
                if r:
                    return r
            elif isinstance(st, ast.Assign) and isinstance(st.targets[0], ast.Name):
                nm = st.targets[0].id
                if isinstance(st.value, ast.Constant) and st.value.value is None:
                    env[nm] = False
                elif isinstance(st.value, (ast.BoolOp, ast.UnaryOp, ast.Compare)) or (isinstance(st.value, ast.Call) and ast.unparse(st.value) in preds):
                    v = ev(st.value)
                    if v is not None:
                        env[nm] = v
                    else:
                        env.pop(nm, None)
                elif isinstance(st.value, ast.Call):
                    env[nm] = True
            elif isinstance(st, ast.Return) and isinstance(st.value, ast.Call):
                nm = call_name(st.value)
                if nm and nm.startswith("sig_hash_"):
                    return nm
        return None
    return run(fn.body)


# ---------------------------------------------------------------------------------------------------
# memo soundness


def memo_fields(repo, modname, clsname):
    """memo attributes of a class: `if self._x is None: ... self._x = e` -> {attr: [(method qualname, fn)]}"""
    m = repo.module(modname)
    out = {}
    for qn, fn in m.functions.items():
        if not qn.startswith(clsname + "."):
            continue
        for st in ast.walk(fn):
            if isinstance(st, ast.If) and isinstance(st.test, ast.Compare) and len(st.test.ops) == 1 and isinstance(st.test.ops[0], ast.Is) \
                    and isinstance(st.test.comparators[0], ast.Constant) and st.test.comparators[0].value is None:
                d = dotted(st.test.left)
                if d and d.startswith("self._"):
                    attr = d[5:]
                    stores = [s for s in ast.walk(st) if isinstance(s, ast.Assign) and any(dotted(t) == d for t in s.targets)]
                    calls = [c for c in ast.walk(st) if isinstance(c, ast.Call) and isinstance(c.func, ast.Attribute) and dotted(c.func.value) == "self"]
                    if stores or calls:
                        out.setdefault(attr, []).append((qn, fn, bool(stores)))
    return out


def c05_6(ctx):
    """MEMO: every memoised midstate is invalidated when an attribute in its read-set can be written"""
    from sa.effects import Effects
    mod, _ = ctx.repo.cls("tx:Tx")
    memos = memo_fields(ctx.repo, "tx", "Tx")
    out = []
    if not memos:
        return [ctx.ok("tx:Tx", "no memoised signature-hash midstates: every digest is recomputed from the current fields", None, mod, key="memo-none")]
    eff = Effects(ctx.repo)
    # invalidation sites: `self._x = None` outside __init__, or __setattr__ hooks
    inval = {}
    has_setattr = "Tx.__setattr__" in mod.functions
    for qn, fn in mod.functions.items():
        if not qn.startswith("Tx.") or qn == "Tx.__init__":
            continue
        for st in ast.walk(fn):
            if isinstance(st, ast.Assign) and isinstance(st.value, ast.Constant) and st.value.value is None:
                for t in st.targets:
                    d = dotted(t)
                    if d and d.startswith("self._"):
                        inval.setdefault(d[5:], []).append(qn)
    for attr, users in sorted(memos.items()):
        computing = [(qn, fn) for qn, fn, stores in users if stores]
        if not computing:
            continue
        qn, fn = computing[0]
        reads = eff.reads("tx:" + qn)
        data = sorted("%s.%s" % r for r in reads if not r[1].startswith("_") and r[0] in ("Tx", "TxIn", "TxOut", "Script", "ScriptPubKey"))
        if has_setattr or attr in inval:
            out.append(ctx.ok("tx:" + qn, "memo %s has an invalidation site (%s)" % (attr, "__setattr__" if has_setattr else inval[attr]), fn, mod, key="memo:" + attr))
        elif not data:
            out.append(ctx.ok("tx:" + qn, "memo %s depends on no mutable field" % attr, fn, mod, key="memo:" + attr))
        else:
            out.append(ctx.bad("tx:" + qn, "memo field %s caches a digest of %s but nothing ever resets it: after an edit of those fields (which are plain, "
                               "publicly assigned attributes) later signature hashes silently use the stale midstate" % (attr, ", ".join(data[:6])), fn, mod, key="memo:" + attr))
    return out


def c05_7(ctx):
    """MEMO init: every memo attribute read is initialised in __init__ under the same name"""
    mod, init = rl.get(ctx, "tx:Tx.__init__")
    inited = set()
    for st in ast.walk(init):
        if isinstance(st, ast.Assign):
            for t in st.targets:
                d = dotted(t)
                if d and d.startswith("self."):
                    inited.add(d[5:])
    out = []
    read = {}
    for qn, fn in mod.functions.items():
        if not qn.startswith("Tx."):
            continue
        for a in ast.walk(fn):
            if isinstance(a, ast.Attribute) and isinstance(a.ctx, ast.Load) and isinstance(a.value, ast.Name) and a.value.id == "self" and a.attr.startswith("_") \
                    and not a.attr.startswith("__"):
                if a.attr + "." not in "":
                    read.setdefault(a.attr, (qn, a))
    methods = {qn.split(".", 1)[1] for qn in mod.functions if qn.startswith("Tx.")}
    for attr, (qn, a) in sorted(read.items()):
        if attr in methods:
            continue
        if attr in inited:
            out.append(ctx.ok("tx:" + qn, "private attribute %s is initialised by the constructor" % attr, a, mod, key="init:" + attr))
        else:
            out.append(ctx.bad("tx:" + qn, "`self.%s` is read (%s) but the constructor initialises %s: the first call raises AttributeError" % (
                attr, qn, sorted(x for x in inited if x.startswith("_") and x[:8] == attr[:8]) or "no such attribute"), a, mod, key="init:" + attr))
    if not out:
        out.append(ctx.ok("tx:Tx", "no private memo attributes", init, mod, key="init-none"))
    return out


def c05_9(ctx):
    """annex predicate: spend_type bit and sha_annex use the same predicate call (DATAFLOW); in another form the BIP341 cells (C05.23: annex
    absent / present for every hash type) decide"""
    return rl.defer(ctx, _c05_9_struct(ctx), lambda: _bip341_cells(ctx), "decided by the BIP341 cells (C05.23: with and without annex the spend type and sha_annex of the digest are BIP341's); "
                    "the annex tests are not in the form the dataflow rule reads")


def _c05_9_struct(ctx):
    spec = "tx:Tx.sig_hash_bip341"
    mod, fn = rl.get(ctx, spec)
    cfg = cfg_of(fn)
    tests = []
    for n in cfg.tests():
        ex = expand(fn, n.id, n.ast, depth=3)
        if isinstance(ex, ast.Call) and call_name(ex) == "has_annex":
            tests.append(n)
    texts = {ast.unparse(expand(fn, n.id, n.ast, depth=3)) for n in tests}
    if not tests:
        return [ctx.err(spec, "no test of the annex predicate found", fn, mod)]
    if len(tests) >= 2 and len(texts) == 1:
        return [ctx.ok(spec, "spend_type and sha_annex are both controlled by `%s`" % texts.pop(), fn, mod, key="annex-pred")]
    if len(tests) == 1:
        return [ctx.ok(spec, "a single annex test controls both spend_type and sha_annex", fn, mod, key="annex-pred")]
    return [ctx.bad(spec, "annex handling uses different predicates: %s" % sorted(texts), fn, mod, key="annex-pred")]


def c05_10(ctx):
    """BIP341 annex predicate used by the message (spend_type bit 0 and sha_annex): annex present iff the witness has at
    least two elements and the last one starts with 0x50.  (A key-path witness is one element — a signature starting with
    0x50, 1 in 256, must not be taken for an annex.)"""
    from rules.C06 import annex_accept

    mod, fn, acc = annex_accept(ctx)
    want = ISet.range(2, None)
    if acc == want:
        return [ctx.ok("witness:Witness.has_annex", "annex is reported for witnesses with >= 2 items only (len(items) ∈ %s)" % acc, fn, mod, key="annex-domain")]
    diff = acc.minus(want).union(want.minus(acc))
    k = diff.witness((1, 0, 2))
    return [ctx.bad("witness:Witness.has_annex", "has_annex() can be true exactly for len(items) ∈ %s, BIP341: >= 2; with %s item(s) the taproot message gets the wrong "
                    "spend_type / sha_annex (a key-path spend whose signature starts with 0x50 is hashed as if it had an annex)" % (acc, k), fn, mod, key="annex-domain")]


def c05_11(ctx):
    """Tx.sig_hash chooses the BIP341 extension flag from the witness *after the annex is set aside*: key path (ext_flag 0) when
    one element is left, script path (ext_flag 1) when two or more are.  Cell evaluation of the dispatch over witnesses of 1..4
    items with and without an annex-looking last item; the digest functions are stand-ins that return how they were called."""
    from sa.cells import Evaluator, Obj, Raised, Undecided
    spec = "tx:Tx.sig_hash"
    mod, fn = rl.get(ctx, spec)
    shapes = []
    for k in range(1, 5):
        base = [bytes([0x20 + i]) * 4 for i in range(k)]
        shapes.append(list(base))
        if k >= 2:
            shapes.append(base[:-1] + [b"\x50\x01"])
    bad = None
    for items in shapes:
        annex = len(items) >= 2 and items[-1][:1] == b"\x50"
        want = 1 if len(items) - (1 if annex else 0) >= 2 else 0
        wit = Obj("witness", "Witness", {"items": list(items)})
        txin = Obj("tx", "TxIn", {"witness": wit, "script_sig": Obj("script", "Script", {"commands": []})})
        me = Obj("tx", "Tx", {"tx_ins": [txin], "network": "testnet"})
        spk = Obj("script", "P2TRScriptPubKey", {"commands": [0x51, bytes(32)]})
        ev = Evaluator(ctx.repo, method_hooks={
            ("TxIn", "script_pubkey"): lambda o, *a, **k: spk,
            ("Tx", "sig_hash_bip341"): lambda o, *a, **k: ("bip341", k.get("ext_flag", a[1] if len(a) > 1 else None)),
            ("Tx", "sig_hash_bip143"): lambda o, *a, **k: ("bip143",),
            ("Tx", "sig_hash_legacy"): lambda o, *a, **k: ("legacy",)})
        ctx.count("cells")
        try:
            r = ev.call(spec, [0, 0], self_obj=me)
        except Undecided as u:
            return [ctx.err(spec, "taproot dispatch not evaluable: %s" % u, fn, mod)]
        except Raised as x:
            bad = (items, annex, "raises %s" % x.name, want)
            break
        if r != ("bip341", want):
            bad = (items, annex, "calls %s" % (r,), want)
            break
    if bad:
        items, annex, what, want = bad
        return [ctx.bad(spec, "for a taproot witness of %d item(s)%s sig_hash %s; BIP341 uses ext_flag %d (%s path: the annex does not count)" % (
            len(items), " ending in an annex" if annex else "", what, want, "script" if want else "key"), fn, mod, key="ext-flag-annex")]
    return [ctx.ok(spec, "ext_flag = 1 exactly when two or more items remain after the annex is set aside (%d witness shapes)" % len(shapes), fn, mod, key="ext-flag-annex")]


def c05_12(ctx):
    """MUTABLE-DEFAULT: inputs / witnesses built with default arguments do not share one list (the digest of one input would see
    another input's witness items)"""
    from sa.mutdefault import mutable_default_obligation
    return mutable_default_obligation(ctx, ["tx", "witness", "script"], "filling in one input's witness changes what sig_hash reads for the others")


def c05_13(ctx):
    """MEMO: no method of the modules this property is anchored in answers from a value remembered from an earlier argument or an
    earlier state of the object (confirmed caches of the reference tree: sa/memo.py CONFIRMED_CACHES)"""
    from sa.memo import cache_obligation
    return cache_obligation(ctx, ["tx", "witness", "taproot", "phash"], "a signature hash (or one of its parts) computed once would be returned for other fields, inputs or hash types")


def c05_14(ctx):
    """SET-ORDER: no ordered result (list, serialisation, yielded sequence) of the modules this property is anchored in takes its
    order from the iteration order of a set"""
    from sa.setorder import setorder_obligation
    return setorder_obligation(ctx, ["tx", "witness", "taproot", "phash"], "the same inputs give different output from run to run")


def c05_15(ctx):
    """SHARED necessary conditions over the modules this property is anchored in: FALSY-DEFAULT, MUTABLE-DEFAULT, IDENTITY, ALIAS,
    CTOR-FORWARD (sa/shared.py)"""
    from sa.shared import shared_obligations
    return shared_obligations(ctx, ["tx", "witness", "taproot", "phash"], "the result would depend on something other than the arguments and the object's current state")


def c05_16(ctx):
    """the digest each multisig signature is verified against is the digest for *that signature's* hash type (shared with C06.16): the
    message a hash type selects is what this property specifies, and the verifier must ask for it per signature"""
    from rules.C06 import c06_16
    return c06_16(ctx)


def c05_17(ctx):
    """BIP341 tapleaf hash inside the script-path message: the leaf version is the control block's first byte *without its parity bit*.
    Witness.tap_leaf must take it from the parsed control block (`tapleaf_version`, decided by C12) or mask it with 0xfe itself"""
    spec = "witness:Witness.tap_leaf"
    mod, fn = rl.get(ctx, spec)
    out = []
    from sa.cfg import cfg_of as _cfg
    cfg = _cfg(fn)
    calls = [(n, c) for n, c in rl.find_calls(fn, "TapLeaf")]
    if not calls:
        raise AnalysisError("Witness.tap_leaf: TapLeaf(...) not found")
    for n, c in calls:
        args = list(c.args) + [k.value for k in c.keywords]
        if len(args) < 2:
            out.append(ctx.err(spec, "TapLeaf is built without a leaf version", c, mod))
            continue
        v = expand(fn, n.id, args[1], depth=4)
        o = origins(fn, n.id, args[1])
        masked = any(isinstance(b, ast.BinOp) and isinstance(b.op, ast.BitAnd) and any(isinstance(x, ast.Constant) and x.value == 0xFE for x in (b.left, b.right)) for b in ast.walk(v))
        if "attrname:tapleaf_version" in o or masked:
            out.append(ctx.ok(spec, "leaf version = %s" % ("control block's tapleaf_version" if not masked else "first byte & 0xfe"), c, mod, key="leaf-version-masked"))
        elif any(isinstance(x, ast.Subscript) and isinstance(x.slice, ast.Constant) and x.slice.value == 0 for x in ast.walk(v)):
            out.append(ctx.bad(spec, "the leaf version is `%s`, the control block's first byte with its parity bit: for a control block c1 (odd output key) the tapleaf hash in the "
                                     "BIP341 message is computed with version c1 instead of c0" % ast.unparse(v)[:80], c, mod, key="leaf-version-masked"))
        else:
            out.append(ctx.err(spec, "where the leaf version `%s` comes from is not recognised" % ast.unparse(v)[:80], c, mod))
    return out


def c05_18(ctx):
    """OWNERSHIP (shared with C06.13): verification works on its own copy of the witness -- popping the annex / control block while a script is
    evaluated must not change the witness the BIP341 digest is computed from"""
    from rules.C06 import c06_13
    return c06_13(ctx)


def c05_19(ctx):
    """the digest algorithm is chosen by the *spent output's type* for every hash type and input position: Tx.sig_hash evaluated over
    {p2pkh, p2sh, p2wpkh, p2wsh, p2tr} x hash types {1, 2, 3, 0x81, 0x82, 0x83} x input index {below, at, beyond} the number of outputs; the three
    digest functions are stand-ins that report being called.  (The legacy "SIGHASH_SINGLE without a matching output" constant belongs to the
    legacy algorithm only; BIP143 hashes zero hashOutputs instead.)"""
    from sa.cells import Evaluator, Obj, Raised, Undecided
    spec = "tx:Tx.sig_hash"
    mod, fn = rl.get(ctx, spec)
    h20, h32 = bytes([7]) * 20, bytes([9]) * 32
    kinds = {"p2pkh": ("P2PKHScriptPubKey", [0x76, 0xA9, h20, 0x88, 0xAC], "legacy"), "p2sh": ("P2SHScriptPubKey", [0xA9, h20, 0x87], "legacy"),
             "p2wpkh": ("P2WPKHScriptPubKey", [0, h20], "bip143"), "p2wsh": ("P2WSHScriptPubKey", [0, h32], "bip143"), "p2tr": ("P2TRScriptPubKey", [0x51, h32], "bip341"),
             "p2sh-p2wpkh": ("P2SHScriptPubKey", [0xA9, h20, 0x87], "bip143"), "p2sh-p2wsh": ("P2SHScriptPubKey", [0xA9, h20, 0x87], "bip143")}
    # the stand-ins report which algorithm was asked for, for which input, with which hash type and (legacy / BIP143) which RedeemScript --
    # under the parameter names and positions of the three digest functions
    def _args(names, a, k):
        d = dict(zip(names, a))
        d.update(k)
        return d
    hooks_base = {("Tx", "sig_hash_bip341"): lambda o, *a, **k: ("bip341", _args(("input_index", "ext_flag", "hash_type"), a, k)),
                  ("Tx", "sig_hash_bip143"): lambda o, *a, **k: ("bip143", _args(("input_index", "redeem_script", "witness_script", "hash_type"), a, k)),
                  ("Tx", "sig_hash_legacy"): lambda o, *a, **k: ("legacy", _args(("input_index", "redeem_script", "hash_type"), a, k))}
    cells = 0
    try:
        for kind, (cls, cmds, want) in kinds.items():
            spk = Obj("script", cls, {"commands": list(cmds)})
            for hash_type in (1, 2, 3, 0x81, 0x82, 0x83):
                for idx in (0, 1, 2):
                    cells += 1
                    wit = Obj("witness", "Witness", {"items": [b"\x30" * 64] if kind == "p2tr" else ([b"\x30" * 71, b"\x02" * 33] if want == "bip143" else [])})
                    red = Obj("script", "RedeemScript", {"commands": [0, h20] if kind == "p2sh-p2wpkh" else [0, h32] if kind == "p2sh-p2wsh" else [0x51, b"\x02" * 33, 0x51, 0xAE]})
                    ins = [Obj("tx", "TxIn", {"witness": wit, "script_sig": Obj("script", "Script", {"commands": [b"\x30" * 71, b"|".join([b"r"])] if kind.startswith("p2sh") else []})})
                           for _ in range(3)]
                    me = Obj("tx", "Tx", {"tx_ins": ins, "tx_outs": [Obj("tx", "TxOut", {"amount": 1})], "network": "testnet", "segwit": True, "version": 2, "locktime": 0})
                    hooks = dict(hooks_base)
                    hooks[("TxIn", "script_pubkey")] = lambda o, *a, **k: spk
                    hooks[("RedeemScript", "convert")] = lambda cls_, raw, *a, **k: red
                    hooks[("WitnessScript", "convert")] = lambda cls_, raw, *a, **k: Obj("script", "WitnessScript", {"commands": [0x51]})
                    try:
                        r = Evaluator(ctx.repo, method_hooks=hooks).call(spec, [idx, hash_type], self_obj=me)
                    except Raised as x:
                        r = "raises %s" % x.name
                    if isinstance(r, tuple) and len(r) == 2 and r[0] == want and isinstance(r[1], dict):
                        fw = r[1]
                        wrong = None
                        if fw.get("input_index") != idx:
                            wrong = "the digest is asked for input %s" % fw.get("input_index")
                        elif fw.get("hash_type", "default") != hash_type:
                            wrong = "the hash type handed to the %s digest is %s (its default, SIGHASH_ALL, when nothing is passed)" % (want.upper(), fw.get("hash_type", "not passed"))
                        elif kind.startswith("p2sh") and fw.get("redeem_script") is not red:
                            wrong = "the RedeemScript handed to the digest is not the one in the ScriptSig"
                        if wrong:
                            return [ctx.bad(spec, "for a %s input at index %d with hash type %#04x: %s -- the signature hash does not commit to what the hash type says" % (kind, idx, hash_type, wrong),
                                            fn, mod, key="digest-by-output-type")]
                        r = (want,)
                    elif isinstance(r, tuple) and len(r) == 2:
                        r = (r[0],)
                    if r != (want,):
                        return [ctx.bad(spec, "for a %s input at index %d of a transaction with 1 output and hash type %#04x, sig_hash gives %s instead of the %s digest: the "
                                              "algorithm is not chosen by the type of the spent output" % (kind, idx, hash_type, ("%#x" % r) if isinstance(r, int) else r, want.upper()),
                                        fn, mod, key="digest-by-output-type")]
    except Undecided as u:
        return [ctx.err(spec, "digest dispatch not evaluable: %s" % u, fn, mod)]
    ctx.count("cells", cells)
    return [ctx.ok(spec, "legacy / BIP143 / BIP341 chosen by the spent output's type in all %d (type, hash type, index) cells" % cells, fn, mod, key="digest-by-output-type")]


def c05_20(ctx):
    """which item of a script-path witness is the leaf script / the control block, with and without annex (rule shared with C12.10): the
    tapleaf hash of the BIP341/342 digest is computed from that item"""
    from rules.C12 import c12_10
    return c12_10(ctx)


DIGEST_FUNCTIONS = ("Tx.sig_hash", "Tx.sig_hash_legacy", "Tx.sig_hash_bip143", "Tx.sig_hash_bip341", "Tx.hash_prevouts", "Tx.hash_sequence", "Tx.hash_outputs",
                    "Tx.sha_prevouts", "Tx.sha_amounts", "Tx.sha_script_pubkeys", "Tx.sha_sequences", "Tx.sha_outputs")
SIGNED_INPUT_FIELDS = {"prev_tx", "prev_index", "sequence", "witness", "script_sig", "value", "script_pubkey"}


def c05_21(ctx):
    """DIGEST-SOURCE: a signature hash is a function of the transaction's current fields.  Of an input object the digest functions may read
    the outpoint, the sequence, the ScriptSig, the witness and the spent output (value(), script_pubkey()); an attribute outside this set that
    some other method assigns (`tx_in.tap_script`, left behind by initialize_p2tr_multisig) makes the digest depend on what was done to the
    object before, not on what it now is"""
    mod = ctx.repo.module("tx")
    # attributes of an input that methods other than TxIn.__init__ / parse assign: `<name>.attr = …` where <name> is an element of self.tx_ins
    assigned_elsewhere = {}
    for qn, fn in mod.functions.items():
        if qn in ("TxIn.__init__",):
            continue
        input_names = {"tx_in"} | {t.id for st in ast.walk(fn) if isinstance(st, ast.Assign) and len(st.targets) == 1 and isinstance(st.targets[0], ast.Name)
                                   and "tx_ins" in ast.unparse(st.value) for t in [st.targets[0]]}
        for st in ast.walk(fn):
            if isinstance(st, ast.Assign):
                for t in st.targets:
                    if isinstance(t, ast.Attribute) and isinstance(t.value, ast.Name) and t.value.id in input_names and not t.attr.startswith("_"):
                        assigned_elsewhere.setdefault(t.attr, qn)
    out = []
    n = 0
    for qn in DIGEST_FUNCTIONS:
        fn = mod.functions.get(qn)
        if fn is None:
            raise AnalysisError("digest function %s vanished" % qn)
        input_names = {"tx_in"} | {st.targets[0].id for st in ast.walk(fn) if isinstance(st, ast.Assign) and len(st.targets) == 1 and isinstance(st.targets[0], ast.Name)
                                   and "tx_ins" in ast.unparse(st.value)}
        for lp in ast.walk(fn):
            if isinstance(lp, (ast.For, ast.comprehension)) and "tx_ins" in ast.unparse(lp.iter):
                tg = lp.target
                input_names |= {x.id for x in ast.walk(tg) if isinstance(x, ast.Name)}
        for x in ast.walk(fn):
            if isinstance(x, ast.Attribute) and isinstance(x.ctx, ast.Load) and ((isinstance(x.value, ast.Name) and x.value.id in input_names) or
                                                                              (isinstance(x.value, ast.Subscript) and "tx_ins" in ast.unparse(x.value))):
                n += 1
                if x.attr in SIGNED_INPUT_FIELDS:
                    continue
                if x.attr in assigned_elsewhere:
                    out.append(ctx.bad("tx:" + qn, "the digest reads `%s`, an attribute of the input that %s assigns and that is not part of what is signed: after the witness (or "
                                                   "any signed field) is changed, the digest still follows the value left behind -- it depends on the object's history" % (
                                                       ast.unparse(x), assigned_elsewhere[x.attr]), x, mod, key="digest-source:" + x.attr))
                else:
                    out.append(ctx.err("tx:" + qn, "the digest reads `%s`, which is not one of the signed fields of an input" % ast.unparse(x), x, mod))
    if n < 12:
        raise AnalysisError("digest functions: only %d reads of input fields found" % n)
    if not out:
        out.append(ctx.ok("tx:Tx.sig_hash*", "%d reads of input attributes in the %d digest functions, all of signed fields (%s)" % (n, len(DIGEST_FUNCTIONS), ", ".join(sorted(SIGNED_INPUT_FIELDS))),
                          key="digest-source"))
    return out



def c05_22(ctx):
    """the leaf script of a script-path spend is hashed as the bytes the witness holds (rule shared with C12.22)"""
    from rules.C12 import c12_22
    return c12_22(ctx)



def _bip143_cells(ctx):
    if not hasattr(ctx, "_c05_bip143"):
        ctx._c05_bip143 = _bip143_cells_(ctx)
    return ctx._c05_bip143


def _bip143_cells_(ctx):
    """Tx.sig_hash_bip143 (with hash_prevouts / hash_sequence / hash_outputs) evaluated on a transaction of three inputs and two outputs whose
    every field has different bytes, for hash types {1, 2, 3, 0x81, 0x82, 0x83} × script code source {p2wpkh from the spent output, p2sh-p2wpkh
    from the RedeemScript, p2wsh from the WitnessScript} × input 0 / 2 (input 2 has no output of its index: SINGLE then commits to 32 zero
    bytes), against the rule's own BIP143 preimage.  Inputs, outputs and timelocks are stand-ins with fixed serialisations; the p2pkh script
    code is built by the repository's own script classes; hashing is the standard library's"""
    import hashlib
    from sa.cells import Evaluator, Obj, Raised, Undecided
    spec = "tx:Tx.sig_hash_bip143"
    mod, fn = rl.get(ctx, spec)
    h256 = lambda b: hashlib.sha256(hashlib.sha256(b).digest()).digest()
    vs = lambda b: bytes([len(b)]) + b
    prevs = [bytes((40 * i + j) & 255 for j in range(32)) for i in range(1, 4)]
    idxs, amounts, seqs = [5, 0, 258], [1000, 70000000000, 3], [0xFFFFFFFE, 7, 0xFFFFFFFF]
    h160 = bytes(range(0x30, 0x44))
    outs = [(21 + i, b"\x00\x14" + bytes([0xA0 + i]) * 20) for i in range(2)]
    out_ser = [a.to_bytes(8, "little") + vs(sp) for a, sp in outs]
    version, locktime = 2, 500001
    WS = b"\x51\x21" + bytes(range(1, 34)) + b"\x51\xae"
    p2pkh_code = b"\x76\xa9\x14" + h160 + b"\x88\xac"

    def ref(idx, ht, code):
        acp, base = ht & 0x80, ht & 3
        m = version.to_bytes(4, "little")
        m += bytes(32) if acp else h256(b"".join(prevs[i][::-1] + idxs[i].to_bytes(4, "little") for i in range(3)))
        m += bytes(32) if acp or base in (2, 3) else h256(b"".join(q.to_bytes(4, "little") for q in seqs))
        m += prevs[idx][::-1] + idxs[idx].to_bytes(4, "little") + vs(code) + amounts[idx].to_bytes(8, "little") + seqs[idx].to_bytes(4, "little")
        if base not in (2, 3):
            m += h256(b"".join(out_ser))
        elif base == 3 and idx < len(out_ser):
            m += h256(out_ser[idx])
        else:
            m += bytes(32)
        return m + locktime.to_bytes(4, "little") + ht.to_bytes(4, "little")
    hooks = {("TxIn", "value"): lambda o, *a, **k: o.attrs["amount_"], ("TxIn", "script_pubkey"): lambda o, *a, **k: o.attrs["spk_"],
             ("TxOut", "serialize"): lambda o, *a, **k: o.attrs["ser_"], ("WitnessScript", "serialize"): lambda o, *a, **k: vs(o.attrs["raw_"]),
             ("WitnessScript", "raw_serialize"): lambda o, *a, **k: o.attrs["raw_"]}
    for cls in ("Locktime", "Sequence"):
        hooks[(cls, "serialize")] = lambda o, *a, **k: o.attrs["n_"].to_bytes(4, "little")
    n = 0
    try:
        for ht in (1, 2, 3, 0x81, 0x82, 0x83):
            for kind in ("p2wpkh", "p2sh-p2wpkh", "p2wsh"):
                for idx in (0, 2):
                    n += 1
                    ins = [Obj("tx", "TxIn", {"prev_tx": prevs[i], "prev_index": idxs[i], "sequence": Obj("timelock", "Sequence", {"n_": seqs[i]}), "amount_": amounts[i],
                                              "witness": Obj("witness", "Witness", {"items": []}), "script_sig": Obj("script", "Script", {"commands": []}),
                                              "spk_": Obj("script", "P2WPKHScriptPubKey", {"commands": [0, h160]})}) for i in range(3)]
                    touts = [Obj("tx", "TxOut", {"amount": a, "ser_": out_ser[i]}) for i, (a, sp) in enumerate(outs)]
                    me = Obj("tx", "Tx", {"version": version, "tx_ins": ins, "tx_outs": touts, "locktime": Obj("timelock", "Locktime", {"n_": locktime}), "network": "mainnet",
                                          "segwit": True, "_hash_prevouts": None, "_hash_sequence": None, "_hash_outputs": None})
                    kw = {"hash_type": ht}
                    if kind == "p2sh-p2wpkh":
                        kw["redeem_script"] = Obj("script", "RedeemScript", {"commands": [0, h160]})
                    if kind == "p2wsh":
                        kw["witness_script"] = Obj("script", "WitnessScript", {"raw_": WS, "commands": [0x51, bytes(range(1, 34)), 0x51, 0xAE]})
                    where = "hash type %#04x, %s, input %d" % (ht, kind, idx)
                    try:
                        got = Evaluator(ctx.repo, method_hooks=hooks, max_steps=600000).call(spec, [idx], kwargs=kw, self_obj=me)
                    except Raised as x:
                        ctx.count("cells", n)
                        return [ctx.bad(spec, "%s: the digest function raises %s" % (where, x.name), fn, mod, key="bip143-cells")]
                    want = int.from_bytes(h256(ref(idx, ht, WS if kind == "p2wsh" else p2pkh_code)), "big")
                    if got != want:
                        ctx.count("cells", n)
                        return [ctx.bad(spec, "%s: the digest is not the BIP143 signature hash (hashPrevouts / hashSequence / hashOutputs are the hash or 32 zero bytes as the hash "
                                              "type says; the script code is %s)" % (where, "the WitnessScript" if kind == "p2wsh" else "the p2pkh script of the key hash"), fn, mod, key="bip143-cells")]
    except Undecided as u:
        return [ctx.err(spec, "BIP143 digest not evaluable: %s" % u, fn, mod)]
    ctx.count("cells", n)
    return [ctx.ok(spec, "%d cells (hash type × script code source × input): the digest equals hash256 of the rule's own BIP143 preimage" % n, fn, mod, key="bip143-cells")]


def c05_3_deferring(ctx):
    """BIP143 preimage layout per hash type (symbolic execution of the writer); in a form the layout executor does not read, the BIP143 cells
    (C05.24) decide"""
    return rl.deferring(c05_3, _bip143_cells, "tx:Tx.sig_hash_bip143", "decided by the BIP143 cells (C05.24: hash type × script code source × input, digest equals the rule's own preimage); "
                        "the writer is not in the form the layout executor reads", FLOORS.get("C05.3", 1))(ctx)


def c05_24(ctx):
    """CELLS BIP143 digest: the whole function over the control parameters"""
    return _bip143_cells(ctx)


OBLIGATIONS = [
    ("C05.24", "CELLS BIP143 digest", c05_24),
    ("C05.22", "CELLS leaf bytes (shared C12.22)", c05_22),
    ("C05.23", "CELLS BIP341 digest", c05_23),
    ("C05.21", "DIGEST-SOURCE", c05_21),
    ("C05.20", "CELLS annex index (shared C12.10)", c05_20),
    ("C05.18", "OWNERSHIP (shared C06.13)", c05_18),
    ("C05.19", "CELLS digest dispatch", c05_19),
    ("C05.16", "PER-ITERATION digest (shared C06.16)", c05_16),
    ("C05.17", "DATAFLOW mask", c05_17),
    ("C05.15", "SHARED", c05_15),
    ("C05.14", "SET-ORDER", c05_14),
    ("C05.13", "MEMO", c05_13),
    ("C05.1", "COUNT", c05_1),
    ("C05.2", "LAYOUT vs spec", c05_2),
    ("C05.3", "LAYOUT vs spec", c05_3_deferring),
    ("C05.4", "LAYOUT vs spec", c05_4),
    ("C05.5", "TABLE dispatch", c05_5),
    ("C05.6", "MEMO", c05_6),
    ("C05.7", "MEMO init", c05_7),
    ("C05.9", "DATAFLOW", c05_9),
    ("C05.10", "RANGE accept-set", c05_10),
    ("C05.11", "CELLS dispatch", c05_11),
    ("C05.12", "MUTABLE-DEFAULT", c05_12),
]
FLOORS = {"C05.1": 12, "C05.2": 7, "C05.3": 9, "C05.4": 28, "C05.5": 7, "C05.11": 1}
