"""C06 — input verification soundness (structural clauses)."""
import ast

from sa import rl
from sa.cfg import cfg_of, reach_ps
from sa.dataflow import call_name, dotted, expand, origins
from sa.fold import Folder, Unknown
from sa.guard import BAD_FALSE, BAD_TRUE, Guard, find_guards, loop_iteration_guard
from sa.interval import ISet
from sa.loader import AnalysisError, param_names
from sa.ranges import Ranges, key_of

EXPLANATION = (
    "Static analysis of buidl/op.py, script.py, tx.py, witness.py: per-iteration cut-set on the CHECKMULTISIG signature loop, polarity of the "
    "value pushed by the CHECKSIG family, cut-sets protecting the P2SH / P2WSH / tapscript splices (hash and commitment comparisons), the "
    "accept-set of the annex predicate, reachability of a fall-through in the witness-v1 arm in the product of the CFG with the interval state of "
    "len(witness), presence of the BIP141 empty-scriptSig rule, Tx.verify covering every input, and agreement of script template predicates with "
    "their constructors. Not decided: that properly signed spends verify, unforgeability, the full mutation catalogue."
)


def _verify_tests(fn, names=("verify", "verify_schnorr")):
    cfg = cfg_of(fn)
    return [n for n in cfg.tests() if isinstance(n.ast, ast.Call) and call_name(n.ast) in names]


def c06_1(ctx):
    spec = "op:op_checkmultisig"
    mod, fn = rl.get(ctx, spec)
    cfg = cfg_of(fn)
    vt = _verify_tests(fn, ("verify",))
    if not vt:
        raise AnalysisError("op_checkmultisig: no signature verification call used as a branch condition")
    guards = [Guard(n, BAD_FALSE) for n in vt]
    # the signature loop: outermost loop containing the verification test
    loops = [cfg.loops[h] for h in vt[0].loops]
    if not loops:
        raise AnalysisError("op_checkmultisig: verification is not inside a loop")
    sig_loop = loops[0]
    # success push
    pushes = [n for n in cfg.stmts(("stmt",)) if isinstance(n.ast, ast.Expr) and isinstance(n.ast.value, ast.Call) and call_name(n.ast.value) == "append"
              and "encode_num(1)" in ast.unparse(n.ast.value) and not n.loops]
    ok, wit = loop_iteration_guard(fn, sig_loop, guards)
    out = []
    if ok:
        out.append(ctx.ok(spec, "no iteration of the signature loop completes without a verify-true edge for that signature", sig_loop.stmt, mod, key="per-signature"))
    else:
        out.append(ctx.bad(spec, "a signature that no remaining key verifies does not fail the opcode: the iteration falls through when the key list is exhausted "
                           "(a 1-of-2 spend carrying a foreign signature is accepted); path: %s" % wit, sig_loop.stmt, mod, key="per-signature", detail={"path": wit}))
    if not pushes:
        raise AnalysisError("op_checkmultisig: success push not found")
    # the success push lies after the loop only
    out.append(ctx.ok(spec, "success value is pushed after the signature loop (line %d)" % pushes[0].lineno, pushes[0].ast, mod, key="push-after-loop"))
    # counts: n keys popped, m signatures popped, one extra pop (off-by-one bug)
    return out


def c06_2(ctx):
    out = []
    for spec, names in (("op:op_checksig", ("verify",)), ("op:op_checksig_schnorr", ("verify_schnorr",)), ("op:op_checksigadd_schnorr", ("verify_schnorr",))):
        mod, fn = rl.get(ctx, spec)
        cfg = cfg_of(fn)
        vt = _verify_tests(fn, names)
        if len(vt) != 1:
            raise AnalysisError("%s: expected one verification branch, found %d" % (spec, len(vt)))
        n = vt[0]
        pushed = {}
        for b, l in cfg.succ[n.id]:
            a = cfg.nodes[b].ast
            if isinstance(a, ast.Expr) and isinstance(a.value, ast.Call) and call_name(a.value) == "append" and a.value.args:
                pushed[l] = ast.unparse(a.value.args[0])
        add = spec.endswith("checksigadd_schnorr")
        if add:
            good = pushed.get(True) in ("encode_num(n + 1)", "encode_num(1 + n)") and pushed.get(False) == "encode_num(n)"
        else:
            good = pushed.get(True) == "encode_num(1)" and pushed.get(False) == "encode_num(0)"
        if good:
            out.append(ctx.ok(spec, "verify-true pushes %s, verify-false pushes %s" % (pushed[True], pushed[False]), n.ast, mod, key="polarity"))
        else:
            out.append(ctx.bad(spec, "value pushed on verify-true is %s and on verify-false %s" % (pushed.get(True), pushed.get(False)), n.ast, mod, key="polarity"))
        # no other site pushes the success value
        succ_txt = ("encode_num(n + 1)", "encode_num(1 + n)") if add else ("encode_num(1)",)
        others = []
        for s in cfg.stmts(("stmt",)):
            a = s.ast
            if isinstance(a, ast.Expr) and isinstance(a.value, ast.Call) and call_name(a.value) == "append" and a.value.args and ast.unparse(a.value.args[0]) in succ_txt:
                if not any(p == n.id and l is True for p, l in cfg.pred[s.id]):
                    others.append(s)
        if others:
            out.append(ctx.bad(spec, "the success value is also pushed at line %d, outside the verify-true edge" % others[0].lineno, others[0].ast, mod, key="other-success"))
        else:
            out.append(ctx.ok(spec, "the success value is pushed only on the verify-true edge", fn, mod, key="other-success"))
        # the digest verified is sig_hash(input_index, hash_type) of this transaction
        z = [c for _, c in rl.find_calls(fn, "sig_hash")]
        if len(z) == 1 and len(z[0].args) == 2 and ast.unparse(z[0].args[0]) == param_names(fn)[2] and dotted(z[0].func.value) == param_names(fn)[1]:
            out.append(ctx.ok(spec, "digest is tx.sig_hash(input_index, hash_type from the signature)", z[0], mod, key="digest"))
        else:
            out.append(ctx.bad(spec, "digest is not tx_obj.sig_hash(input_index, hash_type): %s" % [ast.unparse(c) for c in z], fn, mod, key="digest"))
    return out


def _extend_targets(fn, what):
    """CFG nodes `commands.extend(...)` / `commands = ...` whose argument derives from `what` atoms"""
    cfg = cfg_of(fn)
    out = []
    for n in cfg.stmts(("stmt",)):
        a = n.ast
        arg = None
        if isinstance(a, ast.Expr) and isinstance(a.value, ast.Call) and call_name(a.value) == "extend" and dotted(a.value.func.value) == "commands":
            arg = a.value.args[0]
        elif isinstance(a, ast.Assign) and isinstance(a.targets[0], ast.Name) and a.targets[0].id == "commands" and n.loops:
            arg = a.value
        if arg is None:
            continue
        at = origins(fn, n.id, arg)
        txt = ast.unparse(expand(fn, n.id, arg, depth=8))
        if what(at, txt):
            out.append(n)
    return out


def c06_3(ctx):
    """P2SH: redeem script spliced only after HASH160 / EQUAL / VERIFY succeeded"""
    spec = "script:Script.evaluate"
    mod, fn = rl.get(ctx, spec)
    tg = _extend_targets(fn, lambda at, txt: ".parse(" in txt and "witness" not in txt and "encode_varstr(command" in txt)
    if not tg:
        raise AnalysisError("evaluate: P2SH redeem-script splice not found")
    out = []
    for opname in ("op_hash160", "op_equal", "op_verify"):
        def match(node, ex, atoms, opname=opname):
            t = node.ast
            if isinstance(t, ast.Call) and call_name(t) == opname:
                return BAD_FALSE
            return None
        out.append(rl.guard(ctx, spec, match, targets=lambda m, f: tg, fail="raise_or_false", what="P2SH splice requires %s to succeed" % opname, key="p2sh-" + opname))
    # the compared hash is the 20-byte push of the scriptPubKey
    cfg = cfg_of(fn)
    apps = [n for n in cfg.stmts(("stmt",)) if isinstance(n.ast, ast.Expr) and isinstance(n.ast.value, ast.Call) and call_name(n.ast.value) == "append"
            and dotted(n.ast.value.func.value) == "stack" and n.ast.value.args and "call:pop" in origins(fn, n.id, n.ast.value.args[0])
            and any(a in ("name:commands", "attr:self.commands") for a in origins(fn, n.id, n.ast.value.args[0]))]
    if apps:
        out.append(ctx.ok(spec, "the hash compared is the one popped from the remaining commands (the scriptPubKey's)", apps[0].ast, mod, key="p2sh-hash-source"))
    else:
        out.append(ctx.bad(spec, "the hash pushed for OP_EQUAL does not come from the scriptPubKey commands", fn, mod, key="p2sh-hash-source"))
    return out


def c06_4(ctx):
    """P2WSH: witness script spliced only after sha256(witness_script) == program"""
    spec = "script:Script.evaluate"
    mod, fn = rl.get(ctx, spec)
    tg = _extend_targets(fn, lambda at, txt: ".parse(" in txt and "witness.items[-1]" in txt)
    if not tg:
        raise AnalysisError("evaluate: P2WSH witness-script splice not found")

    def match(node, ex, atoms):
        t = node.ast
        if isinstance(t, ast.Compare) and len(t.ops) == 1 and isinstance(t.ops[0], (ast.Eq, ast.NotEq)):
            lo, ro = origins(fn, node.id, t.left), origins(fn, node.id, t.comparators[0])
            for a, b in ((lo, ro), (ro, lo)):
                if "call:sha256" in a and any(x.startswith("attr:witness") for x in a) and "call:pop" in b and "call:sha256" not in b:
                    return BAD_TRUE if isinstance(t.ops[0], ast.NotEq) else BAD_FALSE
        return None
    return [rl.guard(ctx, spec, match, targets=lambda m, f: tg, fail="raise_or_false", what="P2WSH splice requires sha256(witness script) == witness program", key="p2wsh-commit")]


def annex_accept(ctx):
    """accept-set of len(self.items) for Witness.has_annex() being truthy"""
    mod, fn = rl.get(ctx, "witness:Witness.has_annex")
    key = "len(self.items)"
    ra = Ranges(ctx.repo, mod, fn, {key: ISet.range(0, None)})
    cfg = cfg_of(fn)
    acc = ISet.empty()
    for n in cfg.returns():
        if n.ast is None or n.ast.value is None:
            continue
        v = n.ast.value
        if isinstance(v, ast.Constant) and not v.value:
            continue
        st = ra.in_state.get(n.id)
        if st is None:
            continue
        conj = v.values if isinstance(v, ast.BoolOp) and isinstance(v.op, ast.And) else [v]
        for c in conj:
            if ra.mentions(c, st):
                st2, ok = ra.refine(c, st, True)
                if not ok:
                    raise AnalysisError("has_annex: conjunct `%s` not interpreted" % ast.unparse(c))
                if st2 is None:
                    st = None
                    break
                st = st2
        if st is not None:
            acc = acc.union(st.vals[key])
    return mod, fn, acc


def c06_5(ctx):
    mod, fn, acc = annex_accept(ctx)
    if acc.issubset(ISet.range(2, None)):
        return [ctx.ok("witness:Witness.has_annex", "annex reported only for witnesses with %s items" % acc, fn, mod, key="annex-min2")]
    return [ctx.bad("witness:Witness.has_annex", "a witness with %d item(s) whose last item starts with 0x50 is reported as carrying an annex; BIP341 requires at least two "
                    "witness elements (accept-set of len(items): %s)" % (acc.minus(ISet.range(2, None)).witness(), acc), fn, mod, key="annex-min2")]


def c06_6(ctx):
    """witness-v1 arm: no feasible fall-through (product with the interval state of len(witness))"""
    spec = "script:Script.evaluate"
    mod, fn = rl.get(ctx, spec)
    cfg = cfg_of(fn)
    _, _, annex_acc = annex_accept(ctx)
    key = "len(witness)"

    def effects(a, st, ra):
        # witness.items.pop() shrinks the witness by one
        if isinstance(a, ast.Expr) and isinstance(a.value, ast.Call) and call_name(a.value) == "pop" and dotted(a.value.func.value) in ("witness.items", "witness"):
            st.vals[key] = st.vals[key].add(-1)
            return True
        return False
    ra = Ranges(ctx.repo, mod, fn, {key: ISet.range(0, None)}, effects=effects, callee_accept={"witness.has_annex()": (key, annex_acc)})
    # entry of the arm: the test that recognises a v1 program: stack[0] == b"\x01"
    arm = None
    for n in cfg.tests():
        t = n.ast
        if isinstance(t, ast.Compare) and len(t.ops) == 1 and isinstance(t.ops[0], ast.Eq) and isinstance(t.comparators[0], ast.Constant) and t.comparators[0].value == b"\x01":
            arm = n
    if arm is None:
        raise AnalysisError("evaluate: witness-v1 arm not found")
    # follow the conjunction to the arm body: first non-test node reachable over True edges
    cur = arm.id
    body_entry = None
    seen = set()
    while cur not in seen:
        seen.add(cur)
        nxt = [b for b, l in cfg.succ[cur] if l is True]
        if not nxt:
            break
        if cfg.nodes[nxt[0]].kind == "test" and cfg.nodes[nxt[0]].lineno == arm.lineno:
            cur = nxt[0]
            continue
        body_entry = nxt[0]
        break
    if body_entry is None:
        raise AnalysisError("evaluate: body of the witness-v1 arm not found")
    # terminal events inside the arm
    terminals = set()
    for n in cfg.nodes:
        if n.kind == "return":
            terminals.add(n.id)
        a = n.ast
        if n.kind == "stmt" and a is not None:
            if any(isinstance(c, ast.Call) and call_name(c) in ("op_checksig_schnorr", "op_checksigverify_schnorr") for c in ast.walk(a)):
                terminals.add(n.id)
            if isinstance(a, ast.Assign) and isinstance(a.targets[0], ast.Name) and a.targets[0].id == "commands" and n.loops:
                terminals.add(n.id)
    loop_head = arm.loops[-1] if arm.loops else None
    if loop_head is None:
        raise AnalysisError("evaluate: witness-v1 arm is not inside the interpreter loop")
    # product reachability: follow only edges whose interval state is non-empty
    from collections import deque
    dq = deque([body_entry])
    prev = {body_entry: None}
    hit = None
    while dq:
        a = dq.popleft()
        if a == loop_head:
            hit = a
            break
        if a in terminals:
            continue
        for b, l in cfg.succ[a]:
            if l == "exc":
                continue
            if ra.edge_state.get((a, b, l)) is None:
                continue
            if b not in prev:
                prev[b] = (a, l)
                dq.append(b)
    if hit is None:
        return [ctx.ok(spec, "every feasible path through the witness-v1 arm ends in a rejection, the key-path signature check or the script-path splice "
                       "(interval state of len(witness) makes the fall-through infeasible)", arm.ast, mod, key="v1-fallthrough")]
    path = []
    cur = hit
    lab = None
    while cur is not None:
        path.append((cur, lab))
        p = prev[cur]
        if p is None:
            break
        cur, lab = p
    path.reverse()
    last = path[-2][0] if len(path) > 1 else body_entry
    st = ra.in_state.get(last)
    wv = st.vals[key] if st else ISet.empty()
    es = ra.edge_state.get((path[-2][0], hit, path[-2][1])) if len(path) > 1 else None
    if es is not None:
        wv = es.vals[key]
    return [ctx.bad(spec, "the witness-v1 arm can be left without any signature check: with len(witness) ∈ %s after annex stripping none of the key-path / script-path "
                    "branches is taken and evaluation continues with the program still on the stack (a witness consisting of one 0x50… item makes the input verify); path: %s" % (
                        wv, cfg.fmt_path(path)), arm.ast, mod, key="v1-fallthrough", detail={"path": cfg.fmt_path(path), "len_witness": repr(wv)})]


def c06_7(ctx):
    """script path: splice dominated by the parity and x-only commitment comparisons"""
    spec = "script:Script.evaluate"
    mod, fn = rl.get(ctx, spec)
    cfg = cfg_of(fn)
    tg = [n for n in cfg.stmts(("stmt",)) if isinstance(n.ast, ast.Assign) and isinstance(n.ast.targets[0], ast.Name) and n.ast.targets[0].id == "commands" and n.loops
          and "call:tap_script" in origins(fn, n.id, n.ast.value)]
    if not tg:
        raise AnalysisError("evaluate: tapscript splice not found")

    def m_parity(node, ex, atoms):
        t = node.ast
        if isinstance(t, ast.Compare) and len(t.ops) == 1 and isinstance(t.ops[0], (ast.Eq, ast.NotEq)):
            l, r = t.left, t.comparators[0]
            if isinstance(l, ast.Attribute) and isinstance(r, ast.Attribute) and l.attr == "parity" and r.attr == "parity":
                lo, ro = origins(fn, node.id, l.value), origins(fn, node.id, r.value)
                if ("call:external_pubkey" in lo) != ("call:external_pubkey" in ro) and ("call:control_block" in lo or "call:control_block" in ro):
                    return BAD_TRUE if isinstance(t.ops[0], ast.NotEq) else BAD_FALSE
        return None

    def m_xonly(node, ex, atoms):
        t = node.ast
        if isinstance(t, ast.Compare) and len(t.ops) == 1 and isinstance(t.ops[0], (ast.Eq, ast.NotEq)):
            lo, ro = origins(fn, node.id, t.left), origins(fn, node.id, t.comparators[0])
            for a, b in ((lo, ro), (ro, lo)):
                if "call:xonly" in a and "call:external_pubkey" in a and ("call:pop" in b or any(x.startswith("index:") for x in b)) and "call:external_pubkey" not in b:
                    return BAD_TRUE if isinstance(t.ops[0], ast.NotEq) else BAD_FALSE
        return None
    out = [
        rl.guard(ctx, spec, m_parity, targets=lambda m, f: tg, fail="raise_or_false", what="tapscript splice requires the control block parity to match the tweaked key", key="tap-parity"),
        rl.guard(ctx, spec, m_xonly, targets=lambda m, f: tg, fail="raise_or_false", what="tapscript splice requires the tweaked key to equal the witness program", key="tap-xonly"),
    ]
    # the tweaked key is derived from the control block and the executed leaf script
    n = tg[0]
    sp = origins(fn, n.id, n.ast.value)
    ext = [c for _, c in rl.find_calls(fn, "external_pubkey")]
    if ext and ext[0].args and "call:tap_script" in origins(fn, n.id, ext[0].args[0]):
        out.append(ctx.ok(spec, "the commitment is recomputed over the tap script that is going to be executed", ext[0], mod, key="tap-leaf"))
    else:
        out.append(ctx.bad(spec, "external_pubkey() is not computed over the executed tap script", fn, mod, key="tap-leaf"))
    return out


WITNESS_PREDICATES = {"is_p2wpkh", "is_p2wsh", "is_p2tr", "is_witness_script", "is_witness_program", "is_segwit"}


def _bip141_cells(ctx):
    """Tx.verify_input evaluated on spends of native witness outputs (p2wpkh, p2wsh, p2tr) whose ScriptSig is not empty -- a junk push, OP_1, a
    33-byte push -- with an empty witness and with a witness that would satisfy the program: none may verify (BIP141), while the same witness
    with an empty ScriptSig does.  Hashes and signature checks are stand-ins.  None when outside the evaluator's subset."""
    import hashlib
    from sa.cells import Evaluator, Obj, Raised, Undecided
    spec = "tx:Tx.verify_input"
    mod, fn = rl.get(ctx, spec)
    H = lambda x: hashlib.sha1(bytes(x)).digest()
    S = lambda x: hashlib.sha256(bytes(x)).digest()
    PUB, SIG, XO, SSIG = b"\x02" + b"\x11" * 32, b"\x30" + b"\x01" * 70, b"\x33" * 32, b"\x44" * 64
    WS = b"<script:true>"
    scripts = {WS: [0x51]}

    def sig_op(stack, *a, **k_):
        if len(stack) < 2:
            return False
        pub, sig = stack.pop(), stack.pop()
        stack.append(b"\x01" if (sig, pub) in {(SIG, PUB), (SSIG, XO)} else b"")
        return True

    def opaque(name, args, kw):
        if name == "op_hash160":
            if not args[0]:
                return False
            args[0].append(H(args[0].pop()))
            return True
        if name in ("op_checksig", "op_checksig_schnorr"):
            return sig_op(*args)
        if name == "hash160":
            return H(args[0])
        if name == "sha256":
            return S(args[0])
        return NotImplemented

    def parse(cls, stream, *a, **k_):
        txt = stream.text if hasattr(stream, "text") else stream
        for b_, cmds in scripts.items():
            if isinstance(txt, bytes) and txt.endswith(b_):
                return Obj("script", "Script", {"commands": list(cmds)})
        raise Raised("ValueError")
    outs = {"p2wpkh": ("P2WPKHScriptPubKey", [0, H(PUB)], [SIG, PUB]), "p2wsh": ("P2WSHScriptPubKey", [0, S(WS)], [WS]), "p2tr": ("P2TRScriptPubKey", [0x51, XO], [SSIG])}
    try:
        for kind, (cls, cmds, good_wit) in outs.items():
            spk = Obj("script", cls, {"commands": list(cmds)})
            for sig_cmds, wit, want in ([[], good_wit, True], [[b"junk"], [], False], [[0x51], [], False], [[b"\x02" + b"\x7e" * 32], [], False], [[b"junk"], good_wit, False]):
                ctx.count("cells")
                txin = Obj("tx", "TxIn", {"script_sig": Obj("script", "Script", {"commands": list(sig_cmds)}), "witness": Obj("witness", "Witness", {"items": list(wit)}),
                                          "sequence": 0xFFFFFFFF})
                tx = Obj("tx", "Tx", {"tx_ins": [txin], "network": "testnet", "locktime": 0, "version": 2})
                hooks = {("TxIn", "script_pubkey"): lambda o, *a, **k_: spk, ("Script", "parse"): parse}
                try:
                    r = Evaluator(ctx.repo, opaque=opaque, method_hooks=hooks, max_steps=400000).call(spec, [0], self_obj=tx)
                except Raised:
                    r = False
                if bool(r) != want:
                    if want:
                        return [ctx.bad(spec, "an honest %s spend (empty ScriptSig, satisfying witness) is not accepted" % kind, fn, mod, key="bip141-empty-scriptsig")]
                    shown = " ".join(c.hex()[:8] if isinstance(c, bytes) else "OP_%d" % (c - 0x50) for c in sig_cmds)
                    return [ctx.bad(spec, "a %s output spent with the non-empty ScriptSig `%s` and %s is reported valid: BIP141 requires an empty ScriptSig for a native witness "
                                          "program; the extra stack items keep the witness rule from firing and the program itself is a true value" % (
                                              kind, shown, "an empty witness" if not wit else "its witness"), fn, mod, key="bip141-empty-scriptsig")]
    except Undecided:
        return None
    return [ctx.ok(spec, "a witness-program spend with a non-empty scriptSig is rejected (p2wpkh, p2wsh, p2tr x 4 ScriptSigs; the honest spends verify)", fn, mod,
                   key="bip141-empty-scriptsig")]


def c06_8(ctx):
    """BIP141: native witness program with a non-empty scriptSig is rejected"""
    ev = _bip141_cells(ctx)
    if ev is not None:
        return ev
    cands = []
    for spec in ("tx:Tx.verify_input", "script:Script.evaluate"):
        mod, fn = rl.get(ctx, spec)
        cfg = cfg_of(fn)
        has_pred = any(isinstance(c, ast.Call) and call_name(c) in WITNESS_PREDICATES for c in ast.walk(fn))
        for n in cfg.tests():
            at = origins(fn, n.id, n.ast)
            mentions_sig = "attrname:script_sig" in at or "name:script_sig" in at or any(a.startswith("name:script_sig") for a in at) or "name:original_commands" in at
            if mentions_sig:
                # accepted shape: a failure node (return False / raise) that is reachable only through the "scriptSig non-empty" edge of
                # this test and through the true edge of a witness-program predicate
                fails = False
                pred_tests = [t for t in cfg.tests() if isinstance(t.ast, ast.Call) and call_name(t.ast) in WITNESS_PREDICATES]
                for label in (True, False):
                    for r in cfg.nodes:
                        if not (r.kind == "raise" or (r.kind == "return" and _is_false_return(r))):
                            continue
                        if r.id not in cfg.reach([cfg.entry]):
                            continue
                        without_sig = cfg.reach([cfg.entry], removed={(n.id, label)})
                        without_pred = cfg.reach([cfg.entry], removed={(t.id, True) for t in pred_tests})
                        if r.id not in without_sig and r.id not in without_pred and pred_tests:
                            fails = True
                cands.append((spec, mod, fn, n, fails, has_pred))
    good = [c for c in cands if c[4] and c[5]]
    if good:
        spec, mod, fn, n, _, _ = good[0]
        # which native witness programs does the rejection cover?  (helper predicates are opened one level)
        base = {"is_p2wpkh": "p2wpkh", "is_p2wsh": "p2wsh", "is_p2tr": "p2tr"}
        covered = set()
        for t in cfg_of(fn).tests():
            if isinstance(t.ast, ast.Call) and call_name(t.ast) in WITNESS_PREDICATES:
                nm = call_name(t.ast)
                if nm in base:
                    covered.add(base[nm])
                else:
                    hm = ctx.repo.module("script")
                    hf = hm.functions.get("Script." + nm) or hm.functions.get("ScriptPubKey." + nm)
                    if hf is None:
                        return [ctx.err(spec, "witness predicate %s() cannot be resolved" % nm, t.ast, mod)]
                    ctx.note_fn(hm, hf)
                    covered |= {base[call_name(c)] for c in ast.walk(hf) if isinstance(c, ast.Call) and call_name(c) in base}
        missing = sorted({"p2wpkh", "p2wsh", "p2tr"} - covered)
        if missing:
            return [ctx.bad(spec, "the empty-scriptSig rule covers %s but not %s: a %s output spent with a non-empty scriptSig and an empty witness leaves extra stack items, "
                                  "the witness arm is skipped and the program evaluates to true without any signature" % (sorted(covered), missing, missing[0].upper()),
                            n.ast, mod, key="bip141-empty-scriptsig")]
        return [ctx.ok(spec, "a witness-program spend with a non-empty scriptSig is rejected (test at line %d)" % n.lineno, n.ast, mod, key="bip141-empty-scriptsig")]
    if cands:
        spec, mod, fn, n, _, _ = cands[0]
        return [ctx.err(spec, "a scriptSig test exists (line %d) but its shape is not one of the recognised rejections" % n.lineno, n.ast, mod)]
    mod, fn = rl.get(ctx, "tx:Tx.verify_input")
    return [ctx.bad("tx:Tx.verify_input", "nothing rejects a non-empty scriptSig when the spent output is a native witness program (BIP141): `[junk] + OP_0 <20>` leaves "
                    "extra items and evaluates to true without any signature; no test in verify_input or Script.evaluate reads the scriptSig together with a witness-program predicate",
                    fn, mod, key="bip141-empty-scriptsig")]


def _is_false_return(n):
    from sa.cfg import returns_failure
    return returns_failure(n)


def c06_9(ctx):
    spec = "tx:Tx.verify"
    mod, fn = rl.get(ctx, spec)
    cfg = cfg_of(fn)
    vt = [n for n in cfg.tests() if isinstance(n.ast, ast.Call) and call_name(n.ast) == "verify_input"]
    if not vt:
        raise AnalysisError("Tx.verify: verify_input not used as a branch condition")
    n = vt[0]
    out = []
    loops = [cfg.loops[h] for h in n.loops]
    if not loops:
        return [ctx.bad(spec, "verify_input is not called in a loop over the inputs", n.ast, mod, key="all-inputs")]
    lp = loops[0]
    it = ast.unparse(lp.stmt.iter) if isinstance(lp.stmt, ast.For) else ""
    if it in ("range(len(self.tx_ins))", "enumerate(self.tx_ins)"):
        out.append(ctx.ok(spec, "loop covers every input index (`%s`)" % it, lp.stmt, mod, key="all-inputs"))
    else:
        out.append(ctx.bad(spec, "loop iterates `%s`, not every input index" % it, lp.stmt, mod, key="all-inputs"))
    ok, wit = loop_iteration_guard(fn, lp, [Guard(n, BAD_FALSE)])
    if ok:
        out.append(ctx.ok(spec, "an input that does not verify makes verify() return False", n.ast, mod, key="false-propagates"))
    else:
        out.append(ctx.bad(spec, "an iteration can complete although verify_input returned False: %s" % wit, n.ast, mod, key="false-propagates"))
    # the index passed is the loop variable
    arg = n.ast.args[0] if n.ast.args else None
    lv = [x.id for x in ast.walk(lp.stmt.target) if isinstance(x, ast.Name)] if isinstance(lp.stmt, ast.For) else []
    if isinstance(arg, ast.Name) and lv and arg.id == lv[0]:
        out.append(ctx.ok(spec, "verify_input receives the loop index", n.ast, mod, key="index"))
    else:
        out.append(ctx.bad(spec, "verify_input is called with `%s`, not the loop index" % (ast.unparse(arg) if arg is not None else None), n.ast, mod, key="index"))
    return out


def _template_of_predicate(repo, fn):
    """is_p2xxx: `len(self.commands) == k and self.commands[i] == c and len(self.commands[j]) == n ...` -> (k, {i: const}, {j: n})"""
    rets = [s for s in ast.walk(fn) if isinstance(s, ast.Return) and s.value is not None]
    if len(rets) != 1 or not isinstance(rets[0].value, ast.BoolOp) or not isinstance(rets[0].value.op, ast.And):
        raise AnalysisError("%s: predicate is not a conjunction" % fn.name)
    f = Folder(repo, "script")
    k, consts, lens = None, {}, {}
    for c in rets[0].value.values:
        if isinstance(c, ast.Compare) and len(c.ops) == 1 and isinstance(c.ops[0], ast.Eq):
            l, r = c.left, c.comparators[0]
            v = f.fold(r)
            if isinstance(l, ast.Call) and call_name(l) == "len":
                a = l.args[0]
                if dotted(a) == "self.commands":
                    k = v
                elif isinstance(a, ast.Subscript) and dotted(a.value) == "self.commands":
                    lens[f.fold(a.slice)] = v
            elif isinstance(l, ast.Subscript) and dotted(l.value) == "self.commands":
                consts[f.fold(l.slice)] = v
    return k, consts, lens


def _template_of_ctor(repo, mod, fn):
    for st in ast.walk(fn):
        if isinstance(st, ast.Assign) and dotted(st.targets[0]) == "self.commands" and isinstance(st.value, ast.List):
            f = Folder(repo, mod.name)
            consts, holes = {}, []
            for i, e in enumerate(st.value.elts):
                v = f.fold(e)
                if isinstance(v, int):
                    consts[i] = v
                else:
                    holes.append(i)
            return len(st.value.elts), consts, holes
    raise AnalysisError("%s: `self.commands = [...]` not found" % fn.name)


def _template_cells(ctx):
    """each template predicate evaluated on the standard template and on every single deviation from it (another opcode at one position, a push
    one byte shorter / longer or of the other standard length, an opcode where the push belongs and the reverse, one element more or less), and
    each typed constructor evaluated to see that it builds exactly that template.  None when outside the evaluator's subset."""
    from sa.cells import ClassRef, Evaluator, Obj, Raised, Undecided
    tpl = {"p2pkh": ([0x76, 0xA9, None, 0x88, 0xAC], 20, "P2PKHScriptPubKey"), "p2sh": ([0xA9, None, 0x87], 20, "P2SHScriptPubKey"), "p2wpkh": ([0, None], 20, "P2WPKHScriptPubKey"),
           "p2wsh": ([0, None], 32, "P2WSHScriptPubKey"), "p2tr": ([0x51, None], 32, "P2TRScriptPubKey")}
    out = []
    try:
        for kind, (shape, ln, cls) in tpl.items():
            spec = "script:Script.is_%s" % kind
            mod, pfn = rl.get(ctx, spec)
            good = [bytes([0x42]) * ln if x is None else x for x in shape]
            variants = [(good, True, "the standard template")]
            for i, x in enumerate(shape):
                if x is None:
                    for l2 in sorted({ln - 1, ln + 1, 20, 32, 0, 33} - {ln}):
                        variants.append((good[:i] + [bytes([0x42]) * l2] + good[i + 1:], False, "a %d-byte push instead of %d bytes" % (l2, ln)))
                    variants.append((good[:i] + [0x51] + good[i + 1:], False, "an opcode where the %d-byte push belongs" % ln))
                else:
                    for o2 in sorted({0x00, 0x51, 0x76, 0xA9, 0x87, 0x88, 0xAC, 0x61} - {x}):
                        variants.append((good[:i] + [o2] + good[i + 1:], False, "opcode %#04x instead of %#04x at position %d" % (o2, x, i)))
                    variants.append((good[:i] + [bytes([x]) if x else b""] + good[i + 1:], False, "a data element instead of opcode %#04x at position %d" % (x, i)))
            variants.append((good + [0x61], False, "one more element"))
            variants.append((good[:-1], False, "one element less"))
            variants.append(([], False, "an empty script"))
            bad = None
            for cmds, want, label in variants:
                ctx.count("cells")
                me = Obj("script", "Script", {"commands": list(cmds)})
                try:
                    r = Evaluator(ctx.repo).call(spec, [], self_obj=me)
                except Raised:
                    r = False
                if bool(r) != want:
                    bad = label
                    break
            if bad is None:
                out.append(ctx.ok(spec, "true exactly for the standard template (%d single deviations refused)" % (len(variants) - 1), pfn, mod, key="pred:" + kind))
            else:
                out.append(ctx.bad(spec, "is_%s answers %s for %s" % (kind, "no" if bad == "the standard template" else "yes", bad), pfn, mod, key="pred:" + kind))
            cspec = "script:%s.__init__" % cls
            _, cfn = rl.get(ctx, cspec)
            h = bytes([0x37]) * ln
            o = Obj("script", cls, {})
            arg = h if kind != "p2tr" else Obj("pecc", "S256Point", {"xo": h})
            try:
                Evaluator(ctx.repo, method_hooks={("S256Point", "xonly"): lambda p_: p_.attrs["xo"]}).call(cspec, [arg], self_obj=o)
                built = o.attrs.get("commands")
            except Raised as x:
                built = "raises %s" % x.name
            want_cmds = [h if x is None else x for x in shape]
            if built == want_cmds:
                out.append(ctx.ok(cspec, "constructor builds the same template", cfn, mod, key="ctor:" + kind))
            else:
                out.append(ctx.bad(cspec, "constructor builds %s, the standard template is %s" % (
                    [c.hex() if isinstance(c, bytes) else c for c in built] if isinstance(built, list) else built, [c.hex()[:8] + "…" if isinstance(c, bytes) else c for c in want_cmds]),
                    cfn, mod, key="ctor:" + kind))
    except Undecided:
        return None
    return out


def c06_10(ctx):
    ev = _template_cells(ctx)
    if ev is not None:
        return ev
    out = []
    want_len = {"p2pkh": 20, "p2sh": 20, "p2wpkh": 20, "p2wsh": 32, "p2tr": 32}
    spec_tpl = {"p2pkh": (5, {0: 0x76, 1: 0xA9, 3: 0x88, 4: 0xAC}, 2), "p2sh": (3, {0: 0xA9, 2: 0x87}, 1), "p2wpkh": (2, {0: 0}, 1), "p2wsh": (2, {0: 0}, 1), "p2tr": (2, {0: 0x51}, 1)}
    for kind, cls in (("p2pkh", "P2PKHScriptPubKey"), ("p2sh", "P2SHScriptPubKey"), ("p2wpkh", "P2WPKHScriptPubKey"), ("p2wsh", "P2WSHScriptPubKey"), ("p2tr", "P2TRScriptPubKey")):
        mod, pfn = rl.get(ctx, "script:Script.is_%s" % kind)
        k, consts, lens = _template_of_predicate(ctx.repo, pfn)
        _, cfn = rl.get(ctx, "script:%s.__init__" % cls)
        ck, cconsts, holes = _template_of_ctor(ctx.repo, mod, cfn)
        ctx.count("table_entries", 2)
        sk, sconsts, shole = spec_tpl[kind]
        if (k, consts, lens) == (sk, sconsts, {shole: want_len[kind]}):
            out.append(ctx.ok("script:Script.is_%s" % kind, "template %s with a %d-byte push at position %d" % ({i: hex(c) for i, c in consts.items()}, want_len[kind], shole), pfn, mod, key="pred:" + kind))
        else:
            out.append(ctx.bad("script:Script.is_%s" % kind, "predicate recognises length %s opcodes %s push lengths %s; standard template: %s %s %s" % (
                k, consts, lens, sk, sconsts, {shole: want_len[kind]}), pfn, mod, key="pred:" + kind))
        if (ck, cconsts, holes) == (sk, sconsts, [shole]):
            out.append(ctx.ok("script:%s.__init__" % cls, "constructor builds the same template", cfn, mod, key="ctor:" + kind))
        else:
            out.append(ctx.bad("script:%s.__init__" % cls, "constructor builds %s opcodes %s holes %s; predicate/standard: %s %s [%s]" % (ck, cconsts, holes, sk, sconsts, shole), cfn, mod, key="ctor:" + kind))
    return out


def c06_11(ctx):
    """BIP341/342 signature encoding: a non-empty taproot signature is 64 bytes (SIGHASH_DEFAULT) or 65 bytes whose last
    byte, the hash type, is not 0x00.  The implicit hash type 0 may be chosen only for a 64-byte signature, and the
    explicit byte may be stripped only when it is in [1, 255] — otherwise a valid 64-byte signature with 0x00 or junk
    appended (65 / 66+ bytes) still verifies and signatures become malleable."""
    out = []
    for spec in ("op:op_checksig_schnorr", "op:op_checksigadd_schnorr"):
        mod, fn = rl.get(ctx, spec)
        cfg = cfg_of(fn)
        # the variable that holds the signature element: the one sliced with [:-1] / indexed with [-1]
        sigv = None
        for n in cfg.stmts(("stmt",)):
            a = n.ast
            if isinstance(a, ast.Assign) and isinstance(a.value, ast.Subscript) and isinstance(a.value.value, ast.Name) and ast.unparse(a.value.slice) == "-1":
                sigv = a.value.value.id
        if sigv is None:
            out.append(ctx.err(spec, "hash-type byte extraction `sig[-1]` not found", fn, mod))
            continue
        lk, hk = "len(%s)" % sigv, None
        implicit, strip = [], []
        for n in cfg.stmts(("stmt",)):
            a = n.ast
            if isinstance(a, ast.Assign) and isinstance(a.targets[0], ast.Name):
                if isinstance(a.value, ast.Subscript) and isinstance(a.value.value, ast.Name) and a.value.value.id == sigv and ast.unparse(a.value.slice) == "-1":
                    hk = a.targets[0].id
        if hk is None:
            out.append(ctx.err(spec, "hash type variable not found", fn, mod))
            continue
        for n in cfg.stmts(("stmt",)):
            a = n.ast
            if isinstance(a, ast.Assign) and isinstance(a.targets[0], ast.Name):
                if a.targets[0].id == hk and isinstance(a.value, ast.Constant) and a.value.value == 0:
                    implicit.append(n)
                if a.targets[0].id == sigv and isinstance(a.value, ast.Subscript) and ast.unparse(a.value.slice) == ":-1":
                    strip.append(n)
        if not implicit or not strip:
            out.append(ctx.err(spec, "implicit hash type / hash-type strip statements not found", fn, mod))
            continue
        ra = Ranges(ctx.repo, mod, fn, {lk: ISet.range(0, None), hk: ISet.range(0, 255)}, types={hk: ISet.range(0, 255), lk: ISet.range(0, None)})
        if ra.uninterpreted:
            out.append(ctx.err(spec, "test on the signature length / hash type not understood: %s" % ra.uninterpreted[0][1], fn, mod))
            continue
        for n in implicit:
            s = ra.at(n.id, lk)
            if s == ISet.point(64):
                out.append(ctx.ok(spec, "the implicit hash type SIGHASH_DEFAULT is used for 64-byte signatures only", n.ast, mod, key="len64"))
            else:
                w = s.minus(ISet.point(64)).witness((66, 63, 1))
                out.append(ctx.bad(spec, "a %s-byte signature is verified with the implicit hash type (lengths %s reach `%s`): a valid 64-byte signature with extra bytes "
                                         "appended still verifies; BIP341 fails every length other than 64 and 65" % (w, s, ast.unparse(n.ast)), n.ast, mod, key="len64"))
        for n in strip:
            sl, sh = ra.at(n.id, lk), ra.at(n.id, hk)
            if sl != ISet.point(65):
                out.append(ctx.bad(spec, "the hash type byte is stripped for lengths %s, BIP341: 65 only" % sl, n.ast, mod, key="len65"))
            elif not sh.intersect(ISet.point(0)).is_empty():
                out.append(ctx.bad(spec, "a 65-byte signature whose hash type byte is 0x00 is accepted (hash type ∈ %s at `%s`): BIP341 fails an explicit SIGHASH_DEFAULT, "
                                         "so sig ‖ 00 is a second valid encoding of every default signature" % (sh, ast.unparse(n.ast)), n.ast, mod, key="explicit-default"))
            else:
                out.append(ctx.ok(spec, "65-byte signatures carry a hash type in %s (explicit 0x00 fails)" % sh, n.ast, mod, key="explicit-default"))
    return out


def c06_14(ctx):
    """P2SH-wrapped witness programs: BIP141 requires the scriptSig to be exactly the push of the redeem script.  The witness-v0
    rules of evaluate are recognised by the *shape of the stack* (`len(stack) == 2`), so whatever else the scriptSig pushed
    decides whether the program is executed at all: with one extra item below, `0 <hash>` is left on the stack as a truthy value
    and the spend verifies without any signature.  Necessary condition checked: inside the P2SH arm, between the hash check and
    the splice of the redeem script, there is a test of the stack's emptiness one of whose outcomes returns False."""
    spec = "script:Script.evaluate"
    mod, fn = rl.get(ctx, spec)
    cfg = cfg_of(fn)
    tg = _extend_targets(fn, lambda at, txt: ".parse(" in txt and "witness" not in txt and "encode_varstr(command" in txt)
    if not tg:
        raise AnalysisError("evaluate: P2SH redeem-script splice not found")
    splice = tg[0]
    verify = [n for n in cfg.tests() if isinstance(n.ast, ast.Call) and call_name(n.ast) == "op_verify"]
    if not verify:
        raise AnalysisError("evaluate: op_verify of the P2SH arm not found")
    start = [b for b, l in cfg.succ[verify[0].id] if l is True]
    region = cfg.reach(start, blocked={splice.id}) - {splice.id}
    region = {i for i in region if splice.id in cfg.reach([i])}  # nodes from which the splice is still ahead
    found = None
    for n in cfg.tests():
        if n.id not in region:
            continue
        t = n.ast
        about_stack = (isinstance(t, ast.Name) and t.id == "stack") or \
                      (isinstance(t, ast.Compare) and any(isinstance(x, ast.Call) and call_name(x) == "len" and x.args and dotted(x.args[0]) == "stack" for x in ast.walk(t))) or \
                      (isinstance(t, ast.Compare) and any(dotted(x) == "stack" for x in (t.left, t.comparators[0])) and
                       any(isinstance(x, ast.List) and not x.elts for x in (t.left, t.comparators[0])))
        if not about_stack:
            continue
        for b, lab in cfg.succ[n.id]:
            r = cfg.reach([b], blocked={splice.id})
            if any(cfg.nodes[i].kind == "return" and cfg.nodes[i].ast is not None and isinstance(cfg.nodes[i].ast.value, ast.Constant) and cfg.nodes[i].ast.value.value is False
                   and i in region | r and _straight(cfg, b, i, splice.id) for i in r):
                found = n
    if found is not None:
        return [ctx.ok(spec, "in the P2SH arm the emptiness of the stack is tested (`%s`) before the redeem script is spliced in, and one outcome returns False" % ast.unparse(found.ast),
                       found.ast, mod, key="p2sh-witness-exact-scriptsig")]
    return [ctx.bad(spec, "after the P2SH hash check the redeem script is spliced in whatever else the scriptSig pushed: a scriptSig `<junk> <redeem script>` for a "
                          "p2sh-p2wpkh / p2sh-p2wsh output leaves three items on the stack, the `len(stack) == 2` witness rules never fire, and `0 <hash>` ends as a truthy "
                          "top element -- verify_input returns True without a signature", splice.ast, mod, key="p2sh-witness-exact-scriptsig")]


def _straight(cfg, src, dst, avoid):
    """dst is reachable from src without passing `avoid` and without re-entering a loop head (i.e. within the same iteration)"""
    heads = {lp.head for lp in cfg.loops.values()}
    return dst in cfg.reach([src], blocked={avoid} | heads)


def c06_15(ctx):
    """an unterminated or mis-nested conditional in the scriptSig cannot swallow the scriptPubKey (shared with C07.13: cell evaluation
    of op_if / op_notif over all token sequences up to length 5)"""
    from rules.C07 import c07_13
    return c07_13(ctx)


def c06_16(ctx):
    """op_checkmultisig / op_checksigadd-style loops: the digest a signature is verified against is computed *in that iteration* from
    that signature's own hash-type byte.  A digest carried over from an earlier iteration lets a signature whose hash-type byte was
    changed after signing (it then commits to a different message) still verify"""
    out = []
    spec = "op:op_checkmultisig"
    mod, fn = rl.get(ctx, spec)
    cfg = cfg_of(fn)
    vsites = rl.find_calls(fn, "verify")
    if not vsites:
        raise AnalysisError("op_checkmultisig: verify call not found")
    for n, c in vsites:
        if not c.args or not n.loops:
            continue
        zarg = c.args[0]
        # the outermost loop that iterates over the signatures: the one whose body contains the sig_hash call
        hsites = [hn for hn, hc in rl.find_calls(fn, "sig_hash")]
        if not hsites:
            out.append(ctx.bad(spec, "the digest `%s` is not computed by sig_hash" % ast.unparse(zarg), c, mod, key="digest-per-signature"))
            continue
        loops = [cfg.loops[h] for h in cfg.loops if n.id in cfg.loops[h].body]
        sig_loop = None
        for lp in loops:
            if isinstance(lp.stmt, ast.For) and "param:" not in "".join(origins(fn, lp.head, lp.stmt.iter)) or True:
                if any(hn.id in lp.body for hn in hsites) or sig_loop is None:
                    sig_loop = lp if sig_loop is None or len(lp.body) > len(sig_loop.body) else sig_loop
        in_loop = [hn for hn in hsites if sig_loop is not None and hn.id in sig_loop.body]
        if sig_loop is None or not in_loop:
            out.append(ctx.bad(spec, "sig_hash is computed outside the loop over the signatures: every signature is checked against one digest whatever its hash type", c, mod,
                               key="digest-per-signature"))
            continue
        starts = []
        for a, label in sig_loop.body_entry:
            starts += [b for b, l in cfg.succ[a] if l == label]
        r = cfg.reach(starts, blocked={hn.id for hn in in_loop}, within=set(sig_loop.body) | {sig_loop.head})
        if n.id in r:
            p = cfg.path(starts, [n.id], blocked={hn.id for hn in in_loop})
            out.append(ctx.bad(spec, "an iteration over the signatures can reach `%s` without recomputing the digest (path %s): the digest of an earlier signature's hash type "
                                     "is reused, so a signature whose hash-type byte was altered after signing still verifies" % (ast.unparse(c)[:50], cfg.fmt_path(p or [])),
                               c, mod, key="digest-per-signature"))
        else:
            # and the hash type handed to sig_hash is the iteration's own
            hn = in_loop[0]
            hc = [hc for x, hc in rl.find_calls(fn, "sig_hash") if x.id == hn.id][0]
            out.append(ctx.ok(spec, "each signature is verified against `%s`, computed in its own iteration" % ast.unparse(hc), c, mod, key="digest-per-signature"))
    if not out:
        raise AnalysisError("op_checkmultisig: no verify call inside a loop")
    return out


def c06_12(ctx):
    """MEMO: the message a signature is checked against is recomputed from the transaction as it is now -- a midstate kept from an
    earlier call would let a signature made before an edit (amount, script, sequence, output) still verify afterwards (shared with C05.6)"""
    from rules.C05 import c05_6
    return c05_6(ctx)


_MUTATORS = ("pop", "append", "insert", "extend", "remove", "clear", "sort", "reverse", "update", "setdefault", "popitem", "add", "discard")


def c06_13(ctx):
    """OWNERSHIP: Script.evaluate works on its own copies.  Every local that evaluate mutates (annex / control-block stripping pops
    witness items, the command list is consumed) must be a copy of the transaction's data, never the transaction's own object:
    otherwise evaluation edits the transaction it is judging before the signature hash is computed (an annex that no signature
    commits to disappears from the witness and the spend verifies)"""
    from sa.dataflow import rd_of
    spec = "script:Script.evaluate"
    mod, fn = rl.get(ctx, spec)
    cfg = cfg_of(fn)
    rd = rd_of(fn)
    params = set(param_names(fn))
    sites = []  # (node, local name, how)
    for n in cfg.nodes:
        if n.ast is None or n.kind not in ("stmt", "test", "return"):
            continue
        for x in ast.walk(n.ast):
            base = None
            how = None
            if isinstance(x, ast.Call) and isinstance(x.func, ast.Attribute) and x.func.attr in _MUTATORS:
                base, how = x.func.value, "." + x.func.attr + "()"
            elif isinstance(x, (ast.Subscript, ast.Attribute)) and isinstance(getattr(x, "ctx", None), (ast.Store, ast.Del)):
                base, how = x.value, "store"
            if base is None:
                continue
            b = base
            while isinstance(b, (ast.Attribute, ast.Subscript)):
                b = b.value
            if isinstance(b, ast.Name) and b.id not in params and b.id != "self":
                sites.append((n, b.id, how, x))
    out = []
    judged = {}
    for n, name, how, x in sites:
        for d in rd.reaching(n.id, name):
            g = rd.gen.get(d, {}).get(name)
            if not g or g[0] != "val":
                continue
            v = g[1]
            key = (name, d)
            if key in judged:
                continue
            # value shapes: a fresh object / a copy are fine; a path into a parameter is an alias
            alias = None
            for part in ([v] if not isinstance(v, (ast.BoolOp, ast.IfExp)) else (v.values if isinstance(v, ast.BoolOp) else [v.body, v.orelse])):
                p = part
                copied = False
                while True:
                    if isinstance(p, ast.Call):
                        copied = True
                        break
                    if isinstance(p, ast.Subscript) and isinstance(p.slice, ast.Slice):
                        copied = True
                        break
                    if isinstance(p, (ast.Attribute, ast.Subscript)):
                        p = p.value
                        continue
                    break
                if not copied and isinstance(p, ast.Name) and (p.id in params or p.id == "self") and isinstance(part, (ast.Attribute, ast.Subscript)):
                    alias = part
            judged[key] = (alias, v, cfg.nodes[d])
    for (name, d), (alias, v, dn) in sorted(judged.items(), key=lambda kv: kv[1][2].lineno):
        if alias is not None:
            muts = sorted({how for n, nm, how, x in sites if nm == name})
            out.append(ctx.bad(spec, "`%s = %s` (line %d) makes `%s` the transaction's own object, and evaluate then changes it (%s): the transaction is edited while it is "
                                     "being verified" % (name, ast.unparse(v)[:70], dn.lineno, name, ", ".join(muts)), dn.ast, mod, key="own-copy:" + name))
        else:
            out.append(ctx.ok(spec, "`%s` (mutated by evaluate) is a copy / fresh object: `%s`" % (name, ast.unparse(v)[:60]), dn.ast, mod, key="own-copy:%s:%d" % (name, 0)))
    if not out:
        raise AnalysisError("Script.evaluate: no mutated local found")
    # de-duplicate ok entries per name
    seen, res = set(), []
    for r in out:
        k = (r.status, r.msg)
        if k not in seen:
            seen.add(k)
            res.append(r)
    return res


def c06_17(ctx):
    """MEMO: no method of the modules this property is anchored in answers from a value remembered from an earlier argument or an
    earlier state of the object (confirmed caches of the reference tree: sa/memo.py CONFIRMED_CACHES)"""
    from sa.memo import cache_obligation
    return cache_obligation(ctx, ["tx", "script", "op", "witness", "taproot", "pecc"], "a verification verdict or digest computed once would be reused for another input, script or signature")


def c06_18(ctx):
    """SET-ORDER: no ordered result (list, serialisation, yielded sequence) of the modules this property is anchored in takes its
    order from the iteration order of a set"""
    from sa.setorder import setorder_obligation
    return setorder_obligation(ctx, ["tx", "script", "op", "witness", "taproot", "pecc"], "the same inputs give different output from run to run")


def c06_19(ctx):
    """SHARED necessary conditions over the modules this property is anchored in: FALSY-DEFAULT, MUTABLE-DEFAULT, IDENTITY, ALIAS,
    CTOR-FORWARD (sa/shared.py)"""
    from sa.shared import shared_obligations
    return shared_obligations(ctx, ["tx", "script", "op", "witness", "taproot", "pecc"], "the result would depend on something other than the arguments and the object's current state")


def c06_20(ctx):
    """A witness program is the *whole* scriptPubKey (or the whole p2sh RedeemScript), never something the spender pushes: Script.evaluate
    is evaluated on combined scripts whose ScriptSig itself pushes `0 <20 bytes>`, `0 <32 bytes>` or `1 <32 bytes>` in front of the
    RedeemScript of a p2sh multisig output, with a witness that satisfies the *pushed* program (the spender's own key / an always-true
    script).  None of these spends carries a signature by a key of the RedeemScript: the verdict must not be true.  Two honest spends
    (native p2wpkh, p2sh-p2wpkh) are evaluated alongside and must be true.  Hashes and signature checks are stand-ins."""
    import hashlib
    from sa.cells import Evaluator, Obj, Raised, Undecided
    spec = "script:Script.evaluate"
    mod, fn = rl.get(ctx, spec)
    H = lambda x: hashlib.sha1(x).digest()            # 20-byte stand-in for hash160
    S = lambda x: hashlib.sha256(x).digest()          # 32-byte stand-in for sha256
    PUB_OK, SIG_OK, PUB_ATT, SIG_ATT = b"\x02" + b"\x11" * 32, b"\x30" + b"\x01" * 70, b"\x03" + b"\x22" * 32, b"\x30" + b"\x02" * 70
    X_ATT, SCHNORR_ATT = b"\x33" * 32, b"\x44" * 64
    valid = {(SIG_OK, PUB_OK), (SIG_ATT, PUB_ATT), (SCHNORR_ATT, X_ATT)}
    scripts = {}                                       # raw bytes -> commands, for the Script.parse stand-in

    def raw(name, commands):
        b = b"<script:" + name + b">"
        scripts[b] = commands
        return b
    R_MULTI = raw(b"2of3", [0x52, PUB_OK, b"\x02" + b"\x55" * 32, b"\x03" + b"\x66" * 32, 0x53, 0xAE])
    R_WPKH = raw(b"wpkh", [0, H(PUB_OK)])
    WS_TRUE = raw(b"true", [0x51])

    def sig_op(stack, *a, **k):
        if len(stack) < 2:
            return False
        pub, sig = stack.pop(), stack.pop()
        stack.append(b"\x01" if (sig, pub) in valid else b"")
        return True

    def opaque(name, args, kw):
        if name == "op_hash160":
            if not args[0]:
                return False
            args[0].append(H(args[0].pop()))
            return True
        if name in ("op_checksig", "op_checksig_schnorr"):
            return sig_op(*args)
        if name in ("hash160",):
            return H(args[0])
        if name == "sha256":
            return S(args[0])
        if name in ("op_checkmultisig", "op_checkmultisigverify"):
            return False  # no cell carries a signature by a key of the 2-of-3 RedeemScript
        if name in ("op_checksigadd_schnorr", "op_checksigverify"):
            raise Undecided("opcode %s reached" % name)
        return NotImplemented

    def parse(cls, stream, *a, **k):
        for b, cmds in scripts.items():
            if isinstance(stream, bytes) and stream.endswith(b):
                return Obj("script", "Script", {"commands": list(cmds)})
        raise Raised("ValueError")
    p2sh = lambda r: [0xA9, H(r), 0x87]
    cases = [
        ("native p2wpkh, honest", [], [0, H(PUB_OK)], [SIG_OK, PUB_OK], True),
        ("p2sh-p2wpkh, honest", [R_WPKH], p2sh(R_WPKH), [SIG_OK, PUB_OK], True),
        ("ScriptSig pushes `0 <hash160 of the spender's key>` in front of the RedeemScript of a p2sh 2-of-3", [b"", H(PUB_ATT), R_MULTI], p2sh(R_MULTI), [SIG_ATT, PUB_ATT], False),
        ("ScriptSig pushes `0 <sha256 of an always-true script>` in front of the RedeemScript of a p2sh 2-of-3", [b"", S(WS_TRUE), R_MULTI], p2sh(R_MULTI), [WS_TRUE], False),
        ("ScriptSig pushes `1 <the spender's x-only key>` in front of the RedeemScript of a p2sh 2-of-3", [b"\x01", X_ATT, R_MULTI], p2sh(R_MULTI), [SCHNORR_ATT], False),
    ]
    out = []
    for label, script_sig, spk, wit, want in cases:
        ctx.count("cells")
        w = Obj("witness", "Witness", {"items": list(wit)})
        tx = Obj("tx", "Tx", {"tx_ins": [Obj("tx", "TxIn", {"witness": w, "script_sig": None, "sequence": 0xFFFFFFFF})], "locktime": 0, "version": 1})
        me = Obj("script", "Script", {"commands": list(script_sig) + list(spk)})
        try:
            r = Evaluator(ctx.repo, opaque=opaque, externals={"BytesIO": lambda b: b}, method_hooks={("Script", "parse"): parse}).call(spec, [tx, 0], self_obj=me)
        except Raised:
            r = False
        except Undecided as u:
            return [ctx.err(spec, "script evaluation not evaluable for the cell `%s`: %s" % (label, u), fn, mod)]
        if bool(r) != want:
            if want:
                return [ctx.bad(spec, "an honest %s spend is not accepted" % label.split(",")[0], fn, mod, key="witness-program-position")]
            out.append(ctx.bad(spec, "%s, with a witness that satisfies the pushed program: the spend is reported valid although no key of the RedeemScript signed -- the "
                                     "witness-program rules fire on the shape of the stack wherever it arises, not only when the program is the whole scriptPubKey / RedeemScript" % label,
                               fn, mod, key="witness-program-position"))
            break
    if not out:
        out.append(ctx.ok(spec, "witness programs pushed by the ScriptSig are not executed (3 forged p2sh spends refused, 2 honest spends accepted)", fn, mod, key="witness-program-position"))
    return out


def c06_21(ctx):
    """OP_CHECKMULTISIG succeeds exactly when each of the m signature slots holds a valid signature and the keys they belong to appear in
    the script's key order: evaluated on every assignment of {valid for key 1..n, empty, garbage} to the m slots for 1 <= m <= n <= 3
    (key parsing, signature parsing, the digest and ECDSA verification are stand-ins: a signature element names the key it is valid for)"""
    import itertools
    from sa.cells import Evaluator, Obj, Raised, Undecided
    spec = "op:op_checkmultisig"
    mod, fn = rl.get(ctx, spec)

    def parse_sig(cls, der, *a, **k):
        if isinstance(der, bytes) and der.startswith(b"SIG") and len(der) == 4:
            return Obj("pecc", "Signature", {"key": der[3]})
        raise Raised("ValueError")

    def parse_key(cls, sec, *a, **k):
        if isinstance(sec, bytes) and sec.startswith(b"PK"):
            return Obj("pecc", "S256Point", {"id": sec[2]})
        raise Raised("ValueError")
    hooks = {("Signature", "parse"): parse_sig, ("S256Point", "parse"): parse_key, ("S256Point", "parse_sec"): parse_key,
             ("S256Point", "verify"): lambda p, z, sig: z == ("z", 1) and isinstance(sig, Obj) and sig.attrs.get("key") == p.attrs.get("id"),
             ("Tx", "sig_hash"): lambda tx, idx, hash_type=1, *a, **k: ("z", hash_type)}
    cells = 0
    for n in (1, 2, 3):
        for m in range(1, n + 1):
            options = [("key", i) for i in range(n)] + [("empty",), ("garbage",)]
            for slots in itertools.product(options, repeat=m):
                cells += 1
                elems = [b"SIG" + bytes([s[1]]) + b"\x01" if s[0] == "key" else (b"" if s[0] == "empty" else b"\x30\x00\x01") for s in slots]
                stack = [b""] + elems + [bytes([m])] + [b"PK" + bytes([i]) for i in range(n)] + [bytes([n])]
                tx = Obj("tx", "Tx", {"tx_ins": [], "tx_outs": []})
                try:
                    r = Evaluator(ctx.repo, method_hooks=hooks).call(spec, [stack, tx, 0])
                    ok = bool(r) and stack and stack[-1] not in (b"", b"\x00", b"\x80")
                except Raised:
                    ok = False
                except Undecided as u:
                    return [ctx.err(spec, "multisig check not evaluable for %d-of-%d, slots %s: %s" % (m, n, slots, u), fn, mod)]
                keys = [s[1] for s in slots if s[0] == "key"]
                want = len(keys) == m and all(a < b for a, b in zip(keys, keys[1:]))
                if ok != want:
                    shown = ", ".join("sig(key %d)" % (s[1] + 1) if s[0] == "key" else s[0] for s in slots)
                    if ok:
                        return [ctx.bad(spec, "%d-of-%d with signature slots [%s] succeeds: fewer than m valid signatures by distinct keys in key order are accepted" % (m, n, shown),
                                        fn, mod, key="multisig-m-valid")]
                    return [ctx.bad(spec, "%d-of-%d with signature slots [%s] fails although every slot holds a valid signature in key order" % (m, n, shown), fn, mod,
                                    key="multisig-m-valid")]
    ctx.count("cells", cells)
    return [ctx.ok(spec, "succeeds exactly for m valid signatures in key order (%d slot assignments for 1 <= m <= n <= 3)" % cells, fn, mod, key="multisig-m-valid")]


def c06_22(ctx):
    """the public key a signing helper pushes is the encoding the output commits to: `hash160` of the compressed and of the uncompressed SEC
    differ, and the library records which one a key uses in `private_key.compressed` (WIF carries it).  Each sign_p2pkh-style helper must
    serialise the key with that flag; a fixed format makes every spend by a key of the other format fail OP_EQUALVERIFY"""
    out = []
    for spec in ("tx:Tx.sign_p2pkh", "tx:Tx.sign_p2wpkh", "tx:Tx.sign_p2sh_p2wpkh"):
        mod, fn = rl.get(ctx, spec)
        secs = [(n, c) for n, c in rl.find_calls(fn, "sec")]
        if not secs:
            out.append(ctx.err(spec, "no sec() call found: how the public key is serialised is not recognised", fn, mod))
            continue
        for n, c in secs:
            args = list(c.args) + [k.value for k in c.keywords]
            if args and any("attrname:compressed" in origins(fn, n.id, a) for a in args):
                out.append(ctx.ok(spec, "public key serialised with the key's own `compressed` flag", c, mod, key="sec-format:" + spec.split(".")[-1]))
            elif not args or all(isinstance(Folder(ctx.repo, mod.name).fold(a), bool) for a in args):
                out.append(ctx.bad(spec, "`%s` always pushes one SEC format whatever `private_key.compressed` says: an output that commits to the hash160 of the other "
                                         "format (an uncompressed-WIF key) is signed correctly and still reported invalid" % ast.unparse(c), c, mod, key="sec-format:" + spec.split(".")[-1]))
            else:
                out.append(ctx.err(spec, "format argument of `%s` not recognised" % ast.unparse(c), c, mod))
    return out


def c06_23(ctx):
    """signature-free ScriptSigs around the RedeemScript of a p2sh 2-of-3 output: Tx.verify_input (and the script evaluation it ends in) is
    evaluated with ScriptSigs that carry the RedeemScript push together with opcodes or extra pushes but no signature -- `<R> OP_NOP`,
    `<R> OP_DUP OP_DROP`, `OP_NOP <R>`, `<R> <R>`, `<junk> <R>`, `OP_1 <R>`, `<R> OP_1` -- none may verify (BIP16: the ScriptSig of a p2sh
    spend is push-only, and the RedeemScript is then executed).  The honest spend with two valid signatures must verify.  Hashes and the
    signature check are stand-ins: a signature element names the key it is valid for."""
    import hashlib
    from sa.cells import Evaluator, Obj, Raised, Undecided
    spec = "tx:Tx.verify_input"
    mod, fn = rl.get(ctx, spec)
    H = lambda x: hashlib.sha1(bytes(x)).digest()
    keys = [b"\x02" + bytes([0x11 * (i + 1)]) * 32 for i in range(3)]
    scripts = {}
    R = b"<script:2of3>"
    scripts[R] = [0x52] + keys + [0x53, 0xAE]

    def multisig(stack, *a, **k_):
        # m-of-n with signatures written as b"SIG" + key: succeeds iff m valid signatures in key order, as C06.21 establishes for the real handler
        try:
            n = stack.pop()[0]
            pks = [stack.pop() for _ in range(n)][::-1]
            m_ = stack.pop()[0]
            sigs = [stack.pop() for _ in range(m_)][::-1]
            stack.pop()
        except (IndexError, TypeError):
            return False
        idx = []
        for sg in sigs:
            if not (isinstance(sg, bytes) and sg[:3] == b"SIG" and sg[3:] in pks):
                return False
            idx.append(pks.index(sg[3:]))
        if idx != sorted(set(idx)):
            return False
        stack.append(b"\x01")
        return True

    def opaque(name, args, kw):
        if name == "op_hash160":
            if not args[0]:
                return False
            args[0].append(H(args[0].pop()))
            return True
        if name == "hash160":
            return H(args[0])
        if name == "op_checkmultisig":
            return multisig(*args)
        if name in ("op_checksig", "op_checksigverify", "op_checkmultisigverify"):
            return False
        return NotImplemented

    def parse(cls, stream, *a, **k_):
        for b_, cmds in scripts.items():
            if isinstance(stream, bytes) and stream.endswith(b_):
                return Obj("script", "Script", {"commands": list(cmds)})
        if hasattr(stream, "text"):
            for b_, cmds in scripts.items():
                if stream.text.endswith(b_):
                    return Obj("script", "Script", {"commands": list(cmds)})
        raise Raised("ValueError")
    spk = Obj("script", "P2SHScriptPubKey", {"commands": [0xA9, H(R), 0x87]})
    cases = [("the honest spend `OP_0 <sig1> <sig2> <R>`", [0, b"SIG" + keys[0], b"SIG" + keys[1], R], True),
             ("`<R> OP_NOP`", [R, 0x61], False), ("`<R> OP_DUP OP_DROP`", [R, 0x76, 0x75], False), ("`OP_NOP <R>`", [0x61, R], False), ("`<R> <R>`", [R, R], False),
             ("`<junk> <R>`", [b"junk", R], False), ("`OP_1 <R>`", [0x51, R], False), ("`<R> OP_1`", [R, 0x51], False), ("`<R>` alone", [R], False)]
    RW = b"<script:wpkh>"
    scripts[RW] = [0, H(keys[0])]
    spk_w = Obj("script", "P2SHScriptPubKey", {"commands": [0xA9, H(RW), 0x87]})
    cases += [("p2sh-p2wpkh: `<junk> <RedeemScript>` with an empty witness", [b"junk", RW], False, spk_w, []),
              ("p2sh-p2wpkh: `OP_1 <RedeemScript>` with an empty witness", [0x51, RW], False, spk_w, []),
              ("p2sh-p2wpkh: `<RedeemScript>` with an empty witness", [RW], False, spk_w, [])]
    out = []
    try:
        for case in cases:
            label, sig_cmds, want = case[:3]
            spk_case = case[3] if len(case) > 3 else spk
            spk = spk_case
            ctx.count("cells")
            txin = Obj("tx", "TxIn", {"script_sig": Obj("script", "Script", {"commands": list(sig_cmds)}), "witness": Obj("witness", "Witness", {"items": []}), "sequence": 0xFFFFFFFF})
            tx = Obj("tx", "Tx", {"tx_ins": [txin], "network": "testnet", "locktime": 0, "version": 1})
            hooks = {("TxIn", "script_pubkey"): lambda o, *a, **k_: spk, ("Script", "parse"): parse}
            try:
                r = Evaluator(ctx.repo, opaque=opaque, method_hooks=hooks, max_steps=400000).call(spec, [0], self_obj=tx)
            except Raised:
                r = False
            if bool(r) != want:
                if want:
                    return [ctx.bad(spec, "%s of a p2sh 2-of-3 output is not accepted" % label, fn, mod, key="p2sh-signature-free")]
                out.append(ctx.bad(spec, "a p2sh 2-of-3 output spent with the ScriptSig %s -- no signature at all -- is reported valid: with something other than pushes next to "
                                         "the RedeemScript push the p2sh rule does not fire, the RedeemScript is never executed and `OP_HASH160 <h> OP_EQUAL` alone decides" % label,
                                   fn, mod, key="p2sh-signature-free"))
                break
    except Undecided as u:
        return [ctx.err(spec, "input verification not evaluable: %s" % u, fn, mod)]
    if not out:
        out.append(ctx.ok(spec, "8 signature-free ScriptSigs around the RedeemScript of a p2sh 2-of-3 are refused, the honest spend is accepted", fn, mod, key="p2sh-signature-free"))
    return out


def c06_24(ctx):
    """a wrong control block is never accepted: its length must be 33 + 32*m (shared with C12.17) -- bytes that belong to no path hash are not
    covered by any commitment, so a control block carrying them is malformed, not valid"""
    from rules.C12 import c12_17
    return c12_17(ctx)


def c06_25(ctx):
    """a tapscript multisig spend assembled by the library carries, for every key of the leaf in reverse key order, the signature *as it was
    given* (its hash-type byte included) or an empty element, in front of the leaf script, the control block and an annex if there is one:
    Tx.finalize_p2tr_multisig evaluated for 3-key leaves, every subset of signers, 64-byte (SIGHASH_DEFAULT) and 65-byte signatures, signatures
    handed over in any order, with and without an annex.  Parsing, the digest and Schnorr verification are stand-ins"""
    import itertools
    from sa.cells import Evaluator, Obj, Raised, Undecided
    spec = "tx:Tx.finalize_p2tr_multisig"
    mod, fn = rl.get(ctx, spec)
    hooks = {("SchnorrSignature", "parse"): lambda cls, b, *a, **k_: Obj("pecc", "SchnorrSignature", {"raw": bytes(b)}),
             ("SchnorrSignature", "serialize"): lambda o: o.attrs["raw"],
             ("S256Point", "verify_schnorr"): lambda p_, msg, sg: isinstance(sg, Obj) and sg.attrs["raw"][:1] == bytes([p_.attrs["id"]]) and msg == ("z", sg.attrs["raw"][1]),
             ("Tx", "sig_hash"): lambda tx, idx, hash_type=None, *a, **k_: ("z", hash_type if hash_type is not None else (a[0] if a else None)),
             ("Tx", "verify_input"): lambda tx, idx: True}
    pts = [Obj("pecc", "S256Point", {"id": i + 1}) for i in range(3)]

    def sig(i, ht):
        body_ = bytes([i + 1, ht]) + bytes([0x5A]) * 62
        return body_ if ht == 0 else body_ + bytes([ht])
    cells = 0
    try:
        for annex in (False, True):
            tail = [b"<tapscript>", b"<control block>"] + ([b"\x50annex"] if annex else [])
            for subset in [c for r_ in range(0, 4) for c in itertools.combinations(range(3), r_)]:
                for ht in (0, 1, 0x83):
                    for order in (list(subset), list(reversed(subset))):
                        cells += 1
                        sigs = [sig(i, ht) for i in order]
                        txin = Obj("tx", "TxIn", {"witness": Obj("witness", "Witness", {"items": list(tail)}), "tap_script": Obj("taproot", "MultiSigTapScript", {"points": list(pts)})})
                        tx = Obj("tx", "Tx", {"tx_ins": [txin], "network": "testnet"})
                        try:
                            Evaluator(ctx.repo, method_hooks=hooks).call(spec, [0, sigs], self_obj=tx)
                        except Raised as x:
                            return [ctx.bad(spec, "finalising with signatures of keys %s (hash type %#x) raises %s" % ([i + 1 for i in subset], ht, x.name), fn, mod, key="tapscript-witness")]
                        want = [sig(i, ht) if i in subset else b"" for i in (2, 1, 0)] + tail
                        got = txin.attrs["witness"].attrs["items"]
                        if got != want:
                            why = "the hash-type byte of a 65-byte signature is lost" if [len(x) for x in got[:3]] != [len(x) for x in want[:3]] and ht else (
                                "the leaf script / control block / annex at the end are not kept" if got[3:] != tail else "the signatures are not in reverse key order")
                            return [ctx.bad(spec, "with signatures of keys %s (hash type %#x%s) the witness is %s: %s -- the spend signed by the owning subset does not verify" % (
                                [i + 1 for i in subset], ht, ", annex present" if annex else "", [len(x) for x in got], why), fn, mod, key="tapscript-witness")]
    except Undecided as u:
        return [ctx.err(spec, "finalize_p2tr_multisig not evaluable: %s" % u, fn, mod)]
    ctx.count("cells", cells)
    return [ctx.ok(spec, "the witness is <sig or empty per key, reverse key order, bytes as given> ‖ script ‖ control block [‖ annex] in all %d cells" % cells, fn, mod, key="tapscript-witness")]


def c06_26(ctx):
    """the DER codec every ECDSA signature in a ScriptSig / witness goes through: signatures with short r or s (leading zero bytes dropped,
    about 1 in 256) decode (rule shared with C01.7)"""
    from rules.C01 import c01_7
    return c01_7(ctx)



def c06_27(ctx):
    """what a signature commits to: the three signature-hash preimages against their specifications, per hash type (legacy: every other input
    with its own sequence; BIP143; BIP341) -- a field left out of the digest can be altered without invalidating the spend (rules shared
    with C05.2-C05.4)"""
    from rules.C05 import c05_2, c05_3_deferring, c05_4, c05_23, c05_24
    return c05_2(ctx) + c05_3_deferring(ctx) + c05_4(ctx) + c05_23(ctx) + c05_24(ctx)



def c06_28(ctx):
    """the leaf script of a script-path spend is hashed as the bytes the witness holds (rule shared with C12.22)"""
    from rules.C12 import c12_22
    return c12_22(ctx)



OBLIGATIONS = [
    ("C06.28", "CELLS leaf bytes (shared C12.22)", c06_28),
    ("C06.27", "LAYOUT digests vs spec (shared C05.2-4)", c06_27),
    ("C06.26", "LAYOUT der (shared C01.7)", c06_26),
    ("C06.25", "CELLS tapscript witness", c06_25),
    ("C06.24", "CELLS control block length (shared C12.17)", c06_24),
    ("C06.23", "CELLS p2sh ScriptSig", c06_23),
    ("C06.22", "DATAFLOW key format", c06_22),
    ("C06.21", "CELLS multisig", c06_21),
    ("C06.20", "CELLS witness program", c06_20),
    ("C06.19", "SHARED", c06_19),
    ("C06.18", "SET-ORDER", c06_18),
    ("C06.17", "MEMO", c06_17),
    ("C06.11", "RANGE accept-set", c06_11),
    ("C06.1", "GUARD per-iteration", c06_1),
    ("C06.2", "GUARD polarity", c06_2),
    ("C06.3", "GUARD", c06_3),
    ("C06.4", "GUARD", c06_4),
    ("C06.5", "RANGE accept-set", c06_5),
    ("C06.6", "GUARD+RANGE feasibility", c06_6),
    ("C06.7", "GUARD", c06_7),
    ("C06.8", "GUARD presence", c06_8),
    ("C06.9", "GUARD per-iteration", c06_9),
    ("C06.10", "TABLE", c06_10),
    ("C06.12", "MEMO", c06_12),
    ("C06.13", "OWNERSHIP", c06_13),
    ("C06.14", "GUARD presence", c06_14),
    ("C06.15", "CELLS nesting", c06_15),
    ("C06.16", "GUARD per-iteration", c06_16),
]
FLOORS = {"C06.2": 9, "C06.3": 4, "C06.7": 3, "C06.9": 3, "C06.10": 10}
