"""C07 — script interpreter conformance (structural clauses): per-opcode stack effects, tables, timelocks."""
import ast

from sa import rl
from sa.cfg import cfg_of, reach_ps
from sa.dataflow import call_name, dotted, expand, origins
from sa.fold import Folder, Unknown, module_const
from sa.guard import BAD_FALSE, BAD_TRUE
from sa.interval import ISet
from sa.loader import AnalysisError, param_names
from sa.stackfx import effect_of, norm, simplify_success
from spec import opcodes as OPS

EXPLANATION = (
    "Static analysis of buidl/op.py, script.py, timelock.py: every handler reachable through OP_CODE_FUNCTIONS / TAPROOT_OP_CODE_FUNCTIONS "
    "is summarised by abstract interpretation over a symbolic stack (required depth, consumed slots, pushed value expressions) and the "
    "normalised summary is compared with the consensus stack-effect table (appendix A.4); PICK/ROLL operand accept-sets; truth tests must go "
    "through the numeric zero test; IF/NOTIF polarity; handler/name/arity tables incl. the BIP342 delta and OP_SUCCESS set; CLTV/CSV failure "
    "conditions and their order; timelock constants; small-number opcode codec. Not decided: whole-program equivalence, nested-conditional "
    "scanning on all programs, the arithmetic of encode_num/decode_num."
)


def table_names(repo, modname, tname):
    m = repo.module(modname)
    node = m.constants.get(tname)
    if node is not None and not isinstance(node, ast.Dict):
        # a table that is computed at import (copied from another table, updated, built by a helper): evaluate its defining expression
        from sa.cells import Evaluator, Undecided
        try:
            v = Evaluator(repo)._expr(node, {}, m, None)
        except Undecided as u:
            raise AnalysisError("%s.%s is not a dict display and not evaluable: %s" % (modname, tname, u))
        except Exception as ex:  # Raised while evaluating the table
            raise AnalysisError("%s.%s: evaluation of the table raises %s" % (modname, tname, ex))
        if isinstance(v, dict) and all(isinstance(k, int) and isinstance(x, tuple) and len(x) == 3 and x[0] == "func" for k, x in v.items()):
            return m, node, {k: x[2] for k, x in v.items()}
        raise AnalysisError("%s.%s does not evaluate to a table of functions" % (modname, tname))
    if not isinstance(node, ast.Dict):
        raise AnalysisError("%s.%s is not a dict display" % (modname, tname))
    f = Folder(repo, m.name)
    out = {}
    for k, v in zip(node.keys, node.values):
        kk = f.fold(k)
        if not isinstance(kk, int):
            raise AnalysisError("%s: non-constant key %s" % (tname, ast.unparse(k)))
        if kk in out:
            raise AnalysisError("%s: duplicate key %d" % (tname, kk))
        out[kk] = v.id if isinstance(v, ast.Name) else ast.unparse(v)
    return m, node, out


def fmt_val(v):
    if not isinstance(v, tuple):
        return repr(v)
    k = v[0]
    if k == "slot":
        return "x%d" % v[1]
    if k == "dec":
        return "num(%s)" % fmt_val(v[1])
    if k == "enc":
        return fmt_val(v[1])
    if k == "const":
        return repr(v[1])
    if k in ("add", "sub", "min", "max", "and", "or"):
        sym = {"add": "+", "sub": "-", "and": "and", "or": "or"}.get(k)
        if sym:
            return "(%s %s %s)" % (fmt_val(v[1]), sym, fmt_val(v[2]))
        return "%s(%s, %s)" % (k, fmt_val(v[1]), fmt_val(v[2]))
    if k in ("neg", "abs", "len", "bool", "not"):
        return "%s(%s)" % (k, fmt_val(v[1]))
    if k == "cmp":
        return "(%s %s %s)" % (fmt_val(v[2]), v[1], fmt_val(v[3]))
    if k == "hash":
        return "%s(%s)" % (v[1], fmt_val(v[2]))
    if k == "depth":
        return "depth"
    if k == "sel":
        return "(%s ? %s : %s)" % (fmt_val(v[1]), fmt_val(v[2]), fmt_val(v[3]))
    if k == "raw":
        return "%s-as-given(not re-encoded)" % fmt_val(v[1])
    return str(v)


def fmt_fx(consumed, pushed):
    ins = " ".join("x%d" % i for i in range(consumed, 0, -1))
    return "%s → %s" % (ins or "ε", " ".join(fmt_val(p) for p in pushed) or "ε")


def _depth(e, which="stack"):
    ds = [d for w, d in e["depth"] if w == which and isinstance(d, int)]
    return max(ds) if ds else 0


def _enc(n):
    """script number encoding (reference)"""
    if n == 0:
        return b""
    a, out_ = abs(n), bytearray()
    while a:
        out_.append(a & 0xFF)
        a >>= 8
    if out_[-1] & 0x80:
        out_.append(0x80 if n < 0 else 0)
    elif n < 0:
        out_[-1] |= 0x80
    return bytes(out_)


def _dec(b):
    if not b:
        return 0
    big = b[::-1]
    neg = bool(big[0] & 0x80)
    v = big[0] & 0x7F
    for c in big[1:]:
        v = (v << 8) + c
    return -v if neg else v


def _interp(t, slots, depth):
    k = t[0]
    if k == "slot":
        return slots[-t[1]]
    if k == "dec":
        return _dec(_interp(t[1], slots, depth))
    if k == "enc":
        return _enc(_interp(t[1], slots, depth))
    if k == "const":
        return t[1]
    if k == "bool":
        return 1 if _interp(t[1], slots, depth) else 0
    if k == "not":
        return not _interp(t[1], slots, depth)
    if k == "cmp":
        a, b = _interp(t[2], slots, depth), _interp(t[3], slots, depth)
        return {"==": a == b, "!=": a != b, "<": a < b, "<=": a <= b, ">": a > b, ">=": a >= b}[t[1]]
    if k in ("add", "sub", "min", "max", "and", "or"):
        a, b = _interp(t[1], slots, depth), _interp(t[2], slots, depth)
        return {"add": lambda: a + b, "sub": lambda: a - b, "min": lambda: min(a, b), "max": lambda: max(a, b), "and": lambda: bool(a) and bool(b), "or": lambda: bool(a) or bool(b)}[k]()
    if k == "neg":
        return -_interp(t[1], slots, depth)
    if k == "abs":
        return abs(_interp(t[1], slots, depth))
    if k == "len":
        return len(_interp(t[1], slots, depth))
    if k == "depth":
        return depth
    raise KeyError(k)


def _stackfx_cells(ctx, code, hname, fn, m, oblkey, small=False):
    """the handler evaluated on stacks built from a pool of operands (script numbers around the byte boundaries, non-minimal and negative-zero
    encodings) at the required depth, one deeper, and one too shallow; the resulting stack is compared with the consensus effect read as a
    function.  Bounded in the operand values; None when the handler or the effect is outside what can be evaluated (hash opcodes)."""
    import itertools
    from sa.cells import Evaluator, Raised, Undecided
    name, depth, consumed, pushed = OPS.FIXED[code]
    if any("hash" in repr(t) for t in pushed):
        return None
    nums = [-2, -1, 0, 1, 2, 3, 127, 128, -128, 255, 256, -256, 32767, 2 ** 31 - 1, -(2 ** 31 - 1)]
    pool = [_enc(n) for n in nums] + [b"\x00", b"\x80", b"\x05\x00", b"\x05\x80"]
    if small:
        pool = [_enc(n) for n in (0, 1, -1, 2, 300)] + [b"\x80", b"\x05\x00"]
    uses_numbers = any("dec" in repr(t) for t in pushed)
    if depth <= 2:
        choices = pool if uses_numbers else [b"\x01", b"\x02\x03", b""]
    elif depth == 3:
        choices = pool[:9] if uses_numbers else [b"\x01", b"\x02\x03", b""]
    else:
        choices = None
    stacks = []
    if choices is not None:
        for tup in itertools.product(choices, repeat=depth):
            stacks.append(list(tup))
    else:
        stacks.append([bytes([0x10 + i]) for i in range(depth)])
    spec = "op:" + hname
    n = 0
    for base in stacks:
        for extra in ([], [b"\xaa\xbb"]):
            n += 1
            st = list(extra) + list(base)
            want = list(extra) + list(base[:len(base) - consumed]) + [_interp(t, st, len(st)) for t in pushed]
            # the oracle's pushed elements are written with consumed elements still addressable: slots refer to the stack before the opcode
            got = list(st)
            try:
                r = Evaluator(ctx.repo).call(spec, [got])
            except Undecided:
                return None
            except Raised as x:
                return ctx.bad(spec, "%s (%d → %s) raises %s on the stack %s" % (name, code, hname, x.name, [e.hex() for e in st]), fn, m, key="%s:%s:raises" % (oblkey, name))
            if r is not True or got != want:
                # the key names the observed effect in the notation of the symbolic path (x6x5…→…) when the result is a rearrangement of distinct
                # operands, so that one deviation is one finding whichever way it was decided
                sig = "cells"
                if r is True and not extra and len(set(base)) == len(base) and all(x_ in base for x_ in got):
                    slots = [("slot", len(base) - base.index(x_)) for x_ in got]
                    sig = fmt_fx(len(base), slots).replace(" ", "")
                return ctx.bad(spec, "%s (%d → %s) on the stack [%s] %s [%s]; consensus leaves [%s]" % (
                    name, code, hname, " ".join(e.hex() or "''" for e in st), "fails and leaves" if r is not True else "leaves", " ".join(e.hex() or "''" for e in got),
                    " ".join(e.hex() or "''" for e in want)), fn, m, key="%s:%s:%s" % (oblkey, name, sig))
    if depth:
        short = [bytes([0x10 + i]) for i in range(depth - 1)]
        try:
            r = Evaluator(ctx.repo).call(spec, [list(short)])
        except Undecided:
            return None
        except Raised:
            r = False
        if r is not False:
            return ctx.bad(spec, "%s (%d → %s) succeeds on a stack of %d element(s); consensus requires %d" % (name, code, hname, depth - 1, depth), fn, m,
                           key="%s:%s:@depth" % (oblkey, name))
    ctx.count("cells", n)
    return ctx.ok(spec, "%s: depth %d, %s (evaluated on %d operand stacks)" % (name, depth, fmt_fx(consumed, pushed), n), fn, m, key="%s:%s" % (oblkey, name))


def _stackfx(ctx, codes, oblkey):
    m, node, table = table_names(ctx.repo, "op", "OP_CODE_FUNCTIONS")
    out = []
    for code in codes:
        name, depth, consumed, pushed = OPS.FIXED[code]
        if code not in table:
            out.append(ctx.err("op:OP_CODE_FUNCTIONS[%d]" % code, "%s has no handler" % name, node, m))
            continue
        hname = table[code]
        if hname not in m.functions:
            out.append(ctx.err("op:" + hname, "handler of %s is not a function of op.py" % name, node, m))
            continue
        fn = m.functions[hname]
        ctx.note_fn(m, fn)
        try:
            e = effect_of(ctx.repo, m, fn)
            s = simplify_success(e["success"]) if e["success"] else None
            why = None if s is not None else "success outcomes not reducible to one effect: %s" % (e["success"],)
        except AnalysisError as ae:
            s, why = None, str(ae)
        if s is None:
            # the symbolic stack executor does not model this spelling of the handler: decide it by evaluating the handler on a pool of operands
            r = _stackfx_cells(ctx, code, hname, fn, m, oblkey)
            out.append(r if r is not None else ctx.err("op:" + hname, "%s: %s" % (name, why), fn, m))
            continue
        conds, c, p, ac, ap = s
        anchor = "op:%s" % hname
        problems = []
        if conds:
            problems.append("succeeds only under %s" % [fmt_val(x) for x in conds])
        if ac or ap:
            problems.append("touches the alt stack")
        if _depth(e) != depth:
            problems.append("requires depth %d, consensus requires %d" % (_depth(e), depth))
        # compare effects on a common window: extend both to the larger consumed count
        cc = max(c, consumed)
        got = [("slot", i) for i in range(cc, c, -1)] + p
        want = [("slot", i) for i in range(cc, consumed, -1)] + pushed
        if got != want:
            problems.append("stack effect is %s, consensus: %s" % (fmt_fx(cc, got), fmt_fx(cc, want)))
        if problems:
            # the key names the deviation (observed effect / depth), so that a different wrong effect of the same opcode is a different finding
            sig = fmt_fx(cc, got).replace(" ", "") + ("" if _depth(e) == depth else "@depth%d" % _depth(e)) + ("+cond" if conds else "") + ("+alt" if ac or ap else "")
            out.append(ctx.bad(anchor, "%s (%d → %s): %s" % (name, code, hname, "; ".join(problems)), fn, m, key="%s:%s:%s" % (oblkey, name, sig)))
        else:
            out.append(ctx.ok(anchor, "%s: depth %d, %s" % (name, depth, fmt_fx(consumed, pushed)), fn, m, key="%s:%s" % (oblkey, name)))
    return out


STACK_CODES = [109, 110, 111, 112, 113, 114, 116, 117, 118, 119, 120, 123, 124, 125]
ARITH_CODES = [130, 135, 139, 140, 143, 144, 145, 146, 147, 148, 154, 155, 156, 158, 159, 160, 161, 162, 163, 164, 165]
HASH_CODES = [166, 167, 168, 169, 170]


def c07_1(ctx):
    out = _stackfx(ctx, STACK_CODES, "fx")
    m, node, table = table_names(ctx.repo, "op", "OP_CODE_FUNCTIONS")
    # IFDUP
    fn = m.functions.get(table.get(115, ""))
    if fn is None:
        raise AnalysisError("OP_IFDUP handler missing")
    e = effect_of(ctx.repo, m, fn)
    want = {(norm(("cmp", "!=", ("dec", ("slot", 1)), ("const", 0))), (("slot", 1),)), (norm(("cmp", "==", ("dec", ("slot", 1)), ("const", 0))), ())}
    def as_cond(v):
        """a script number used as a truth value is the test `num != 0`"""
        if isinstance(v, tuple) and v and v[0] == "dec":
            return norm(("cmp", "!=", v, ("const", 0)))
        if isinstance(v, tuple) and v and v[0] == "not" and isinstance(v[1], tuple) and v[1] and v[1][0] == "dec":
            return norm(("cmp", "==", v[1], ("const", 0)))
        return v
    got = {(as_cond(tuple(c)[0]) if len(c) == 1 else tuple(as_cond(x) for x in c), tuple(p)) for c, n, p, ac, ap in e["success"] if n == 0}
    if got == want and _depth(e) == 1:
        out.append(ctx.ok("op:" + fn.name, "OP_IFDUP: duplicates the top exactly when num(x1) != 0", fn, m, key="fx:OP_IFDUP"))
    else:
        out.append(ctx.bad("op:" + fn.name, "OP_IFDUP outcomes %s, consensus: dup iff num(x1) != 0" % [([fmt_val(x) for x in c], [fmt_val(x) for x in p]) for c, n, p, _, _ in e["success"]], fn, m, key="fx:OP_IFDUP"))
    # alt stack
    for code, name, exp in ((107, "OP_TOALTSTACK", (1, [], 0, [("slot", 1)])), (108, "OP_FROMALTSTACK", (0, [("slot", 1)], 1, []))):
        fn = m.functions.get(table.get(code, ""))
        if fn is None:
            raise AnalysisError("%s handler missing" % name)
        try:
            e = effect_of(ctx.repo, m, fn)
            if not e["success"] or simplify_success(e["success"]) is None:
                e = None
        except AnalysisError:
            e = None
        if e is None:
            # the symbolic executor does not model this spelling (a helper that takes the two stacks as source / destination): evaluate the handler
            from sa.cells import Evaluator, Raised, Undecided
            verdict = None
            try:
                for main in ([], [b"a"], [b"a", b"b"], [b"", b"\x01", b"x" * 80]):
                    for alt in ([], [b"p"], [b"p", b"q"]):
                        st, al = list(main), list(alt)
                        ctx.count("cells")
                        try:
                            r_ = Evaluator(ctx.repo).call("op:" + fn.name, [st, al])
                        except Raised as x_:
                            verdict = "raises %s on stack %s / alt stack %s" % (x_.name, main, alt)
                            break
                        src, dst = (main, alt) if code == 107 else (alt, main)
                        if not src:
                            good = r_ is False and st == main and al == alt
                        else:
                            want_src, want_dst = src[:-1], dst + [src[-1]]
                            good = r_ is True and ((st, al) == (want_src, want_dst) if code == 107 else (al, st) == (want_src, want_dst))
                        if not good:
                            verdict = "on stack %s / alt stack %s returns %r leaving %s / %s" % (main, alt, r_, st, al)
                            break
                    if verdict:
                        break
            except Undecided as u_:
                out.append(ctx.err("op:" + fn.name, "%s: handler neither modelled nor evaluable (%s)" % (name, u_), fn, m))
                continue
            out.append(ctx.bad("op:" + fn.name, "%s: %s; consensus moves exactly one item and fails on an empty source" % (name, verdict), fn, m, key="fx:" + name) if verdict else
                       ctx.ok("op:" + fn.name, "%s moves one item between the stacks (evaluated on 12 stack pairs)" % name, fn, m, key="fx:" + name))
            continue
        s = simplify_success(e["success"])
        ok = s is not None and not s[0] and (s[1], s[2], s[3], s[4]) == exp
        dep_ok = (_depth(e, "stack") == 1) if code == 107 else (_depth(e, "altstack") == 1)
        if ok and dep_ok:
            out.append(ctx.ok("op:" + fn.name, "%s moves one item between the stacks" % name, fn, m, key="fx:" + name))
        else:
            out.append(ctx.bad("op:" + fn.name, "%s: effect %s depth-check %s; consensus moves exactly one item and fails on an empty source" % (name, s, e["depth"]), fn, m, key="fx:" + name))
    # pushes of small numbers
    for code, n in sorted(OPS.PUSH_NUM.items()):
        fn = m.functions.get(table.get(code, ""))
        if fn is None:
            out.append(ctx.err("op:OP_CODE_FUNCTIONS[%d]" % code, "no handler", node, m))
            continue
        e = effect_of(ctx.repo, m, fn)
        s = simplify_success(e["success"])
        if s and not s[0] and s[1] == 0 and s[2] == [("enc", ("const", n))]:
            out.append(ctx.ok("op:" + fn.name, "pushes the number %d" % n, fn, m, key="push:%d" % code))
        else:
            out.append(ctx.bad("op:" + fn.name, "opcode %d must push the number %d, handler effect: %s" % (code, n, s), fn, m, key="push:%d" % code))
    # NOPs and RETURN
    for code in sorted(OPS.NOPS):
        fn = m.functions.get(table.get(code, ""))
        if fn is None:
            continue
        e = effect_of(ctx.repo, m, fn)
        s = simplify_success(e["success"]) if e["success"] else None
        if s and not s[0] and s[1] == 0 and not s[2] and not e["fail"]:
            out.append(ctx.ok("op:" + fn.name, "opcode %d is a no-op" % code, fn, m, key="nop:%d" % code))
        else:
            out.append(ctx.bad("op:" + fn.name, "opcode %d must be a no-op, handler effect: %s" % (code, s), fn, m, key="nop:%d" % code))
    fn = m.functions.get(table.get(106, ""))
    if fn is not None:
        e = effect_of(ctx.repo, m, fn)
        if not e["success"] and e["fail"]:
            out.append(ctx.ok("op:" + fn.name, "OP_RETURN always fails", fn, m, key="fx:OP_RETURN"))
        else:
            out.append(ctx.bad("op:" + fn.name, "OP_RETURN can succeed", fn, m, key="fx:OP_RETURN"))
    return out


def c07_2(ctx):
    out = _stackfx(ctx, ARITH_CODES, "fx")
    m, node, table = table_names(ctx.repo, "op", "OP_CODE_FUNCTIONS")
    # VERIFY
    fn = m.functions.get(table.get(105, ""))
    if fn is None:
        raise AnalysisError("OP_VERIFY handler missing")
    e = effect_of(ctx.repo, m, fn)
    good = len(e["success"]) == 1 and e["success"][0][0] == [norm(("cmp", "!=", ("dec", ("slot", 1)), ("const", 0)))] and e["success"][0][1] == 1 and not e["success"][0][2] \
        and _depth(e) == 1
    out.append(ctx.ok("op:" + fn.name, "OP_VERIFY pops x1 and succeeds iff num(x1) != 0", fn, m, key="fx:OP_VERIFY") if good else
               ctx.bad("op:" + fn.name, "OP_VERIFY: outcomes %s" % e["success"], fn, m, key="fx:OP_VERIFY"))
    # composed *VERIFY opcodes
    for code, (base, ver) in sorted(OPS.COMPOSED.items()):
        fn = m.functions.get(table.get(code, ""))
        if fn is None:
            out.append(ctx.err("op:OP_CODE_FUNCTIONS[%d]" % code, "no handler", node, m))
            continue
        e = effect_of(ctx.repo, m, fn)
        comp = e["compose"]
        names = []
        if isinstance(comp, ast.BoolOp) and isinstance(comp.op, ast.And):
            names = [call_name(v) for v in comp.values if isinstance(v, ast.Call)]
        want = [table.get(base), table.get(ver)]
        if names == want:
            out.append(ctx.ok("op:" + fn.name, "%s = %s then %s" % (OPS.NAMES[code], want[0], want[1]), fn, m, key="compose:%d" % code))
        else:
            out.append(ctx.bad("op:" + fn.name, "%s is `%s`, expected %s followed by %s" % (OPS.NAMES[code], ast.unparse(comp) if comp is not None else e, want[0], want[1]), fn, m, key="compose:%d" % code))
    return out


def c07_3(ctx):
    return _stackfx(ctx, HASH_CODES, "fx")


def c07_4(ctx):
    out = []
    for spec in ("op:op_pick", "op:op_roll"):
        mod, fn = rl.get(ctx, spec)
        # the operand: local assigned decode_num(stack.pop())
        var = None
        for st in ast.walk(fn):
            if isinstance(st, ast.Assign) and isinstance(st.targets[0], ast.Name) and isinstance(st.value, ast.Call) and call_name(st.value) == "decode_num":
                var = st.targets[0].id
        if var is None:
            raise AnalysisError("%s: operand variable not found" % spec)
        out += rl.accept_set(ctx, spec, [var], ISet.range(0, None), targets="nonfalse", prefer=(-1,), what="operand n")
    return out


def _is_numeric_zero_test(t):
    """decode_num(x) == 0 / != 0 / truthiness of decode_num(x) / a cast-to-bool helper call"""
    if isinstance(t, ast.Compare) and len(t.ops) == 1 and isinstance(t.ops[0], (ast.Eq, ast.NotEq)):
        for a, b in ((t.left, t.comparators[0]), (t.comparators[0], t.left)):
            if isinstance(a, ast.Call) and call_name(a) == "decode_num" and isinstance(b, ast.Constant) and b.value == 0:
                return True
    if isinstance(t, ast.Call) and call_name(t) in ("decode_num", "cast_to_bool", "op_verify", "is_truthy", "element_is_true"):
        return True
    return False


def _is_bytes_const_compare(t):
    if isinstance(t, ast.Compare) and len(t.ops) == 1 and isinstance(t.ops[0], (ast.Eq, ast.NotEq, ast.In, ast.NotIn)):
        for a, b in ((t.left, t.comparators[0]), (t.comparators[0], t.left)):
            if isinstance(b, ast.Constant) and isinstance(b.value, bytes):
                return a
            if isinstance(b, (ast.Tuple, ast.List, ast.Set)) and b.elts and all(isinstance(x, ast.Constant) and isinstance(x.value, bytes) for x in b.elts):
                return a
    return None


class _ValueAsTest:
    """a returned verdict expression presented like a test node (.ast is the expression)"""

    def __init__(self, expr, node):
        self.ast, self.id, self.lineno = expr, node.id, node.lineno


def c07_5(ctx):
    """truth tests go through the numeric zero test"""
    out = []
    spec = "script:Script.evaluate"
    mod, fn = rl.get(ctx, spec)
    cfg = cfg_of(fn)
    finals = []
    for n in cfg.tests():
        if n.loops:
            continue
        t = n.ast
        stack_names = {x.id for x in ast.walk(t) if isinstance(x, ast.Name)}
        ex = expand(fn, n.id, t, stop=stack_names & {"stack"})
        txt = ast.unparse(ex)
        if "stack.pop()" in txt or "stack[-1]" in txt:
            finals.append((n, ex))
    for n in cfg.returns():
        # `return <verdict computed from the top element>` is the same decision written as a value
        if n.loops or n.ast is None or n.ast.value is None or isinstance(n.ast.value, ast.Constant):
            continue
        v = n.ast.value
        ex = expand(fn, n.id, v, stop={"stack"})
        txt = ast.unparse(ex)
        if "stack.pop()" in txt or "stack[-1]" in txt:
            finals.append((_ValueAsTest(v, n), ex))
    if not finals:
        raise AnalysisError("Script.evaluate: final truth test of the top stack element not found")
    for n, ex in finals:
        side = _is_bytes_const_compare(ex)
        if side is not None:
            out.append(ctx.bad(spec, "the final result is decided by `%s`: the consensus false-set is every all-zero string and negative zero (00, 0000, 80, 0080, …), "
                               "not one constant; a script leaving 00 or 80 on the stack is accepted" % ast.unparse(n.ast), n.ast, mod, key="final-truth"))
        elif _is_numeric_zero_test(ex) or any(_is_numeric_zero_test(x) for x in ast.walk(ex) if isinstance(x, (ast.Compare, ast.Call))):
            out.append(ctx.ok(spec, "the final result is decided by the numeric zero test `%s`" % ast.unparse(n.ast), n.ast, mod, key="final-truth"))
        else:
            # recognised wrong forms: byte-level truthiness of the raw element
            core = ex.operand if isinstance(ex, ast.UnaryOp) and isinstance(ex.op, ast.Not) else ex
            raw = lambda e: ast.unparse(e) in ("stack.pop()", "stack[-1]")
            wrong = None
            if isinstance(core, ast.Call) and call_name(core) == "any" and core.args and raw(core.args[0]):
                wrong = "any non-zero byte counts as true, so negative zero (80, 0080, …) is accepted; consensus CastToBool ignores the sign bit of the last byte"
            elif isinstance(core, ast.Call) and call_name(core) in ("bool", "len") and core.args and raw(core.args[0]):
                wrong = "any non-empty element counts as true, so 00 and 80 are accepted"
            elif raw(core):
                wrong = "any non-empty element counts as true, so 00 and 80 are accepted"
            if wrong:
                out.append(ctx.bad(spec, "the final result is decided by `%s`: %s" % (ast.unparse(n.ast), wrong), n.ast, mod, key="final-truth"))
            else:
                out.append(ctx.err(spec, "final truth test `%s` not recognised" % ast.unparse(n.ast), n.ast, mod))
    # handlers: conditions over raw slots compared with constants are proven-wrong forms
    m, node, table = table_names(ctx.repo, "op", "OP_CODE_FUNCTIONS")
    for code in (105, 115, 145, 146, 154, 155):
        fn2 = m.functions.get(table.get(code, ""))
        if fn2 is None:
            continue
        try:
            e = effect_of(ctx.repo, m, fn2)
        except AnalysisError as ae:
            # not a spelling the symbolic executor models: decide the truth test by evaluating the handler on the operand pool (which holds 00, 80, 0500, 0580)
            r = _stackfx_cells(ctx, code, fn2.name, fn2, m, "truth") if code in OPS.FIXED else _truth_cells(ctx, code, fn2, m)
            out.append(r if r is not None else ctx.err("op:" + fn2.name, "%s: %s" % (OPS.NAMES[code], ae), fn2, m))
            continue
        bad = []
        for c, _, p, _, _ in e["success"]:
            for x in list(c) + list(p):
                for sub in _walk(x):
                    if isinstance(sub, tuple) and sub[0] == "cmp" and any(isinstance(y, tuple) and y[0] == "slot" for y in sub[2:]) \
                            and any(isinstance(y, tuple) and y[0] == "const" and isinstance(y[1], bytes) for y in sub[2:]):
                        bad.append(sub)
        for cs in e["fail"]:
            for x in cs:
                for sub in _walk(x):
                    if isinstance(sub, tuple) and sub[0] == "cmp" and any(isinstance(y, tuple) and y[0] == "slot" for y in sub[2:]) \
                            and any(isinstance(y, tuple) and y[0] == "const" and isinstance(y[1], bytes) for y in sub[2:]):
                        bad.append(sub)
        if bad:
            out.append(ctx.bad("op:" + fn2.name, "%s tests the raw element against a byte constant (%s) instead of its numeric value" % (OPS.NAMES[code], fmt_val(bad[0])), fn2, m, key="truth:%d" % code))
        else:
            out.append(ctx.ok("op:" + fn2.name, "%s uses the numeric zero test" % OPS.NAMES[code], fn2, m, key="truth:%d" % code))
    return out


def _truth_cells(ctx, code, fn2, m):
    """OP_VERIFY / OP_IFDUP evaluated on the operand pool: the top element counts as true exactly when its numeric value is non-zero"""
    from sa.cells import Evaluator, Raised, Undecided
    pool = [_enc(n) for n in (-2, -1, 0, 1, 2, 127, 128, 255, 256)] + [b"\x00", b"\x80", b"\x00\x00", b"\x00\x80", b"\x05\x00", b"\x05\x80"]
    spec = "op:" + fn2.name
    for top in pool:
        st = [b"\xaa", top]
        truth = _dec(top) != 0
        try:
            r = Evaluator(ctx.repo).call(spec, [st])
        except Undecided:
            return None
        except Raised:
            r = False
        if code == 105:
            ok = (r is True and st == [b"\xaa"]) if truth else (r is False)
        else:
            ok = r is True and st == ([b"\xaa", top, top] if truth else [b"\xaa", top])
        if not ok:
            return ctx.bad(spec, "%s with the top element %s (numeric value %d) returns %r and leaves %s: the truth of an element is its numeric value being non-zero "
                                 "(00, 0000, 80, 0080 are false)" % (OPS.NAMES[code], top.hex() or "''", _dec(top), r, [e_.hex() for e_ in st]), fn2, m, key="truth:%d" % code)
    return ctx.ok(spec, "%s uses the numeric zero test (evaluated on %d top elements incl. negative zero and non-minimal zeros)" % (OPS.NAMES[code], len(pool)), fn2, m, key="truth:%d" % code)


def _walk(v):
    yield v
    if isinstance(v, tuple):
        for x in v[1:]:
            if isinstance(x, tuple):
                yield from _walk(x)
            elif isinstance(x, list):
                for y in x:
                    yield from _walk(y)


def _c07_6_structural(ctx):
    """op_if / op_notif: opposite polarity on the same zero test; nesting tokens"""
    out = []
    m, node, table = table_names(ctx.repo, "op", "OP_CODE_FUNCTIONS")
    pol = {}
    for code, label in ((99, "OP_IF"), (100, "OP_NOTIF")):
        hname = table.get(code)
        fn = m.functions.get(hname or "")
        if fn is None:
            raise AnalysisError("%s handler missing" % label)
        ctx.note_fn(m, fn)
        cfg = cfg_of(fn)
        items = param_names(fn)[1]
        # the branch decision: a test whose two edges lead to `items[:0] = A` / `items[:0] = B`
        found = None
        for n in cfg.tests():
            tgt = {}
            for b, l in cfg.succ[n.id]:
                a = cfg.nodes[b].ast
                if isinstance(a, ast.Assign) and isinstance(a.targets[0], ast.Subscript) and isinstance(a.targets[0].value, ast.Name) and a.targets[0].value.id == items \
                        and isinstance(a.value, ast.Name):
                    tgt[l] = a.value.id
            if len(tgt) == 2:
                found = (n, tgt)
        if not found:
            raise AnalysisError("%s: branch selection not recognised" % hname)
        n, tgt = found
        ex = expand(fn, n.id, n.ast)
        if not _is_numeric_zero_test(ex):
            if _is_bytes_const_compare(ex) is not None:
                out.append(ctx.bad("op:" + hname, "%s selects its branch by `%s` (raw bytes) instead of the numeric zero test" % (label, ast.unparse(n.ast)), n.ast, m, key="zero:" + label))
                continue
            raise AnalysisError("%s: branch test `%s` not recognised" % (hname, ast.unparse(n.ast)))
        # which list collects the items before OP_ELSE?  `current_array = X` initial assignment
        first = None
        for st in fn.body:
            if isinstance(st, ast.Assign) and isinstance(st.targets[0], ast.Name) and isinstance(st.value, ast.Name) and st.targets[0].id.startswith("current"):
                first = st.value.id
        if first is None:
            raise AnalysisError("%s: initial collection list not found" % hname)
        # truth value of the test meaning "element is zero"
        t = ex
        zero_when = True
        if isinstance(t, ast.Compare):
            zero_when = isinstance(t.ops[0], ast.Eq)
        elif isinstance(t, ast.Call):
            zero_when = False
        executes_first_when_nonzero = (tgt[not zero_when] == first)
        pol[label] = executes_first_when_nonzero
        out.append(ctx.ok("op:" + hname, "%s: branch chosen by `%s`; items before OP_ELSE run when the element is %s" % (
            label, ast.unparse(n.ast), "non-zero" if executes_first_when_nonzero else "zero"), n.ast, m, key="zero:" + label))
        # nesting tokens
        f = Folder(ctx.repo, m.name)
        seen = set()
        for tn in cfg.tests():
            tt = tn.ast
            if isinstance(tt, ast.Compare) and len(tt.ops) == 1:
                c = f.fold(tt.comparators[0])
                if isinstance(tt.ops[0], ast.In) and isinstance(c, (tuple, list)):
                    seen |= set(c)
                elif isinstance(tt.ops[0], ast.Eq) and isinstance(c, int):
                    seen.add(c)
        if {99, 100, 103, 104} <= seen:
            out.append(ctx.ok("op:" + hname, "%s scans for nested IF/NOTIF (99,100), ELSE (103) and ENDIF (104)" % label, fn, m, key="tokens:" + label))
        else:
            out.append(ctx.bad("op:" + hname, "%s scanning recognises %s, needs {99,100,103,104}" % (label, sorted(seen)), fn, m, key="tokens:" + label))
    if set(pol) == {"OP_IF", "OP_NOTIF"}:
        if pol["OP_IF"] is True and pol["OP_NOTIF"] is False:
            out.append(ctx.ok("op:op_if/op_notif", "IF runs the first branch on non-zero, NOTIF on zero", key="polarity"))
        else:
            out.append(ctx.bad("op:op_if/op_notif", "polarity: IF runs first branch on non-zero=%s, NOTIF on non-zero=%s (consensus: True / False)" % (pol["OP_IF"], pol["OP_NOTIF"]), key="polarity"))
    return out


def c07_6(ctx):
    """structural reading of op_if / op_notif; when the handlers are not in the recognised shape the clause is left to the
    cell evaluation of C07.13, which decides polarity and nesting from the handlers' behaviour on every token cell"""
    try:
        return _c07_6_structural(ctx)
    except AnalysisError as e:
        m = ctx.repo.module("op")
        return [ctx.ok("op:op_if/op_notif", "handlers not in the structural form this rule reads (%s); polarity and nesting are decided by C07.13" % e, None, m, key="deferred")]


def _expected_handler(code):
    nm = OPS.NAMES.get(code)
    if nm is None:
        return None
    if code in OPS.NOPS:
        return "op_nop"
    return nm.lower()


def c07_7(ctx):
    out = []
    m, node, table = table_names(ctx.repo, "op", "OP_CODE_FUNCTIONS")
    mt, nodet, ttable = table_names(ctx.repo, "op", "TAPROOT_OP_CODE_FUNCTIONS")
    names = module_const(ctx.repo, "op", "OP_CODE_NAMES")
    if names is Unknown:
        raise AnalysisError("OP_CODE_NAMES not foldable")
    ctx.count("table_entries", len(table) + len(ttable) + len(names))
    # names table vs spec
    bad = sorted(k for k in set(names) | set(OPS.NAMES) if names.get(k) != OPS.NAMES.get(k))
    if bad:
        out.append(ctx.bad("op:OP_CODE_NAMES", "opcode names differ from consensus at %s: %s" % (bad[:5], [(k, names.get(k), OPS.NAMES.get(k)) for k in bad[:3]]), m.constants["OP_CODE_NAMES"], m, key="names"))
    else:
        out.append(ctx.ok("op:OP_CODE_NAMES", "%d opcode names equal the consensus names" % len(names), m.constants["OP_CODE_NAMES"], m, key="names"))
    # legacy table: handler name ↔ opcode name
    wrong = []
    for code, h in sorted(table.items()):
        exp = _expected_handler(code)
        if exp is None or h != exp:
            wrong.append((code, h, exp))
    if wrong:
        for code, h, exp in wrong[:6]:
            out.append(ctx.bad("op:OP_CODE_FUNCTIONS", "opcode %d (%s) is dispatched to %s, expected %s" % (code, OPS.NAMES.get(code), h, exp), node, m, key="legacy:%d" % code))
    else:
        out.append(ctx.ok("op:OP_CODE_FUNCTIONS", "%d entries: every opcode is dispatched to the handler of its own name" % len(table), node, m, key="legacy"))
    # required opcodes present
    need = set(OPS.FIXED) | set(OPS.PUSH_NUM) | set(OPS.COMPOSED) | {99, 100, 105, 106, 107, 108, 115, 121, 122, 172, 174, 177, 178}
    missing = sorted(need - set(table))
    if missing:
        out.append(ctx.bad("op:OP_CODE_FUNCTIONS", "implemented opcode(s) %s have no table entry" % missing, node, m, key="legacy-missing"))
    # taproot table = legacy + delta + OP_SUCCESS
    exp_t = dict(table)
    for k, v in OPS.TAPROOT_DELTA.items():
        exp_t[k] = v
    for k in OPS.OP_SUCCESS:
        exp_t[k] = "op_success"
    diffs = []
    for k in sorted(set(exp_t) | set(ttable)):
        e, g = exp_t.get(k), ttable.get(k)
        if e == "<fail>":
            fn = mt.functions.get(g or "")
            if fn is None:
                diffs.append((k, g, "a failing handler"))
                continue
            try:
                ef = effect_of(ctx.repo, mt, fn)
                if ef["success"] or ef["compose"] is not None:
                    diffs.append((k, g, "a handler that always fails"))
            except AnalysisError:
                diffs.append((k, g, "a handler that always fails"))
        elif e != g:
            diffs.append((k, g, e))
    if diffs:
        for k, g, e in diffs[:6]:
            out.append(ctx.bad("op:TAPROOT_OP_CODE_FUNCTIONS", "tapscript opcode %d is dispatched to %s, BIP342 requires %s" % (k, g, e), nodet, mt, key="taproot:%d" % k))
    else:
        out.append(ctx.ok("op:TAPROOT_OP_CODE_FUNCTIONS", "%d entries = legacy table with the BIP342 delta and %d OP_SUCCESSx codes" % (len(ttable), len(OPS.OP_SUCCESS)), nodet, mt, key="taproot"))
    # op_success succeeds unconditionally
    fn = mt.functions.get("op_success")
    if fn is not None:
        ef = effect_of(ctx.repo, mt, fn)
        s = simplify_success(ef["success"]) if ef["success"] else None
        if s and not s[0] and not ef["fail"]:
            out.append(ctx.ok("op:op_success", "OP_SUCCESSx succeeds unconditionally", fn, mt, key="op_success"))
        else:
            out.append(ctx.bad("op:op_success", "OP_SUCCESSx handler can fail", fn, mt, key="op_success"))
    return out


def c07_8(ctx):
    """argument group evaluate() uses for an opcode matches the handler's signature"""
    spec = "script:Script.evaluate"
    mod, fn = rl.get(ctx, spec)
    f = Folder(ctx.repo, mod.name)
    groups = {}
    for st in ast.walk(fn):
        if isinstance(st, ast.If) and isinstance(st.test, ast.Compare) and len(st.test.ops) == 1 and isinstance(st.test.ops[0], ast.In) \
                and isinstance(st.test.left, ast.Name) and st.test.left.id == "command":
            codes = f.fold(st.test.comparators[0])
            calls = [c for c in ast.walk(ast.Module(body=st.body, type_ignores=[])) if isinstance(c, ast.Call) and isinstance(c.func, ast.Name) and c.func.id == "operation"]
            if isinstance(codes, (tuple, list)) and calls and not any(isinstance(a, ast.Starred) for a in calls[0].args):
                for c in codes:
                    groups[c] = len(calls[0].args)
            elif isinstance(codes, (tuple, list)):
                # `args = (stack, commands)` per group, one `operation(*args)` after the chain
                tup = [a.value for a in st.body if isinstance(a, ast.Assign) and len(a.targets) == 1 and isinstance(a.targets[0], ast.Name) and isinstance(a.value, ast.Tuple)]
                star = [c for c in ast.walk(fn) if isinstance(c, ast.Call) and isinstance(c.func, ast.Name) and c.func.id == "operation" and len(c.args) == 1
                        and isinstance(c.args[0], ast.Starred) and isinstance(c.args[0].value, ast.Name)]
                if len(tup) == 1 and star:
                    for c in codes:
                        groups[c] = len(tup[0].elts)
    if not groups:
        raise AnalysisError("evaluate: opcode argument groups not found")
    out = []
    for tname in ("OP_CODE_FUNCTIONS", "TAPROOT_OP_CODE_FUNCTIONS"):
        m, node, table = table_names(ctx.repo, "op", tname)
        bad = []
        for code, h in sorted(table.items()):
            fn2 = m.functions.get(h)
            if fn2 is None:
                continue
            nparams = len(param_names(fn2))
            used = groups.get(code, 1)
            if nparams != used:
                # a handler that can only fail may be called with a mismatching arity: the TypeError is a failure too
                try:
                    ef = effect_of(ctx.repo, m, fn2)
                    only_fail = not ef["success"] and ef["compose"] is None
                except AnalysisError:
                    only_fail = False
                if not only_fail:
                    bad.append((code, h, nparams, used))
        if bad:
            for code, h, np_, used in bad[:5]:
                out.append(ctx.bad("op:%s" % tname, "opcode %d: evaluate() calls the handler with %d argument(s) but %s takes %d" % (code, used, h, np_), node, m, key="arity:%s:%d" % (tname, code)))
        else:
            out.append(ctx.ok("op:%s" % tname, "evaluate() passes every handler the arguments its signature declares (%d entries)" % len(table), node, m, key="arity:" + tname))
    return out


def _ret_true_targets(mod, fn):
    return [n for n in cfg_of(fn).returns() if n.ast is not None and isinstance(n.ast.value, ast.Constant) and n.ast.value.value is True]


def c07_9(ctx):
    """CLTV: BIP65 failure conditions, type test before comparison"""
    spec = "op:op_checklocktimeverify"
    mod, fn = rl.get(ctx, spec)
    ps = param_names(fn)
    stack, tx = ps[0], ps[1]
    out = []

    def g(match, what, key):
        out.append(rl.guard(ctx, spec, match, targets=_ret_true_targets, fail="raise_or_false", what=what, key=key))

    def m_seq(node, ex, atoms):
        t = node.ast
        if isinstance(t, ast.Compare) and len(t.ops) == 1 and isinstance(t.ops[0], (ast.Eq, ast.NotEq)):
            f = Folder(ctx.repo, mod.name)
            for a, b in ((t.left, t.comparators[0]), (t.comparators[0], t.left)):
                if f.fold(b) == 0xFFFFFFFF and "attrname:sequence" in origins(fn, node.id, a) and ("param:" + ps[2]) in origins(fn, node.id, a):
                    # the sequence of the input being evaluated (selected by input_index), not of some / all inputs
                    return BAD_TRUE if isinstance(t.ops[0], ast.Eq) else BAD_FALSE
        if isinstance(t, ast.Call) and call_name(t) == "is_max":
            return BAD_TRUE
        return None
    g(m_seq, "input sequence 0xffffffff fails", "cltv-final")

    def m_empty(node, ex, atoms):
        t = node.ast
        if isinstance(t, ast.Compare) and len(t.ops) == 1 and isinstance(t.left, ast.Call) and call_name(t.left) == "len" and isinstance(t.left.args[0], ast.Name) and t.left.args[0].id == stack:
            c = t.comparators[0]
            if isinstance(t.ops[0], ast.Lt) and isinstance(c, ast.Constant) and c.value == 1:
                return BAD_TRUE
            if isinstance(t.ops[0], ast.Eq) and isinstance(c, ast.Constant) and c.value == 0:
                return BAD_TRUE
        return None
    g(m_empty, "empty stack fails", "cltv-empty")

    def m_neg(node, ex, atoms):
        t = node.ast
        if isinstance(t, ast.Compare) and len(t.ops) == 1 and isinstance(t.ops[0], ast.Lt) and isinstance(t.comparators[0], ast.Constant) and t.comparators[0].value == 0 \
                and "call:decode_num" in origins(fn, node.id, t.left):
            return BAD_TRUE
        return None
    g(m_neg, "negative operand fails", "cltv-negative")

    def m_type(node, ex, atoms):
        t = node.ast
        if isinstance(t, ast.Call) and call_name(t) == "is_comparable":
            return BAD_FALSE
        return None
    g(m_type, "height/time type mismatch fails", "cltv-type")

    def _cltv_rel(node):
        """relation symbol of `<transaction locktime> ? <operand>` read from a comparison in either orientation, or None"""
        def is_tx(e):
            o = origins(fn, node.id, e)
            return "attrname:locktime" in o and "call:decode_num" not in o

        def is_op(e):
            return "call:decode_num" in origins(fn, node.id, e)
        return rl.rel(node.ast, is_tx, is_op)

    def m_lt(node, ex, atoms):
        r = _cltv_rel(node)
        if r == "<":
            return BAD_TRUE   # locktime < operand: not yet reached, must fail
        if r == ">=":
            return BAD_FALSE
        return None
    wrong_rel = [(n, _cltv_rel(n)) for n in cfg_of(fn).tests() if _cltv_rel(n) in ("<=", ">", "==", "!=")]
    if wrong_rel:
        n0, r0 = wrong_rel[0]
        out.append(ctx.bad(spec, "`%s` relates the transaction locktime and the operand by `%s`; BIP65 fails exactly when locktime < operand (an operand equal to the "
                                 "locktime is satisfied)" % (ast.unparse(n0.ast), r0), n0.ast, mod, key="cltv-compare-relation"))
    g(m_lt, "operand greater than the transaction locktime fails", "cltv-compare")
    # order: the type test dominates the comparison (otherwise Locktime.__lt__ raises instead of failing)
    cfg = cfg_of(fn)
    types = [n for n in cfg.tests() if isinstance(n.ast, ast.Call) and call_name(n.ast) == "is_comparable"]
    cmps = [n for n in cfg.tests() if m_lt(n, None, None)]
    if types and cmps:
        r, p = reach_ps(cfg, [cfg.entry], removed={(types[0].id, True)}, targets=[cmps[0].id])
        if p:
            out.append(ctx.bad(spec, "the locktime comparison is reachable without passing the type test", cmps[0].ast, mod, key="cltv-order"))
        else:
            out.append(ctx.ok(spec, "type test precedes the comparison", cmps[0].ast, mod, key="cltv-order"))
    # CLTV does not pop
    pops = [c for c in ast.walk(fn) if isinstance(c, ast.Call) and isinstance(c.func, ast.Attribute) and c.func.attr == "pop" and isinstance(c.func.value, ast.Name) and c.func.value.id == stack]
    out.append(ctx.ok(spec, "the operand is left on the stack", fn, mod, key="cltv-nopop") if not pops else ctx.bad(spec, "CLTV pops its operand (BIP65: the stack is unchanged)", pops[0], mod, key="cltv-nopop"))
    return out


def c07_10(ctx):
    """CSV: BIP112 conditions; operand with bit 31 set is a NOP before any transaction-dependent test"""
    spec = "op:op_checksequenceverify"
    mod, fn = rl.get(ctx, spec)
    cfg = cfg_of(fn)
    ps = param_names(fn)
    stack, tx = ps[0], ps[1]
    out = []
    f = Folder(ctx.repo, mod.name)

    def is_operand(e, nid):
        return "call:decode_num" in origins(fn, nid, e)

    # (1) disable-flag test on the operand
    flag_tests = []
    for n in cfg.tests():
        t = n.ast
        # stack_sequence.is_relative() / element & (1 << 31)
        if isinstance(t, ast.Call) and call_name(t) == "is_relative" and isinstance(t.func, ast.Attribute) and is_operand(t.func.value, n.id):
            flag_tests.append((n, False))  # flag set when is_relative() is False
        for b in ast.walk(t):
            if isinstance(b, ast.BinOp) and isinstance(b.op, ast.BitAnd):
                for x, y in ((b.left, b.right), (b.right, b.left)):
                    if f.fold(y) == 1 << 31 and is_operand(x, n.id):
                        if isinstance(t, ast.BinOp):
                            flag_tests.append((n, True))
                        elif isinstance(t, ast.Compare) and len(t.ops) == 1:
                            c = f.fold(t.comparators[0])
                            eq = isinstance(t.ops[0], ast.Eq)
                            if c == 0:
                                flag_tests.append((n, not eq))
                            elif c == 1 << 31:
                                flag_tests.append((n, eq))
    tx_dep = set()
    for n in cfg.tests():
        at = origins(fn, n.id, n.ast)
        if ("name:" + tx) in at and not (n in [x for x, _ in flag_tests]):
            tx_dep.add(n.id)
    if not flag_tests:
        out.append(ctx.bad(spec, "no test of the operand's disable flag (bit 31): BIP112 says an operand with bit 31 set makes CSV a NOP, "
                           "here such an operand is compared like any other and fails (or the input's own sequence is tested first)", fn, mod, key="csv-disable-nop"))
    else:
        n, flag_label = flag_tests[0]
        trues = [x.id for x in _ret_true_targets(mod, fn)]
        r, p = reach_ps(cfg, [n.id], removed={(n.id, not flag_label)}, blocked=tx_dep, targets=trues)
        # and the flag test itself must be reachable before any tx-dependent failing test
        r2, p2 = reach_ps(cfg, [cfg.entry], blocked=tx_dep, targets=[n.id])
        if p and p2:
            out.append(ctx.ok(spec, "operand with bit 31 set succeeds as a NOP before any transaction-dependent test", n.ast, mod, key="csv-disable-nop"))
        else:
            out.append(ctx.bad(spec, "operand disable flag is tested at line %d but %s" % (n.lineno, "the flag-set edge does not reach success without transaction-dependent tests" if not p else
                                                                                             "a transaction-dependent test precedes it"), n.ast, mod, key="csv-disable-nop"))

    def g(match, what, key):
        out.append(rl.guard(ctx, spec, match, targets=_ret_true_targets, fail="raise_or_false", what=what, key=key,
                            exempt=(lambda m, f_: [(flag_tests[0][0].id, flag_tests[0][1])]) if flag_tests else None))

    def m_empty(node, ex, atoms):
        t = node.ast
        if isinstance(t, ast.Compare) and len(t.ops) == 1 and isinstance(t.left, ast.Call) and call_name(t.left) == "len" and isinstance(t.left.args[0], ast.Name) and t.left.args[0].id == stack:
            c = t.comparators[0]
            if isinstance(t.ops[0], ast.Lt) and isinstance(c, ast.Constant) and c.value == 1:
                return BAD_TRUE
        return None

    def m_neg(node, ex, atoms):
        t = node.ast
        if isinstance(t, ast.Compare) and len(t.ops) == 1 and isinstance(t.ops[0], ast.Lt) and isinstance(t.comparators[0], ast.Constant) and t.comparators[0].value == 0 \
                and is_operand(t.left, node.id):
            return BAD_TRUE
        return None

    def m_version(node, ex, atoms):
        t = node.ast
        if isinstance(t, ast.Compare) and len(t.ops) == 1 and "attrname:version" in origins(fn, node.id, t.left):
            c = f.fold(t.comparators[0])
            if isinstance(t.ops[0], ast.Lt) and c == 2 or isinstance(t.ops[0], ast.LtE) and c == 1:
                return BAD_TRUE
            if isinstance(t.ops[0], ast.GtE) and c == 2 or isinstance(t.ops[0], ast.Gt) and c == 1:
                return BAD_FALSE
        return None

    def m_in_disable(node, ex, atoms):
        t = node.ast
        if isinstance(t, ast.Call) and call_name(t) == "is_relative" and isinstance(t.func, ast.Attribute) and not is_operand(t.func.value, node.id):
            return BAD_FALSE
        return None

    def m_type(node, ex, atoms):
        t = node.ast
        if isinstance(t, ast.Call) and call_name(t) == "is_comparable":
            return BAD_FALSE
        return None

    def _csv_rel(node):
        """relation symbol of `<input sequence> ? <operand>` read from a comparison in either orientation, or None"""
        def is_seq(e):
            o = origins(fn, node.id, e)
            return "attrname:sequence" in o and "call:decode_num" not in o
        t = node.ast
        if isinstance(t, ast.Compare) and len(t.ops) == 1 and any(isinstance(x, ast.Constant) for x in (t.left, t.comparators[0])):
            return None
        return rl.rel(t, is_seq, lambda e: is_operand(e, node.id))

    def m_lt(node, ex, atoms):
        r = _csv_rel(node)
        if r == "<":
            return BAD_TRUE
        if r == ">=":
            return BAD_FALSE
        return None
    wrong_rel = [(n, _csv_rel(n)) for n in cfg.tests() if _csv_rel(n) in ("<=", ">", "==", "!=")]
    if wrong_rel:
        n0, r0 = wrong_rel[0]
        out.append(ctx.bad(spec, "`%s` relates the input sequence and the operand by `%s`; BIP112 fails exactly when the input's sequence < operand" % (ast.unparse(n0.ast), r0),
                           n0.ast, mod, key="csv-compare-relation"))
    g(m_empty, "empty stack fails", "csv-empty")
    g(m_neg, "negative operand fails", "csv-negative")
    g(m_version, "transaction version < 2 fails", "csv-version")
    g(m_in_disable, "input sequence with the disable flag fails", "csv-input-disable")
    g(m_type, "blocks/time type mismatch fails", "csv-type")
    g(m_lt, "operand greater than the input sequence fails", "csv-compare")
    return out


def c07_11(ctx):
    out = []
    exp = {"BLOCK_LIMIT": 500000000, "SEQUENCE_DISABLE_RELATIVE_FLAG": 1 << 31, "SEQUENCE_RELATIVE_TIME_FLAG": 1 << 22, "SEQUENCE_MASK": 0xFFFF,
           "MAX_LOCKTIME": 0xFFFFFFFF, "MAX_SEQUENCE": 0xFFFFFFFF}
    for k, v in exp.items():
        out.append(rl.const_eq(ctx, "timelock", k, v, "BIP65/BIP68/BIP112 " + k))
    # Locktime.is_comparable thresholds: both < LIMIT or both >= LIMIT
    mod, fn = rl.get(ctx, "timelock:Locktime.is_comparable")
    f = Folder(ctx.repo, mod.name)
    cmps = [c for c in ast.walk(fn) if isinstance(c, ast.Compare) and len(c.ops) == 1 and f.fold(c.comparators[0]) == 500000000]
    ops = sorted(type(c.ops[0]).__name__ for c in cmps)
    if ops == ["GtE", "GtE", "Lt", "Lt"]:
        out.append(ctx.ok("timelock:Locktime.is_comparable", "both below 500000000 or both at/above it", fn, mod, key="locktime-comparable"))
    else:
        out.append(ctx.bad("timelock:Locktime.is_comparable", "threshold tests %s, expected two `<` and two `>=` against BLOCK_LIMIT" % ops, fn, mod, key="locktime-comparable"))
    # Sequence predicates use the documented flags
    for spec, flag in (("timelock:Sequence.is_relative", "SEQUENCE_DISABLE_RELATIVE_FLAG"), ("timelock:Sequence.is_relative_time", "SEQUENCE_RELATIVE_TIME_FLAG")):
        mod, fn = rl.get(ctx, spec)
        names = {n.id for n in ast.walk(fn) if isinstance(n, ast.Name)}
        if flag in names:
            out.append(ctx.ok(spec, "tests %s" % flag, fn, mod, key="flag:" + flag))
        else:
            out.append(ctx.bad(spec, "does not test %s" % flag, fn, mod, key="flag:" + flag))
    return out


def c07_12(ctx):
    out = []
    for spec in ("op:number_to_op_code", "op:number_to_op_code_byte"):
        mod, fn = rl.get(ctx, spec)
        p = param_names(fn)[0]
        out += rl.accept_set(ctx, spec, [p], ISet.range(-1, 16), targets="returns", prefer=(17, -2))
    # encode_minimal_num: the small-number arm covers exactly [-1, 16]
    mod, fn = rl.get(ctx, "op:encode_minimal_num")
    from sa.ranges import Ranges
    p = param_names(fn)[0]
    ra = Ranges(ctx.repo, mod, fn, {p: ISet.top()})
    small = ISet.empty()
    for n in cfg_of(fn).returns():
        if n.ast is not None and isinstance(n.ast.value, ast.Call) and call_name(n.ast.value) == "number_to_op_code":
            small = small.union(ra.at(n.id, p))
    if small == ISet.range(-1, 16):
        out.append(ctx.ok("op:encode_minimal_num", "numbers [-1,16] use the small-number opcodes, all others a minimal push", fn, mod, key="minimal"))
    else:
        out.append(ctx.bad("op:encode_minimal_num", "small-number opcodes are used for %s, expected [-1, 16]" % small, fn, mod, key="minimal"))
    # inverse: op_code_to_number(number_to_op_code(n)) == n on [-1,16] -- by the affine forms n+80 / code-80 and the 0 special case
    mod, fn = rl.get(ctx, "op:number_to_op_code")
    mod2, fn2 = rl.get(ctx, "op:op_code_to_number")
    f = Folder(ctx.repo, mod.name)
    adds = [f.fold(b.right) for b in ast.walk(fn) if isinstance(b, ast.BinOp) and isinstance(b.op, ast.Add)]
    subs = [f.fold(b.right) for b in ast.walk(fn2) if isinstance(b, ast.BinOp) and isinstance(b.op, ast.Sub)]
    if adds == [80] and subs == [80]:
        out.append(ctx.ok("op:number_to_op_code↔op_code_to_number", "n ↦ n+80 and code ↦ code-80 (0 ↦ 0) are inverse", fn, mod, key="inverse"))
    else:
        out.append(ctx.bad("op:number_to_op_code↔op_code_to_number", "offsets %s / %s are not inverse (expected +80 / -80)" % (adds, subs), fn, mod, key="inverse"))
    return out


_C07_13_MEMO = {}


def _cond_reference(tokens):
    """consensus structure of the tokens following an OP_IF / OP_NOTIF: (then part, else part, rest) or None when the
    conditional is not closed; nested conditionals stay inside the part they occur in"""
    depth, part, then, other = 1, 0, [], []
    for i, t in enumerate(tokens):
        if t in (99, 100):
            depth += 1
        elif t == 104:
            depth -= 1
            if depth == 0:
                return then, other, list(tokens[i + 1:])
        elif t == 103 and depth == 1:
            if part == 1:
                return "multi-else"
            part = 1
            continue
        (then if part == 0 else other).append(t)
    return None


def c07_13(ctx):
    """op_if / op_notif split the following items exactly as consensus nests conditionals: bounded cell evaluation over
    every sequence of up to 5 tokens from {IF, NOTIF, ELSE, ENDIF, other} and a zero / non-zero top element"""
    import itertools

    from sa.cells import Evaluator, Raised, Undecided
    out = []
    m, node, table = table_names(ctx.repo, "op", "OP_CODE_FUNCTIONS")
    # the verdict depends only on the source of the two handlers and of what they call: remembered per process under a digest of
    # the whole op module (the self-test evaluates hundreds of variants, most of which leave op.py untouched)
    import hashlib
    closure, todo = set(), [table.get(99), table.get(100)]
    while todo:
        nm = todo.pop()
        if nm in closure or nm not in m.functions:
            continue
        closure.add(nm)
        todo += [c.func.id for c in ast.walk(m.functions[nm]) if isinstance(c, ast.Call) and isinstance(c.func, ast.Name)]
    digest = hashlib.sha256("".join(ast.dump(m.functions[nm]) for nm in sorted(closure)).encode()).hexdigest()
    if digest in _C07_13_MEMO:
        res = []
        for kind, spec, msg, key, hname in _C07_13_MEMO[digest]:
            fn = m.functions.get(hname)
            ctx.note_fn(m, fn) if fn is not None else None
            res.append(ctx.ok(spec, msg, fn, m, key=key) if kind == "ok" else (ctx.bad(spec, msg, fn, m, key=key) if kind == "bad" else ctx.err(spec, msg, fn, m)))
        return res
    record = []
    other = next(v for v in (0x51, 0x61, 0x75) if v not in (99, 100, 103, 104))
    seqs = [list(t) for n in range(0, 6) for t in itertools.product((99, 100, 103, 104, other), repeat=n)]
    for code, label in ((99, "OP_IF"), (100, "OP_NOTIF")):
        hname = table.get(code)
        if hname not in m.functions:
            raise AnalysisError("%s handler missing" % label)
        fn = m.functions[hname]
        spec = "op:" + hname
        bad = None
        n = 0
        for toks in seqs:
            ref = _cond_reference(toks)
            if ref == "multi-else":
                continue  # more than one OP_ELSE per conditional is outside "properly nested"
            for top, nonzero in ((b"", False), (b"\x01", True), (b"\x80", False)):
                stack, items = [top], list(toks)
                n += 1
                try:
                    r = Evaluator(ctx.repo).call(spec, [stack, items])
                except Undecided as u:
                    bad = ("err", "%s not evaluable: %s" % (hname, u))
                    break
                except Raised as x:
                    bad = ("bad", "raises %s on items %s" % (x.name, _tok_txt(toks)))
                    break
                if ref is None:
                    if r is not False:
                        bad = ("bad", "accepts the unterminated conditional %s" % _tok_txt(toks))
                        break
                    continue
                then, els, rest = ref
                runs_then = nonzero if code == 99 else not nonzero
                want = (then if runs_then else els) + rest
                if r is not True or items != want or stack:
                    bad = ("bad", "%s with a %s top element on items %s leaves %s to execute (result %r); consensus executes %s" % (
                        label, "non-zero" if nonzero else "zero", _tok_txt(toks), _tok_txt(items), r, _tok_txt(want)))
                    break
            if bad:
                break
        ctx.count("cells", n)
        ctx.note_fn(m, fn)
        if bad and bad[0] == "err":
            out.append(ctx.err(spec, bad[1], fn, m))
            record.append(("err", spec, bad[1], None, hname))
        elif bad:
            out.append(ctx.bad(spec, bad[1], fn, m, key="nesting:" + label))
            record.append(("bad", spec, bad[1], "nesting:" + label, hname))
        else:
            msg = "%s: %d (token sequence, top element) cells up to length 5 are split as consensus nests conditionals" % (label, n)
            out.append(ctx.ok(spec, msg, fn, m, key="nesting:" + label))
            record.append(("ok", spec, msg, "nesting:" + label, hname))
    _C07_13_MEMO[digest] = record
    return out


def c07_15(ctx):
    """ALIAS: the main stack and the alt stack are two lists (and no other pair of interpreter containers is one object)"""
    from sa.alias import alias_obligation
    return alias_obligation(ctx, ["script", "op"], "TOALTSTACK / FROMALTSTACK move nothing, `1 TOALTSTACK` leaves a true element on the main stack")


def c07_14(ctx):
    """Sequence.__lt__ (the relation OP_CHECKSEQUENCEVERIFY uses): two comparable relative locks are compared on the low
    16 bits only (BIP68 / BIP112: the other bits carry no lock value)"""
    spec = "timelock:Sequence.__lt__"
    mod, fn = rl.get(ctx, spec)
    ps = param_names(fn)
    me, other = ps[0], ps[1]
    f = Folder(ctx.repo, mod.name)
    cfg = cfg_of(fn)

    def masked(name):
        def pred(e):
            if isinstance(e, ast.BinOp) and isinstance(e.op, ast.BitAnd):
                for a, b in ((e.left, e.right), (e.right, e.left)):
                    if isinstance(a, ast.Name) and a.id == name and f.fold(b) == 0xFFFF:
                        return True
            return False
        return pred

    def plain(name):
        def pred(e):
            t = ast.unparse(e)
            return t in (name, "int(%s)" % name)
        return pred
    out = []
    seen = 0
    for n in cfg.returns():
        if n.ast is None or n.ast.value is None:
            continue
        # the plain-int arm (`type(other) is int`) is outside the clause: only exits reached with is_comparable() true count
        reached_by = [t for t in cfg.tests() if "is_comparable" in ast.unparse(t.ast)]
        if not reached_by:
            raise AnalysisError("Sequence.__lt__: is_comparable test not found")
        if not any(n.id in reach_ps(cfg, [b for b, l in cfg.succ[t.id] if l is True])[0] for t in reached_by):
            continue
        seen += 1
        v = expand(fn, n.id, n.ast.value)
        r = rl.rel(v, masked(me), masked(other))
        if r == "<":
            out.append(ctx.ok(spec, "comparable sequences are compared as `%s` (low 16 bits)" % ast.unparse(v), n.ast, mod, key="csv-mask"))
            continue
        txt = ast.unparse(v)
        unmasked = rl.rel(v, plain(me), plain(other)) == "<" or (isinstance(v, ast.Call) and isinstance(v.func, ast.Attribute) and v.func.attr == "__lt__"
                                                                and ast.unparse(v.func.value) in ("super()", "int") and ast.unparse(v.args[-1]) == other)
        half = rl.rel(v, masked(me), plain(other)) == "<" or rl.rel(v, plain(me), masked(other)) == "<"
        if unmasked or half:
            out.append(ctx.bad(spec, "comparable sequences are compared as `%s`: bits 16-31 (which BIP68/BIP112 ignore) take part, so nSequence = 5|(1<<20) "
                               "satisfies an operand of 10 and nSequence = 20 fails an operand of 10|(1<<16)" % txt, n.ast, mod, key="csv-mask"))
        elif r is not None:
            out.append(ctx.bad(spec, "comparable sequences are related by `%s` (%s), expected `<` on the masked values" % (txt, r), n.ast, mod, key="csv-mask"))
        else:
            out.append(ctx.err(spec, "comparison of comparable sequences `%s` not recognised" % txt, n.ast, mod))
    if not seen:
        raise AnalysisError("Sequence.__lt__: no exit under is_comparable() found")
    return out


def _tok_txt(toks):
    nm = {99: "IF", 100: "NOTIF", 103: "ELSE", 104: "ENDIF"}
    return "[" + " ".join(nm.get(t, "op") if isinstance(t, int) else repr(t) for t in toks) + "]"


def c07_16(ctx):
    """MEMO: no method of the modules this property is anchored in answers from a value remembered from an earlier argument or an
    earlier state of the object (confirmed caches of the reference tree: sa/memo.py CONFIRMED_CACHES)"""
    from sa.memo import cache_obligation
    return cache_obligation(ctx, ["script", "op", "timelock"], "a verdict or decoded script remembered from one evaluation would be returned for another script or stack")


def c07_17(ctx):
    """SET-ORDER: no ordered result (list, serialisation, yielded sequence) of the modules this property is anchored in takes its
    order from the iteration order of a set"""
    from sa.setorder import setorder_obligation
    return setorder_obligation(ctx, ["script", "op", "timelock"], "the same inputs give different output from run to run")


def c07_18(ctx):
    """SHARED necessary conditions over the modules this property is anchored in: FALSY-DEFAULT, MUTABLE-DEFAULT, IDENTITY, ALIAS,
    CTOR-FORWARD (sa/shared.py)"""
    from sa.shared import shared_obligations
    return shared_obligations(ctx, ["script", "op", "timelock"], "the result would depend on something other than the arguments and the object's current state")


def c07_19(ctx):
    """OP_PICK / OP_ROLL: the operand n selects the n-th element below it, n = 0 being the top one: PICK copies it, ROLL moves it.  Both handlers
    are evaluated for every n in -1..5 (zero in its three encodings '', 00, 80) on stacks of 0..5 elements below the operand -- bounded in the
    depth; the handlers treat every n alike"""
    from sa.cells import Evaluator, Raised, Undecided
    out = []
    m, node, table = table_names(ctx.repo, "op", "OP_CODE_FUNCTIONS")
    for code, name in ((121, "OP_PICK"), (122, "OP_ROLL")):
        hname = table.get(code)
        fn = m.functions.get(hname or "")
        if fn is None:
            out.append(ctx.err("op:OP_CODE_FUNCTIONS[%d]" % code, "%s has no handler" % name, node, m))
            continue
        spec = "op:" + hname
        bad = None
        cells = 0
        try:
            for depth in range(0, 6):
                below = [bytes([0x10 + i]) for i in range(depth)]
                for n_val, enc in [(-1, b"\x81"), (0, b""), (0, b"\x00"), (0, b"\x80"), (1, b"\x01"), (2, b"\x02"), (3, b"\x03"), (4, b"\x04"), (5, b"\x05")]:
                    cells += 1
                    st = list(below) + [enc]
                    try:
                        r = Evaluator(ctx.repo).call(spec, [st])
                    except Raised:
                        r = False
                    if n_val < 0 or n_val >= depth:
                        ok = r is False
                        want_txt = "failure"
                    else:
                        want = list(below) + [below[-n_val - 1]] if code == 121 else below[:depth - n_val - 1] + below[depth - n_val:] + [below[-n_val - 1]]
                        ok = r is True and st == want
                        want_txt = "[%s]" % " ".join(e_.hex() for e_ in want)
                    if not ok:
                        bad = "%s with n = %d (operand %s) on a stack of %d element(s) below it gives %s and leaves [%s]; consensus: %s" % (
                            name, n_val, enc.hex() or "''", depth, r, " ".join(e_.hex() for e_ in st), want_txt)
                        break
                if bad:
                    break
        except Undecided as u:
            out.append(ctx.err(spec, "%s not evaluable: %s" % (name, u), fn, m))
            continue
        ctx.count("cells", cells)
        out.append(ctx.bad(spec, bad, fn, m, key="pick-roll:" + name) if bad else
                   ctx.ok(spec, "%s selects the n-th element below the operand for every n, 0 included (%d cells)" % (name, cells), fn, m, key="pick-roll:" + name))
    return out


def c07_20(ctx):
    """the truth of a stack element has no size limit: an element of any length is false exactly when all its bytes are zero (the last may be
    0x80).  OP_VERIFY, OP_IFDUP, OP_IF and OP_NOTIF are evaluated with top elements of 0, 1, 4, 5, 20, 32 and 520 bytes in the three patterns
    {all zero, negative zero, some other byte set}: hashes and keys left on the stack are ordinary true values"""
    from sa.cells import Evaluator, Raised, Undecided
    out = []
    m, node, table = table_names(ctx.repo, "op", "OP_CODE_FUNCTIONS")
    elements = []
    for ln in (0, 1, 4, 5, 20, 32, 520):
        elements.append((bytes(ln), False))
        if ln:
            elements.append((bytes(ln - 1) + b"\x80", False))
            elements.append((bytes(ln - 1) + b"\x01", True))
            elements.append((b"\x01" + bytes(ln - 1), True))
    for code, name in ((105, "OP_VERIFY"), (115, "OP_IFDUP"), (99, "OP_IF"), (100, "OP_NOTIF")):
        hname = table.get(code)
        fn = m.functions.get(hname or "")
        if fn is None:
            out.append(ctx.err("op:OP_CODE_FUNCTIONS[%d]" % code, "%s has no handler" % name, node, m))
            continue
        spec = "op:" + hname
        bad = None
        try:
            for el, truth in elements:
                ctx.count("cells")
                st = [b"\xaa", el]
                items = [0x51, 103, 0x52, 104, 0x53]
                try:
                    r = Evaluator(ctx.repo).call(spec, [st, items] if code in (99, 100) else [st])
                except Raised as x:
                    r = "raises %s" % x.name
                if code == 105:
                    ok = (r is True and st == [b"\xaa"]) if truth else (r is False)
                elif code == 115:
                    ok = r is True and st == ([b"\xaa", el, el] if truth else [b"\xaa", el])
                else:
                    takes_then = truth if code == 99 else not truth
                    ok = r is True and st == [b"\xaa"] and items == ([0x51, 0x53] if takes_then else [0x52, 0x53])
                if not ok:
                    bad = "%s with a %d-byte top element (%s…, %s) gives %s" % (name, len(el), el.hex()[:12], "true" if truth else "false", r)
                    break
        except Undecided as u:
            out.append(ctx.err(spec, "%s not evaluable: %s" % (name, u), fn, m))
            continue
        out.append(ctx.bad(spec, bad + ": the truth of an element is decided for any length (a 32-byte hash left on the stack is a true value)", fn, m, key="truth-any-size:" + name)
                   if bad else ctx.ok(spec, "%s decides the truth of elements of every size (%d elements up to 520 bytes)" % (name, len(elements)), fn, m, key="truth-any-size:" + name))
    return out


def c07_21(ctx):
    """script number codec evaluated against the consensus definition (CScriptNum): encode_num(n) is the minimal little-endian sign-magnitude
    string for every |n| <= 260 and for 2^k - 1, 2^k, 2^k + 1 (both signs) up to 2^32, and decode_num inverts it; decode_num on every string of
    0 and 1 bytes and on 2-, 3- and 4-byte strings built from the boundary bytes {00, 01, 7f, 80, 81, fe, ff} (thorough tier: every 2-byte
    string) gives the consensus value, negative zero and non-minimal spellings included"""
    from sa.cells import Evaluator, Raised, Undecided
    import itertools
    m = ctx.repo.module("op")
    fe, fd = m.functions.get("encode_num"), m.functions.get("decode_num")
    if fe is None or fd is None:
        raise AnalysisError("encode_num / decode_num vanished")

    def ref_enc(n):
        if n == 0:
            return b""
        a, out = abs(n), bytearray()
        while a:
            out.append(a & 255)
            a >>= 8
        if out[-1] & 0x80:
            out.append(0x80 if n < 0 else 0)
        elif n < 0:
            out[-1] |= 0x80
        return bytes(out)

    def ref_dec(b):
        if not b:
            return 0
        v = int.from_bytes(b, "little")
        if b[-1] & 0x80:
            return -(v & ~(0x80 << (8 * (len(b) - 1))))
        return v
    nums = set(range(-260, 261)) | {384, 1000, -1000, 32767, 32768, -32768, 65535, 8388607, 8388608, -8388608}
    for k in range(7, 33):
        for d in (-1, 0, 1):
            nums |= {(1 << k) + d, -((1 << k) + d)}
    out = []
    try:
        bad = None
        for n in sorted(nums):
            ctx.count("cells")
            try:
                r = Evaluator(ctx.repo).call("op:encode_num", [n])
            except Raised as x:
                bad = "encode_num(%d) raises %s" % (n, x.name)
                break
            if r != ref_enc(n):
                bad = "encode_num(%d) is %s, the minimal script number is %s" % (n, r.hex() if isinstance(r, bytes) else r, ref_enc(n).hex() or "''")
                break
            try:
                back = Evaluator(ctx.repo).call("op:decode_num", [ref_enc(n)])
            except Raised as x:
                bad = "decode_num(%s) raises %s" % (ref_enc(n).hex(), x.name)
                break
            if back != n:
                bad = "decode_num(%s) is %r, the number is %d" % (ref_enc(n).hex() or "''", back, n)
                break
        out.append(ctx.bad("op:encode_num", bad, fe, m, key="num-codec:encode") if bad else
                   ctx.ok("op:encode_num", "%d integers (|n| <= 260, 2^k and neighbours up to 2^32, both signs) encode minimally and decode back" % len(nums), fe, m, key="num-codec:encode"))
        bb = [0x00, 0x01, 0x7F, 0x80, 0x81, 0xFE, 0xFF]
        quick = getattr(ctx, "tier", "quick") != "thorough"
        strings = [b""] + [bytes([i]) for i in range(256)]
        strings += [bytes(t) for t in (itertools.product(bb, repeat=2) if quick else itertools.product(range(256), repeat=2))]
        strings += [bytes(t) for t in itertools.product(bb, repeat=3)] + [bytes(t) for t in itertools.product((0x00, 0x7F, 0x80, 0xFF), repeat=4)]
        bad = None
        for b in strings:
            ctx.count("cells")
            try:
                r = Evaluator(ctx.repo).call("op:decode_num", [b])
            except Raised as x:
                bad = "decode_num(%s) raises %s" % (b.hex() or "''", x.name)
                break
            if r != ref_dec(b) or isinstance(r, bool):
                bad = "decode_num(%s) is %r, consensus reads %d" % (b.hex() or "''", r, ref_dec(b))
                break
        out.append(ctx.bad("op:decode_num", bad, fd, m, key="num-codec:decode") if bad else
                   ctx.ok("op:decode_num", "%d byte strings of 0..4 bytes decode to the consensus value (negative zero and padded spellings included)" % len(strings), fd, m,
                          key="num-codec:decode"))
    except Undecided as u:
        return [ctx.err("op:encode_num", "number codec not evaluable: %s" % u, fe, m)]
    return out



def c07_22(ctx):
    """every fixed-effect opcode evaluated as well as executed symbolically: the symbolic stack executor of C07.1-C07.3 reads a handler
    statement by statement and does not model evaluation order inside one expression (`f(stack.pop()) or f(stack.pop())` pops once when the
    first operand decides), so each handler is also run on stacks built from a small operand pool (0, 1, -1, 2, 300, negative zero, a padded 5)
    at its depth and one deeper, and the resulting stack compared with the consensus effect.  Bounded in the operand values"""
    m, node, table = table_names(ctx.repo, "op", "OP_CODE_FUNCTIONS")
    out = []
    n_ok = 0
    for code in STACK_CODES + ARITH_CODES:
        if code not in table or table[code] not in m.functions:
            continue
        fn = m.functions[table[code]]
        r = _stackfx_cells(ctx, code, table[code], fn, m, "fx-eval", small=True)
        if r is None:
            continue
        if r.status == "violation" and any(x.status == "violation" for x in _stackfx(ctx, [code], "fx")):
            continue   # the same deviation is already reported (or recorded as a known finding) by the symbolic executor under C07.1-C07.3
        if r.status == "ok":
            n_ok += 1
        else:
            out.append(r)
    if n_ok < 20 and not out:
        raise AnalysisError("fixed-effect opcodes: only %d handlers could be evaluated" % n_ok)
    out.append(ctx.ok("op:OP_CODE_FUNCTIONS", "%d fixed-effect handlers evaluated on small operand stacks agree with the consensus effect" % n_ok, node, m, key="fx-eval"))
    return out



OBLIGATIONS = [
    ("C07.22", "CELLS fixed-effect opcodes evaluated", c07_22),
    ("C07.21", "CELLS number codec", c07_21),
    ("C07.19", "CELLS pick/roll (bounded)", c07_19),
    ("C07.20", "CELLS truth of long elements", c07_20),
    ("C07.18", "SHARED", c07_18),
    ("C07.17", "SET-ORDER", c07_17),
    ("C07.16", "MEMO", c07_16),
    ("C07.1", "STACKFX", c07_1),
    ("C07.2", "STACKFX", c07_2),
    ("C07.3", "STACKFX", c07_3),
    ("C07.4", "RANGE accept-set", c07_4),
    ("C07.5", "TRUTH", c07_5),
    ("C07.6", "SIBLING polarity", c07_6),
    ("C07.7", "TABLE", c07_7),
    ("C07.8", "TABLE arity", c07_8),
    ("C07.9", "GUARD order", c07_9),
    ("C07.10", "GUARD order", c07_10),
    ("C07.11", "TABLE", c07_11),
    ("C07.12", "RANGE", c07_12),
    ("C07.13", "CELLS nesting", c07_13),
    ("C07.14", "RELATION mask", c07_14),
    ("C07.15", "ALIAS", c07_15),
]
FLOORS = {"C07.1": 40, "C07.2": 26, "C07.3": 5, "C07.4": 2, "C07.5": 7, "C07.6": 1, "C07.7": 4, "C07.8": 2, "C07.9": 7, "C07.10": 7, "C07.11": 9, "C07.12": 4, "C07.13": 2, "C07.14": 1}
