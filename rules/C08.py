"""C08 — BIP32 derivation and extended-key codec (structural clauses)."""
import ast

from sa import rl
from sa.cfg import cfg_of
from sa.dataflow import call_name, dotted, expand, origins
from sa.fold import Folder, Unknown, module_const
from sa.guard import BAD_FALSE, BAD_TRUE, Guard, loop_iteration_guard
from sa.interval import ISet
from sa.layout import WriterExec, fmt_terms
from sa.layoutcmp import diff, fmt_shape, pair, writer_shape
from sa.loader import AnalysisError, param_names
from sa.ranges import Ranges
from spec import layouts as L
from spec.constants import BIP32_SEED_KEY, HARDENED, SLIP132

EXPLANATION = (
    "Static analysis of buidl/hd.py and blinding.py: index accept-sets of public and private child derivation (hardened threshold 2^31, "
    "negatives rejected), HMAC data layout of the hardened / normal / public arms and their agreement, 78-byte extended-key layout of both "
    "classes (writer, reader, BIP32), SLIP-132 version tables, refusal of hardened components in public traversal, case/notation "
    "normalisation before the path prefix test in both traversals, depth guard of xpub blinding, master-key derivation constants. "
    "Not decided: equality of private and public derivation on values, path composition, fingerprint values."
)
NAMES = {"2^31": HARDENED}


def c08_1(ctx):
    mod, fn = rl.get(ctx, "hd:HDPublicKey.child")
    p = param_names(fn)[1]
    return rl.accept_set(ctx, "hd:HDPublicKey.child", [p], ISet.range(0, HARDENED - 1), NAMES, targets="returns", prefer=(HARDENED - 1, HARDENED, -1), exact=True)


def c08_2(ctx):
    spec = "hd:HDPrivateKey.child"
    mod, fn = rl.get(ctx, spec)
    p = param_names(fn)[1]
    cfg = cfg_of(fn)
    ra = Ranges(ctx.repo, mod, fn, {p: ISet.top()})
    if ra.uninterpreted:
        raise AnalysisError("%s: %s" % (spec, ra.uninterpreted[0][1]))
    hard = ISet.empty()
    norm_ = ISet.empty()
    for n in cfg.stmts(("stmt",)):
        a = n.ast
        if isinstance(a, ast.Assign) and ra.reachable(n.id):
            txt = ast.unparse(a.value)
            # the key material of the HMAC data: 00‖ser256(k) (33-byte big-endian secret) or serP(K) (sec of the point),
            # whether or not the 4-byte index is appended in the same statement
            is_hard = any(isinstance(c, ast.Call) and call_name(c) == "int_to_big_endian" and len(c.args) == 2 and ".secret" in ast.unparse(c.args[0])
                          and Folder(ctx.repo, mod.name).fold(c.args[1]) == 33 for c in ast.walk(a.value))
            is_norm = ".sec()" in txt and not is_hard
            if is_hard:
                hard = hard.union(ra.at(n.id, p))
            elif is_norm:
                norm_ = norm_.union(ra.at(n.id, p))
    out = []
    if hard.is_empty() and norm_.is_empty():
        raise AnalysisError("%s: neither the hardened (00‖secret) nor the normal (sec) HMAC key material was found" % spec)
    if hard == ISet.range(HARDENED, None):
        out.append(ctx.ok(spec, "hardened data (00‖k‖i) is used exactly for indexes %s" % hard.describe(NAMES), fn, mod, key="hardened-tile"))
    else:
        d = hard.minus(ISet.range(HARDENED, None)).union(ISet.range(HARDENED, None).minus(hard))
        out.append(ctx.bad(spec, "hardened derivation is used for indexes %s, BIP32: [2^31, ∞); e.g. index %s" % (hard.describe(NAMES), rl._fmt(d.witness((HARDENED, HARDENED - 1)), NAMES)), fn, mod, key="hardened-tile"))
    if norm_ == ISet.range(0, HARDENED - 1):
        out.append(ctx.ok(spec, "normal data (sec‖i) is used exactly for indexes %s" % norm_.describe(NAMES), fn, mod, key="normal-tile"))
    else:
        d = norm_.minus(ISet.range(0, HARDENED - 1)).union(ISet.range(0, HARDENED - 1).minus(norm_))
        out.append(ctx.bad(spec, "normal derivation is used for indexes %s, BIP32: [0, 2^31-1]; e.g. index %s" % (norm_.describe(NAMES), rl._fmt(d.witness((-1, HARDENED)), NAMES)), fn, mod, key="normal-tile"))
    return out


def _hmac_data(ctx, spec, assume):
    mod, fn = rl.get(ctx, spec)
    w = WriterExec(ctx.repo, mod, fn, assume=assume)
    w.run()
    env = getattr(w, "last_env", None)
    if env is None:
        raise AnalysisError("%s: no return reached in the layout executor" % spec)
    for nm, terms in env.b.items():
        if len(terms) == 1 and terms[0][0] == "hash" and terms[0][1] == "hmac_sha512":
            return mod, fn, terms[0][2]
    raise AnalysisError("%s: hmac_sha512 call not found" % spec)


def c08_3(ctx):
    out = []
    idx = "index"
    cases = [
        ("hd:HDPrivateKey.child", {"index >= 2147483648": True, "index < 0": False}, "hardened",
         ["bytes(self.chain_code)", "int33BE(self.private_key.secret)", "int4BE(index)"]),
        ("hd:HDPrivateKey.child", {"index >= 2147483648": False, "index < 0": False}, "normal",
         ["bytes(self.chain_code)", "self.private_key.point.sec", "int4BE(index)"]),
        ("hd:HDPublicKey.child", {"index >= 2147483648": False, "index < 0": False}, "public",
         ["bytes(self.chain_code)", "self.point.sec", "int4BE(index)"]),
    ]
    got = {}
    for spec, assume, label, want in cases:
        mod, fn, terms = _hmac_data(ctx, spec, assume)
        tl = [fmt_terms([t]) for t in terms]
        got[label] = tl
        if tl == want:
            out.append(ctx.ok(spec, "%s arm: HMAC-SHA512(key = chain code, data = %s)" % (label, " ‖ ".join(want[1:])), fn, mod, key="hmac:" + label))
        else:
            out.append(ctx.bad(spec, "%s arm: HMAC input is %s, BIP32 requires %s" % (label, " ‖ ".join(tl), " ‖ ".join(want)), fn, mod, key="hmac:" + label))
    # sibling agreement: normal private == public modulo the receiver of sec()
    a = [x.replace("self.private_key.point", "P").replace("self.point", "P") for x in got.get("normal", [])]
    b = [x.replace("self.private_key.point", "P").replace("self.point", "P") for x in got.get("public", [])]
    if a == b:
        out.append(ctx.ok("hd:HDPrivateKey.child↔HDPublicKey.child", "private (normal) and public derivation hash the same data", key="hmac-agree"))
    else:
        out.append(ctx.bad("hd:HDPrivateKey.child↔HDPublicKey.child", "private normal arm hashes %s, public hashes %s" % (a, b), key="hmac-agree"))
    return out


def c08_4(ctx):
    out = []
    for wspec, rspec, sp in (("hd:HDPrivateKey.raw_serialize", "hd:HDPrivateKey.raw_parse", L.XPRV), ("hd:HDPublicKey._serialize", "hd:HDPublicKey.raw_parse", L.XPUB)):
        wm, wf = rl.get(ctx, wspec)
        rm, rf = rl.get(ctx, rspec)
        ws, rs, d, wt, rt = pair(ctx.repo, wspec, rspec)
        ctx.count("layout_terms", len(ws) + len(rs))
        k = wspec.split(":")[1]
        out.append(ctx.ok(wspec, "writer %s ≡ reader" % fmt_shape(ws), wf, wm, key="wr:" + k) if d is None else
                   ctx.bad(wspec, "writer and reader disagree at %s; writer %s; reader %s" % (d, fmt_shape(ws), fmt_shape(rs)), wf, wm, key="wr:" + k))
        d2 = diff(ws, sp)
        out.append(ctx.ok(wspec, "writer equals the BIP32 layout", wf, wm, key="spec:" + k) if d2 is None else
                   ctx.bad(wspec, "writer differs from BIP32 at %s; writer %s; BIP32 %s" % (d2, fmt_shape(ws), fmt_shape(sp)), wf, wm, key="spec:" + k))
        d3 = diff(sp, rs)
        out.append(ctx.ok(rspec, "reader equals the BIP32 layout", rf, rm, key="rspec:" + k) if d3 is None else
                   ctx.bad(rspec, "reader differs from BIP32 at %s; reader %s; BIP32 %s" % (d3, fmt_shape(rs), fmt_shape(sp)), rf, rm, key="rspec:" + k))
        # reader widths sum to 78
        widths = []
        for e in rs:
            if e[0] in ("int", "bytes") and isinstance(e[1], int):
                widths.append(e[1])
            elif e[0] == "const":
                widths.append(len(e[1]))
        if sum(widths) == 78:
            out.append(ctx.ok(rspec, "fields read sum to 78 bytes %s" % widths, rf, rm, key="sum78:" + k))
        else:
            out.append(ctx.bad(rspec, "fields read sum to %d bytes %s, an extended key has 78" % (sum(widths), widths), rf, rm, key="sum78:" + k))
    # parse() enforces len == 78
    for spec in ("hd:HDPrivateKey.parse", "hd:HDPublicKey.parse"):
        def match(node, ex, atoms):
            t = node.ast
            if isinstance(t, ast.Compare) and len(t.ops) == 1 and isinstance(t.left, ast.Call) and call_name(t.left) == "len" and isinstance(t.comparators[0], ast.Constant) \
                    and t.comparators[0].value == 78:
                if isinstance(t.ops[0], ast.NotEq):
                    return BAD_TRUE
                if isinstance(t.ops[0], ast.Eq):
                    return BAD_FALSE
            return None
        g = rl.guard(ctx, spec, match, what="decoded length must be 78", key="len78")
        kind = "pub" if "Public" in spec else "prv"
        out.extend(rl.defer(ctx, [g], lambda: [r for r in c08_19(ctx) if r.key == "xkey-string:" + kind or r.status == "error"],
                            "payloads of 77, 79, 74, 4 and 156 bytes are refused and every 78-byte key is accepted: decided by the string-entry cells (C08.19); the length test is not in the place this rule looks"))
    return out


def c08_5(ctx):
    out = []
    f = lambda name: module_const(ctx.repo, "hd", name)
    tables = {"ALL_MAINNET_XPRVS": "mainnet_prv", "ALL_MAINNET_XPUBS": "mainnet_pub", "ALL_TESTNET_XPRVS": "testnet_prv", "ALL_TESTNET_XPUBS": "testnet_pub"}
    vals = {}
    m = ctx.repo.module("hd")
    for name, k in tables.items():
        v = f(name)
        if v is Unknown:
            raise AnalysisError("hd.%s not foldable" % name)
        vals[name] = set(v)
        exp = {bytes.fromhex(h) for h in SLIP132[k]}
        ctx.count("table_entries", len(exp))
        if set(v) == exp:
            out.append(ctx.ok("hd:" + name, "equals the SLIP-132 %s set" % k, m.constants[name], m, key=name))
        else:
            out.append(ctx.bad("hd:" + name, "differs from SLIP-132: extra %s missing %s" % (sorted(x.hex() for x in set(v) - exp), sorted(x.hex() for x in exp - set(v))), m.constants[name], m, key=name))
    if (vals["ALL_MAINNET_XPRVS"] | vals["ALL_MAINNET_XPUBS"]) & (vals["ALL_TESTNET_XPRVS"] | vals["ALL_TESTNET_XPUBS"]):
        out.append(ctx.bad("hd:ALL_*", "mainnet and testnet version sets overlap", key="disjoint"))
    else:
        out.append(ctx.ok("hd:ALL_*", "mainnet and testnet version sets are disjoint", key="disjoint"))
    for name, exp in (("XPRV", {"mainnet": "0488ade4", "testnet": "04358394", "signet": "04358394", "regtest": "04358394"}),
                      ("XPUB", {"mainnet": "0488b21e", "testnet": "043587cf", "signet": "043587cf", "regtest": "043587cf"})):
        v = f(name)
        expb = {k: bytes.fromhex(h) for k, h in exp.items()}
        if v == expb:
            out.append(ctx.ok("hd:" + name, "default version bytes per network equal BIP32", m.constants[name], m, key=name))
        else:
            out.append(ctx.bad("hd:" + name, "default version bytes %s differ from BIP32 %s" % ({k: x.hex() for k, x in v.items()} if isinstance(v, dict) else v, exp), m.constants[name], m, key=name))
    return out


def c08_6(ctx):
    """HDPublicKey.traverse refuses hardened components"""
    spec = "hd:HDPublicKey.traverse"
    mod, fn = rl.get(ctx, spec)
    cfg = cfg_of(fn)
    calls = [n for n, c in rl.find_calls(fn, "child")]
    if not calls:
        raise AnalysisError("HDPublicKey.traverse: child() call not found")
    tg = calls[0]
    loops = [cfg.loops[h] for h in tg.loops]
    if not loops:
        raise AnalysisError("HDPublicKey.traverse: derivation is not in a loop")
    guards = []
    for n in cfg.tests():
        t = n.ast
        txt = ast.unparse(t)
        if isinstance(t, ast.Compare) and len(t.ops) == 1 and isinstance(t.comparators[0], ast.Constant) and t.comparators[0].value == "'" and "[-1" in txt:
            guards.append(Guard(n, BAD_TRUE if isinstance(t.ops[0], ast.Eq) else BAD_FALSE))
        elif isinstance(t, ast.Call) and call_name(t) == "endswith" and t.args and isinstance(t.args[0], ast.Constant) and t.args[0].value in ("'", ("'", "h")):
            guards.append(Guard(n, BAD_TRUE))
    out = []
    if not guards:
        return [ctx.bad(spec, "no test for a hardened (') component before public derivation", fn, mod, key="hardened-refused")]
    # per iteration: child() not reachable from the body entry on the bad edge
    from sa.cfg import reach_ps
    bad_reach = False
    dom = cfg.dominators()
    for g in guards:
        # the same predicate tested again below a guard that already left on the hardened edge is not a second decision
        twin = [h for h in guards if h is not g and ast.unparse(h.node.ast) == ast.unparse(g.node.ast) and h.node.id in dom.get(g.node.id, ())
                and not (cfg.reach([b for b, l in cfg.succ[h.node.id] if l != h.pass_label]) & {tg.id})]
        if twin:
            continue
        r, p = reach_ps(cfg, [g.node.id], removed={(g.node.id, g.pass_label)}, targets=[tg.id])
        if p and not any(x[0] == loops[0].head for x in p[1:]):
            bad_reach = True
    removed = {(g.node.id, g.pass_label) for g in guards}
    starts = []
    for a, label in loops[0].body_entry:
        starts += [b for b, l in cfg.succ[a] if l == label]
    r = cfg.reach(starts, removed=removed, within=set(loops[0].body))
    if tg.id in r or bad_reach:
        out.append(ctx.bad(spec, "a component can reach child() without passing the hardened test", tg.ast, mod, key="hardened-refused"))
    else:
        out.append(ctx.ok(spec, "every component passes the hardened test (line %d) before child()" % guards[0].node.lineno, guards[0].node.ast, mod, key="hardened-refused"))
    # h-notation is normalised to ' before the loop
    it = loops[0].stmt.iter
    at = origins(fn, loops[0].test_nodes[0], it)
    if "call:replace" in at and "call:lower" in at:
        out.append(ctx.ok(spec, "components are taken from the lower-cased path with h→' normalisation", it, mod, key="h-normalised"))
    else:
        out.append(ctx.bad(spec, "components are not normalised (lower / h→') before the hardened test: `1h` would be passed to int()", it, mod, key="h-normalised"))
    return out


def c08_7(ctx):
    out = []
    for spec in ("hd:HDPrivateKey.traverse", "hd:HDPublicKey.traverse"):
        mod, fn = rl.get(ctx, spec)
        cfg = cfg_of(fn)
        tests = [n for n in cfg.tests() if isinstance(n.ast, ast.Call) and call_name(n.ast) == "startswith" and n.ast.args and isinstance(n.ast.args[0], ast.Constant)
                 and str(n.ast.args[0].value).lower().startswith("m")]
        if not tests:
            raise AnalysisError("%s: path prefix test not found" % spec)
        for n in tests:
            at = origins(fn, n.id, n.ast.func.value)
            arg = n.ast.args[0].value
            if "call:lower" in at or "call:upper" in at or (isinstance(arg, tuple)):
                out.append(ctx.ok(spec, "the prefix test is applied to the case-normalised path", n.ast, mod, key="prefix-lower"))
            else:
                out.append(ctx.bad(spec, "`%s` is applied before the path is lower-cased: `M/0` is rejected here while the sibling traversal accepts it" % ast.unparse(n.ast), n.ast, mod, key="prefix-lower"))
    return out


def _str_pipeline(e):
    """method-call chain applied to a string, innermost first: [(method, [constant args])]"""
    chain = []
    while isinstance(e, ast.Call) and isinstance(e.func, ast.Attribute):
        chain.append((e.func.attr, [a.value if isinstance(a, ast.Constant) else None for a in e.args]))
        e = e.func.value
    chain.reverse()
    return e, chain


def c08_12(ctx):
    """ORDER of the path normalisation: the hardened marker `h` is rewritten to `'` on the *lower-cased* path (or both `h` and `H`
    are rewritten), so that every notation of one path -- m/84H/0h/1' -- denotes the same key"""
    out = []
    for spec in ("hd:HDPrivateKey.traverse", "hd:HDPublicKey.traverse"):
        mod, fn = rl.get(ctx, spec)
        cfg = cfg_of(fn)
        tests = [n for n in cfg.tests() if isinstance(n.ast, ast.Call) and call_name(n.ast) == "startswith"]
        if not tests:
            raise AnalysisError("%s: path prefix test not found" % spec)
        n = tests[0]
        ex = expand(fn, n.id, n.ast.func.value, depth=8)
        base, chain = _str_pipeline(ex)
        names = [m for m, _ in chain]
        reps = [(i, a) for i, (m, a) in enumerate(chain) if m == "replace" and len(a) == 2 and a[1] == "'"]
        lows = [i for i, (m, a) in enumerate(chain) if m in ("lower", "casefold")]
        if not reps:
            out.append(ctx.err(spec, "h→' rewriting not found in the normalisation `%s`" % ast.unparse(ex)[:80], n.ast, mod))
            continue
        rewritten = {a[0] for i, a in reps}
        first_rep = min(i for i, a in reps if a[0] in ("h", "H"))
        if {"h", "H"} <= rewritten or (lows and min(lows) < first_rep and "h" in rewritten):
            out.append(ctx.ok(spec, "normalisation `%s`: h is rewritten after lower-casing (or in both cases)" % ".".join(names), n.ast, mod, key="norm-order"))
        elif "h" in rewritten and (not lows or min(lows) > first_rep):
            out.append(ctx.bad(spec, "normalisation `%s` rewrites `h` before the path is lower-cased: an upper-case `H` marker survives as `h`, so m/84H/0H is not the key of "
                                     "m/84'/0' (private traversal raises on int('84h'))" % ".".join(names), n.ast, mod, key="norm-order"))
        else:
            out.append(ctx.err(spec, "normalisation `%s` not recognised" % ".".join(names), n.ast, mod))
    return out


def c08_13(ctx):
    """raw_parse keeps the network it is given: testnet, signet and regtest share the testnet version bytes, so the default
    "testnet" may only be filled in when the caller passed no network (an explicit regtest / signet key must not come back as testnet)"""
    out = []
    for spec in ("hd:HDPrivateKey.raw_parse", "hd:HDPublicKey.raw_parse"):
        mod, fn = rl.get(ctx, spec)
        cfg = cfg_of(fn)
        net = next((p for p in param_names(fn) if p == "network"), None)
        if net is None:
            raise AnalysisError("%s: no network parameter" % spec)
        stores = [n for n in cfg.stmts(("stmt",)) if isinstance(n.ast, ast.Assign) and any(isinstance(t, ast.Name) and t.id == net for t in n.ast.targets)
                  and isinstance(n.ast.value, ast.Constant) and n.ast.value.value == "testnet"]
        if not stores:
            out.append(ctx.ok(spec, "the network argument is never replaced by the testnet default", fn, mod, key="network-kept"))
            continue

        def match(node, ex, atoms, net=net):
            t = node.ast
            if isinstance(t, ast.Compare) and len(t.ops) == 1 and isinstance(t.left, ast.Name) and t.left.id == net and isinstance(t.comparators[0], ast.Constant) \
                    and t.comparators[0].value is None:
                return BAD_FALSE if isinstance(t.ops[0], (ast.Is, ast.Eq)) else BAD_TRUE
            if isinstance(t, ast.Name) and t.id == net:
                return BAD_TRUE  # `if not network:` -> the store may only be reached when the name is falsy
            return None
        out.append(rl.guard(ctx, spec, match, targets=lambda m, f, stores=stores: stores, what="the testnet default is only filled in when no network was given",
                            key="network-kept"))
    return out


def c08_14(ctx):
    """the constructors keep the version bytes they are given: for every network and every SLIP-132 version of the right kind the
    object's priv_version / pub_version is the argument, and the network default is used only for None (cell evaluation of both
    __init__ methods over 4 networks x all SLIP-132 versions)"""
    from sa.cells import Evaluator, Obj, Raised, Undecided
    out = []
    nets = ("mainnet", "testnet", "signet", "regtest")
    for spec, kind, attr, kw in (("hd:HDPrivateKey.__init__", "prv", "priv_version", "priv_version"), ("hd:HDPublicKey.__init__", "pub", "pub_version", "pub_version")):
        mod, fn = rl.get(ctx, spec)
        clsname = spec.split(":")[1].split(".")[0]
        bad = None
        n = 0
        for net in nets:
            fam = "mainnet" if net == "mainnet" else "testnet"
            versions = [bytes.fromhex(h) for h in SLIP132["%s_%s" % (fam, kind)]]
            for v in versions + [None]:
                me = Obj("hd", clsname)
                point = Obj("pecc", "S256Point", {})
                args = {"chain_code": bytes(32), "depth": 0, "parent_fingerprint": bytes(4), "child_number": 0, "network": net, kw: v}
                if kind == "prv":
                    args["private_key"] = Obj("pecc", "PrivateKey", {"point": point})
                else:
                    args["point"] = point
                n += 1
                try:
                    Evaluator(ctx.repo).call(spec, [], self_obj=me, kwargs=args)
                except Undecided as u:
                    bad = ("err", "constructor not evaluable: %s" % u)
                    break
                except Raised as x:
                    bad = ("bad", "raises %s for network %s, %s=%s" % (x.name, net, kw, v.hex() if v else None))
                    break
                got = me.attrs.get(attr)
                if v is not None and got != v:
                    bad = ("bad", "network %s, %s=%s: the object carries %s" % (net, kw, v.hex(), got.hex() if isinstance(got, bytes) else got))
                    break
                if v is None and not isinstance(got, bytes):
                    bad = ("bad", "network %s without %s: no default version is set" % (net, kw))
                    break
            if bad:
                break
        ctx.count("cells", n)
        if bad and bad[0] == "err":
            out.append(ctx.err(spec, bad[1], fn, mod))
        elif bad:
            out.append(ctx.bad(spec, "%s: the SLIP-132 prefix given to the constructor is lost, so serialise / parse and children change prefix (zprv comes back as xprv)" % bad[1],
                               fn, mod, key="version-kept:" + kind))
        else:
            out.append(ctx.ok(spec, "every SLIP-132 %s version is kept for every network (%d cells); None gets the network default" % (kind, n), fn, mod, key="version-kept:" + kind))
    return out


def c08_15(ctx):
    """NOTATION: wherever a path component is tested for the hardened marker, both notations (`'` and `h`) are covered: either the
    text was normalised first (`replace("h", "'")` / `replace("'", "h")` among its origins) or the test names both markers"""
    out = []
    n_sites = 0
    for mn in ("hd", "blinding", "psbt_helper", "descriptor"):
        if mn not in ctx.repo.modules:
            continue
        mod = ctx.repo.module(mn)
        for qn, fn in mod.functions.items():
            cfg = cfg_of(fn)
            for n in cfg.nodes:
                if n.ast is None or isinstance(n.ast, (ast.FunctionDef, ast.ClassDef)) or n.kind == "join":
                    continue
                root = n.ast.iter if n.kind == "for" else n.ast
                for c in ast.walk(root):
                    if not (isinstance(c, ast.Call) and isinstance(c.func, ast.Attribute) and c.func.attr in ("endswith", "rstrip") and c.args):
                        continue
                    a = c.args[0]
                    marks = None
                    if isinstance(a, ast.Constant) and isinstance(a.value, str):
                        marks = set(a.value) if c.func.attr == "rstrip" else {a.value}
                    elif isinstance(a, ast.Tuple) and all(isinstance(e, ast.Constant) and isinstance(e.value, str) for e in a.elts):
                        marks = {e.value for e in a.elts}
                    if not marks or not (marks & {"h", "'", "H"}) or not marks <= {"h", "'", "H"}:
                        continue
                    if c.func.attr == "rstrip":
                        continue
                    n_sites += 1
                    oo = origins(fn, n.id, c.func.value)
                    norm = "call:replace" in oo
                    both = "'" in marks and ("h" in marks or "H" in marks)
                    spec = "%s:%s" % (mn, qn)
                    if norm or both:
                        out.append(ctx.ok(spec, "`%s`: %s" % (ast.unparse(c), "the text was normalised to one notation first" if norm else "both notations are tested"), c, mod,
                                          key="marker:%s" % qn))
                    else:
                        out.append(ctx.bad(spec, "`%s` recognises only the %s notation of a hardened step and the text was not normalised: the same path written with %s is "
                                                 "read as an unhardened index (or rejected)" % (ast.unparse(c), "/".join(sorted(marks)), "`'`" if "'" not in marks else "`h`"), c, mod,
                                           key="marker:%s" % qn))
    if not out:
        out.append(ctx.ok("hd+blinding:*", "no suffix test on a hardened marker found", key="marker"))
    return out


def c08_8(ctx):
    spec = "blinding:blind_xpub"
    mod, fn = rl.get(ctx, spec)

    def match(node, ex, atoms):
        t = node.ast
        if isinstance(t, ast.Compare) and len(t.ops) == 1 and isinstance(t.ops[0], (ast.Eq, ast.NotEq)):
            lo, ro = origins(fn, node.id, t.left), origins(fn, node.id, t.comparators[0])
            for a, b in ((lo, ro), (ro, lo)):
                if "attrname:depth" in a and "call:count" in b:
                    return BAD_TRUE if isinstance(t.ops[0], ast.NotEq) else BAD_FALSE
        return None
    tg = lambda m, f: [n for n, c in rl.find_calls(f, "traverse")]
    return [rl.guard(ctx, spec, match, targets=tg, what="xpub depth must equal the depth of the claimed path before derivation", key="depth-check")]


def c08_9(ctx):
    spec = "hd:HDPrivateKey.from_seed"
    mod, fn = rl.get(ctx, spec)
    out = []
    calls = [c for _, c in rl.find_calls(fn, "hmac_sha512")]
    f = Folder(ctx.repo, mod.name)
    if len(calls) == 1 and f.fold(calls[0].args[0]) == BIP32_SEED_KEY and isinstance(calls[0].args[1], ast.Name) and calls[0].args[1].id == param_names(fn)[1]:
        out.append(ctx.ok(spec, "I = HMAC-SHA512(key = 'Bitcoin seed', data = seed)", calls[0], mod, key="seed-hmac"))
    else:
        out.append(ctx.bad(spec, "master key HMAC is `%s`, BIP32: hmac_sha512(b'Bitcoin seed', seed)" % [ast.unparse(c) for c in calls], fn, mod, key="seed-hmac"))
    cfg = cfg_of(fn)
    for n in cfg.returns():
        v = n.ast.value
        if isinstance(v, ast.Call):
            kw = {k.arg: k.value for k in v.keywords}
            pk = ast.unparse(expand(fn, n.id, kw.get("private_key"))) if kw.get("private_key") is not None else ""
            cc = ast.unparse(expand(fn, n.id, kw.get("chain_code"), stop=("h",))) if kw.get("chain_code") is not None else ""
            pk2 = ast.unparse(expand(fn, n.id, kw.get("private_key"), stop=("h",))) if kw.get("private_key") is not None else ""
            if "big_endian_to_int(h[:32])" in pk2 and cc == "h[32:]":
                out.append(ctx.ok(spec, "master secret = I[:32] (big endian), chain code = I[32:]", v, mod, key="seed-split"))
            else:
                out.append(ctx.bad(spec, "master key split is key=`%s` chain=`%s`, BIP32: I[:32] / I[32:]" % (pk2, cc), v, mod, key="seed-split"))
    return out


def c08_10(ctx):
    """child(): bookkeeping of depth, parent fingerprint, child number, chain code and key material"""
    out = []
    for spec, keyarg in (("hd:HDPrivateKey.child", "private_key"), ("hd:HDPublicKey.child", "point")):
        mod, fn = rl.get(ctx, spec)
        cfg = cfg_of(fn)
        idx = param_names(fn)[1]
        for n in cfg.returns():
            v = n.ast.value
            if not isinstance(v, ast.Call):
                continue
            kw = {k.arg: k.value for k in v.keywords}
            ex = lambda name: ast.unparse(expand(fn, n.id, kw[name], stop=("h", idx))) if name in kw else None
            probs = []
            if ex("depth") not in ("self.depth + 1", "1 + self.depth"):
                probs.append("depth=%s (expected self.depth + 1)" % ex("depth"))
            if ex("parent_fingerprint") != "self.fingerprint()":
                probs.append("parent_fingerprint=%s (expected self.fingerprint())" % ex("parent_fingerprint"))
            if ex("child_number") != idx:
                probs.append("child_number=%s (expected %s)" % (ex("child_number"), idx))
            if ex("chain_code") != "h[32:]":
                probs.append("chain_code=%s (expected I[32:])" % ex("chain_code"))
            km = ex(keyarg) or ""
            if "h[:32]" not in km:
                probs.append("%s=%s does not use I[:32]" % (keyarg, km))
            if keyarg == "private_key" and not ("% N" in km and "self.private_key.secret" in km and "+" in km):
                probs.append("child secret `%s` is not (parse256(I_L) + k_par) mod n" % km)
            if keyarg == "point" and not ("self.point +" in km or "+ self.point" in km):
                probs.append("child point `%s` is not point(I_L) + K_par" % km)
            if probs:
                out.append(ctx.bad(spec, "; ".join(probs), v, mod, key="child-fields"))
            else:
                out.append(ctx.ok(spec, "depth+1, parent fingerprint, child number, chain code I[32:], key from I[:32]", v, mod, key="child-fields"))
            # network and SLIP132 version bytes are inherited: every such constructor parameter receives the parent's value
            cname = call_name(v)
            init = mod.functions.get("%s.__init__" % cname)
            if init is None:
                out.append(ctx.err(spec, "constructor %s.__init__ not found" % cname, v, mod))
                continue
            inherit = [p for p in param_names(init)[1:] if p in ("network", "priv_version", "pub_version")]
            lost = []
            for p in inherit:
                got = ex(p)
                if got is None or not (got.startswith("self.") and got.endswith("." + p)):
                    lost.append("%s=%s" % (p, got))
            if lost:
                out.append(ctx.bad(spec, "the child does not inherit %s from its parent (constructor defaults apply): a zpub/vpub key derives children that serialise "
                                         "as xpub/tpub, so priv.child(i).xpub() != priv.pub.child(i).xpub()" % ", ".join(lost), v, mod, key="child-inherits"))
            else:
                out.append(ctx.ok(spec, "network and version bytes (%s) are inherited from the parent" % ", ".join(inherit), v, mod, key="child-inherits"))
    return out


def c08_11(ctx):
    """no derivation result is remembered under a key that leaves out the index / path / parent"""
    from sa.memo import cache_obligation
    return cache_obligation(ctx, ["hd", "blinding", "helper", "pecc"], "a child derived once would be returned for another index or path")


def c08_16(ctx):
    """SET-ORDER: no ordered result (list, serialisation, yielded sequence) of the modules this property is anchored in takes its
    order from the iteration order of a set"""
    from sa.setorder import setorder_obligation
    return setorder_obligation(ctx, ["hd", "blinding", "helper", "pecc"], "the same inputs give different output from run to run")


def c08_17(ctx):
    """SHARED necessary conditions over the modules this property is anchored in: FALSY-DEFAULT, MUTABLE-DEFAULT, IDENTITY, ALIAS,
    CTOR-FORWARD (sa/shared.py)"""
    from sa.shared import shared_obligations
    return shared_obligations(ctx, ["hd", "blinding", "helper", "pecc"], "the result would depend on something other than the arguments and the object's current state")


def c08_18(ctx):
    """every extended key the library can serialise parses back to the same fields: HDPublicKey.raw_parse and HDPrivateKey.raw_parse are
    evaluated on the 78 bytes of every combination of SLIP-132 version x depth {0, 1, 5, 255} x parent fingerprint {zero, non-zero} x child
    number {0, 1, 2^31-1, 2^31, 2^32-1} (the parsers look at these fields only through comparisons with constants; key material parsing is
    a stand-in).  Nothing of it may be refused, and depth, fingerprint, child number, chain code and version must come back exactly"""
    from sa.cells import ClassRef, Evaluator, FileStandIn, Obj, Raised, Undecided
    out = []
    chain = bytes(range(32))
    for clsname, kind in (("HDPublicKey", "pub"), ("HDPrivateKey", "prv")):
        spec = "hd:%s.raw_parse" % clsname
        mod, fn = rl.get(ctx, spec)
        versions = [(fam, bytes.fromhex(h)) for fam in ("mainnet", "testnet") for h in SLIP132["%s_%s" % (fam, kind)]]
        bad = None
        n = 0

        def init(o, **kw):
            o.attrs.update(kw)
        hooks = {(clsname, "__init__"): init, ("S256Point", "parse"): lambda cls, b, *a, **k: Obj("pecc", "S256Point", {"sec": b}),
                 ("PrivateKey", "__init__"): lambda o, secret=None, *a, **k: o.attrs.update({"secret": secret, "point": Obj("pecc", "S256Point", {})})}
        for fam, ver in versions:
            for depth in (0, 1, 5, 255):
                for fp in (bytes(4), b"\xab\xcd\x01\x02"):
                    for child in (0, 1, 2 ** 31 - 1, 2 ** 31, 2 ** 32 - 1):
                        n += 1
                        key = (b"\x02" + b"\x11" * 32) if kind == "pub" else (b"\x00" + b"\x22" * 32)
                        raw = ver + bytes([depth]) + fp + child.to_bytes(4, "big") + chain + key
                        try:
                            r = Evaluator(ctx.repo, method_hooks=hooks).call(spec, [FileStandIn(raw)], self_obj=ClassRef("hd", clsname))
                        except Raised as x:
                            bad = ("bad", "a serialised %s with version %s, depth %d, parent fingerprint %s, child number %d is refused (%s): it does not survive serialise / parse" % (
                                clsname, ver.hex(), depth, fp.hex(), child, x.name))
                            break
                        except Undecided as u:
                            bad = ("err", "parser not evaluable: %s" % u)
                            break
                        got = r.attrs if isinstance(r, Obj) else {}
                        want = {"depth": depth, "parent_fingerprint": fp, "child_number": child, "chain_code": chain}
                        diff = [k for k, v in want.items() if got.get(k) != v]
                        vkey = "pub_version" if kind == "pub" else "priv_version"
                        if got.get(vkey) != ver:
                            diff.append(vkey)
                        if diff:
                            bad = ("bad", "version %s, depth %d, parent fingerprint %s, child number %d parses with a different %s (%r)" % (
                                ver.hex(), depth, fp.hex(), child, diff[0], got.get(diff[0])))
                            break
                    if bad:
                        break
                if bad:
                    break
            if bad:
                break
        ctx.count("cells", n)
        if bad is None:
            out.append(ctx.ok(spec, "all %d (version, depth, fingerprint, child number) cells parse back to the fields that were serialised" % n, fn, mod, key="xkey-fields:" + kind))
        elif bad[0] == "err":
            out.append(ctx.err(spec, bad[1], fn, mod))
        else:
            out.append(ctx.bad(spec, bad[1], fn, mod, key="xkey-fields:" + kind))
    return out


def c08_19(ctx):
    if not hasattr(ctx, "_c08_19"):
        ctx._c08_19 = _c08_19(ctx)
    return ctx._c08_19


def _c08_19(ctx):
    """the string entry points: HDPrivateKey.parse / HDPublicKey.parse evaluated on the Base58Check string of a 78-byte key for every one of
    the SLIP-132 versions (xprv … Vprv, xpub … Vpub): whatever the entry point does before handing the bytes to raw_parse (decoding, length
    test, any pre-check on the text) must let every prefix the library itself writes through, with the version kept"""
    import hashlib
    from sa.cells import ClassRef, Evaluator, Obj, Raised, Undecided
    ALPHA = "123456789ABCDEFGHJKLMNPQRSTUVWXYZabcdefghijkmnopqrstuvwxyz"

    def b58check(raw):
        raw += hashlib.sha256(hashlib.sha256(raw).digest()).digest()[:4]
        n, out = int.from_bytes(raw, "big"), ""
        while n:
            n, r = divmod(n, 58)
            out = ALPHA[r] + out
        return "1" * (len(raw) - len(raw.lstrip(b"\x00"))) + out
    out = []
    chain = bytes(range(32))
    for clsname, kind in (("HDPublicKey", "pub"), ("HDPrivateKey", "prv")):
        spec = "hd:%s.parse" % clsname
        mod, fn = rl.get(ctx, spec)

        def init(o, **kw):
            o.attrs.update(kw)
        hooks = {(clsname, "__init__"): init, ("S256Point", "parse"): lambda cls, b, *a, **k: Obj("pecc", "S256Point", {"sec_": b}),
                 ("PrivateKey", "__init__"): lambda o, secret=None, *a, **k: o.attrs.update({"secret": secret, "point": Obj("pecc", "S256Point", {})})}
        hooks2 = dict(hooks)
        hooks2[("S256Point", "sec")] = lambda o, *a, **k: o.attrs["sec_"]
        hooks2[("PrivateKey", "wif")] = lambda o, *a, **k: "wif"
        bad, n = None, 0
        for fam in ("mainnet", "testnet"):
            for h in SLIP132["%s_%s" % (fam, kind)]:
                ver = bytes.fromhex(h)
                for depth, child in ((0, 0), (4, 2 ** 31 + 2)):
                    n += 1
                    key = (b"\x02" + b"\x11" * 32) if kind == "pub" else (b"\x00" + b"\x22" * 32)
                    text = b58check(ver + bytes([depth]) + b"\xab\xcd\x01\x02" + child.to_bytes(4, "big") + chain + key)
                    try:
                        r = Evaluator(ctx.repo, method_hooks=hooks, max_steps=600000).call(spec, [text], self_obj=ClassRef("hd", clsname))
                    except Raised as x:
                        bad = ("bad", "the extended key %s… (version %s, which the library writes) is refused by %s.parse (%s): it does not survive serialise / parse" % (
                            text[:4], h, clsname, x.name))
                        break
                    except Undecided as u:
                        bad = ("err", "string entry point not evaluable: %s" % u)
                        break
                    got = r.attrs if isinstance(r, Obj) else {}
                    if got.get("pub_version" if kind == "pub" else "priv_version") != ver or got.get("depth") != depth or got.get("child_number") != child:
                        bad = ("bad", "the extended key %s… (version %s) parses to different fields" % (text[:4], h))
                        break
                    # and back: the parsed key re-encodes to the string it was decoded from (no argument: the key's own version)
                    try:
                        back = Evaluator(ctx.repo, method_hooks=hooks2, max_steps=600000).call("hd:%s.%s" % (clsname, "xpub" if kind == "pub" else "xprv"), [], self_obj=r)
                    except Raised as x:
                        bad = ("bad", "re-encoding the parsed key %s… raises %s" % (text[:4], x.name))
                        break
                    except Undecided as u:
                        bad = ("err", "re-encoding not evaluable: %s" % u)
                        break
                    if back != text:
                        bad = ("bad", "the extended key %s… (version %s) parsed and re-encoded without a version argument comes back as %s…: decoding does not invert encoding for "
                                      "this prefix" % (text[:4], h, back[:4] if isinstance(back, str) else back))
                        break
                if bad:
                    break
            if bad:
                break
        if bad is None:
            # a Base58Check string whose payload is not 78 bytes (one byte short, one byte long, a 74-byte half key, the bare version) is refused
            ver = bytes.fromhex(sorted(SLIP132["mainnet_%s" % kind])[0])
            body = ver + b"\x00" + b"\xab\xcd\x01\x02" + bytes(4) + chain + ((b"\x02" + b"\x11" * 32) if kind == "pub" else (b"\x00" + b"\x22" * 32))
            for wrong in (body[:-1], body + b"\x00", body[:74], ver, body + body):
                n += 1
                try:
                    Evaluator(ctx.repo, method_hooks=hooks, max_steps=600000).call(spec, [b58check(wrong)], self_obj=ClassRef("hd", clsname))
                    bad = ("bad", "a Base58Check string carrying %d bytes is accepted by %s.parse: an extended key is exactly 78 bytes" % (len(wrong), clsname))
                    break
                except Raised:
                    pass
                except Undecided as u:
                    bad = ("err", "string entry point not evaluable on a %d-byte payload: %s" % (len(wrong), u))
                    break
        ctx.count("cells", n)
        if bad is None:
            out.append(ctx.ok(spec, "all %d strings (every SLIP-132 %s prefix × 2 depths) are accepted with their version kept; payloads of 77, 79, 74, 4 and 156 bytes are refused" % (n, kind), fn, mod, key="xkey-string:" + kind))
        elif bad[0] == "err":
            out.append(ctx.err(spec, bad[1], fn, mod))
        else:
            out.append(ctx.bad(spec, bad[1], fn, mod, key="xkey-string:" + kind))
    return out



def c08_20(ctx):
    """blind_xpub evaluated over starting paths (depth 0, 2, 4; ' and h notation) × secret paths (empty `m`, one step, several steps, upper
    case, the largest unhardened index): the key returned is the starting key's descendant along exactly the secret path's indexes and the
    path returned is the starting path followed by the secret path.  Key parsing, child derivation and serialisation are recording stand-ins
    (their own clauses decide them); path handling is the repository's code"""
    from sa.cells import Evaluator, Obj, Raised, Undecided
    spec = "blinding:blind_xpub"
    mod, fn = rl.get(ctx, spec)

    def comps(path):
        out = []
        for c in path.lower().strip().split("/")[1:]:
            hard = c[-1:] in ("'", "h")
            out.append(int(c[:-1] if hard else c) + (2 ** 31 if hard else 0))
        return out

    def child(o, index):
        if not isinstance(index, int) or index < 0 or index >= 2 ** 31:
            raise Raised("ValueError")
        return Obj("hd", "HDPublicKey", {"depth": o.attrs["depth"] + 1, "trail": o.attrs["trail"] + (index,)})
    starts = ["m", "m/45'/0", "m/48h/0h/0h/2h"]
    secrets = ["m", "m/5", "m/1/2/3", "M/7/8", "m/2147483647/0", "m/0/0/0/0/0/0/0/0"]
    bad, n = None, 0
    for st in starts:
        for sec in secrets:
            n += 1
            depth = st.count("/")
            hooks = {("HDPublicKey", "parse"): lambda cls, s_, *a, **k: Obj("hd", "HDPublicKey", {"depth": depth, "trail": ()}),
                     ("HDPublicKey", "child"): child, ("HDPublicKey", "xpub"): lambda o, *a, **k: "key@" + "/".join(str(i) for i in o.attrs["trail"])}
            try:
                r = Evaluator(ctx.repo, method_hooks=hooks).call(spec, ["xpub-standin", st, sec])
            except Raised as x:
                bad = ("bad", "starting path %r, secret path %r: raises %s instead of returning the key at the combined path" % (st, sec, x.name))
                break
            except Undecided as u:
                bad = ("err", "blind_xpub not evaluable: %s" % u)
                break
            want_key = "key@" + "/".join(str(i) for i in comps(sec))
            if not isinstance(r, dict) or r.get("blinded_child_xpub") != want_key:
                bad = ("bad", "starting path %r, secret path %r: the key returned is derived along %s, not along the secret path" % (
                    st, sec, r.get("blinded_child_xpub") if isinstance(r, dict) else r))
                break
            full = r.get("blinded_full_path")
            try:
                got_path = comps(full) if isinstance(full, str) and full.lower().startswith("m") else None
            except ValueError:
                got_path = None
            if got_path != comps(st) + comps(sec):
                bad = ("bad", "starting path %r, secret path %r: the combined path returned is %r" % (st, sec, full))
                break
        if bad:
            break
    ctx.count("cells", n)
    if bad is None:
        return [ctx.ok(spec, "%d (starting path, secret path) cells: key at exactly the secret path below the starting key, combined path = starting path ‖ secret path" % n,
                       fn, mod, key="blind-cells")]
    return [ctx.err(spec, bad[1], fn, mod) if bad[0] == "err" else ctx.bad(spec, bad[1], fn, mod, key="blind-cells")]



def c08_21(ctx):
    """master key from seed, evaluated with the standard library's HMAC-SHA512: for seeds of 16, 32 and 64 bytes whose first / last bytes are
    zero, ASCII white space (0x09-0x0d, 0x20), 0xff or ordinary, for one seed of every other byte length from 17 to 63, and for every network, the master secret is the left half and the chain code
    the right half of HMAC-SHA512("Bitcoin seed", seed) over ALL the seed bytes; depth, parent fingerprint and child number are zero and the
    network / version arguments are passed on"""
    import hashlib
    import hmac
    from sa.cells import ClassRef, Evaluator, Obj, Raised, Undecided
    spec = "hd:HDPrivateKey.from_seed"
    mod, fn = rl.get(ctx, spec)
    got = {}

    def hd_init(o, private_key=None, chain_code=None, depth=0, parent_fingerprint=b"\x00\x00\x00\x00", child_number=0, network="mainnet", priv_version=None, pub_version=None, *a, **k):
        got.update({"secret": private_key.attrs.get("secret") if isinstance(private_key, Obj) else private_key, "chain_code": chain_code, "depth": depth,
                    "parent_fingerprint": parent_fingerprint, "child_number": child_number, "network": network, "priv_version": priv_version, "pub_version": pub_version})
    hooks = {("HDPrivateKey", "__init__"): hd_init, ("PrivateKey", "__init__"): lambda o, secret=None, *a, **k: o.attrs.update({"secret": secret})}
    seeds = []
    for length in (16, 32, 64):
        body = bytes((i * 29 + 5) & 255 or 1 for i in range(length - 2))
        for first in (0x00, 0x20, 0x41, 0xFF):
            for last in (0x00, 0x09, 0x0A, 0x0D, 0x20, 0x41, 0xFF):
                if length != 16 and (first, last) not in ((0x41, 0x20), (0x20, 0x0A), (0x00, 0x00)):
                    continue
                seeds.append(bytes([first]) + body + bytes([last]))
    # BIP32 takes a seed of any length from 128 to 512 bits: one ordinary seed of every byte length in between (odd lengths among them)
    seeds += [bytes((i * 31 + length) & 255 or 7 for i in range(length)) for length in range(17, 64) if length != 32]
    n = 0
    try:
        for seed in seeds:
            for net, pv in (("mainnet", None), ("testnet", bytes.fromhex("045f1cf6"))):
                n += 1
                got.clear()
                try:
                    Evaluator(ctx.repo, method_hooks=hooks, max_steps=1000000).call(spec, [seed], kwargs={"network": net, "priv_version": pv}, self_obj=ClassRef("hd", "HDPrivateKey"))
                except Raised as x:
                    return [ctx.bad(spec, "from_seed raises %s for the %d-byte seed %s…%s" % (x.name, len(seed), seed[:2].hex(), seed[-2:].hex()), fn, mod, key="master-cells")]
                h = hmac.new(b"Bitcoin seed", seed, hashlib.sha512).digest()
                if got.get("secret") != int.from_bytes(h[:32], "big") or got.get("chain_code") != h[32:]:
                    return [ctx.bad(spec, "the master key of the %d-byte seed that starts with %#04x and ends with %#04x is not HMAC-SHA512(\"Bitcoin seed\", seed) over the whole seed "
                                          "(bytes of the seed were dropped or changed before hashing)" % (len(seed), seed[0], seed[-1]), fn, mod, key="master-cells")]
                if got.get("depth") != 0 or got.get("parent_fingerprint") != bytes(4) or got.get("child_number") != 0 or got.get("network") != net or got.get("priv_version") != pv:
                    return [ctx.bad(spec, "the master key is not built with depth 0, zero parent fingerprint, child number 0 and the network / version it was given", fn, mod, key="master-cells")]
    except Undecided as u:
        return [ctx.err(spec, "from_seed not evaluable: %s" % u, fn, mod)]
    ctx.count("cells", n)
    return [ctx.ok(spec, "%d (seed, network) cells: master secret ‖ chain code = HMAC-SHA512(\"Bitcoin seed\", seed) for seeds with zero / white-space / 0xff edge bytes" % n, fn, mod,
                   key="master-cells")]



def c08_22(ctx):
    """the BIP44-family account paths: HDPrivateKey.get_private_key evaluated for the four networks × purposes 44' / 49' / 84' / 86' × account 0 / 7 ×
    external / internal × address 0 / 5, with traverse() a recording stand-in: the key comes from m / purpose / coin' / account' / chain /
    address with coin 0' on mainnet and 1' on EVERY test network (testnet, signet, regtest: SLIP-44), chain 0 external / 1 internal"""
    from sa.cells import Evaluator, Obj, Raised, Undecided
    spec = "hd:HDPrivateKey.get_private_key"
    mod, fn = rl.get(ctx, spec)
    hooks = {("HDPrivateKey", "traverse"): lambda o, path, *a, **k: Obj("hd", "HDPrivateKey", {"private_key": ("key-at", path)})}
    n = 0
    try:
        for net in ("mainnet", "testnet", "signet", "regtest"):
            for purpose in ("44'", "49'", "84'", "86'"):
                for acct in (0, 7):
                    for ext in (True, False):
                        for idx in (0, 5):
                            n += 1
                            me = Obj("hd", "HDPrivateKey", {"network": net, "depth": 0})
                            want = "m/%s/%s/%d'/%d/%d" % (purpose, "0'" if net == "mainnet" else "1'", acct, 0 if ext else 1, idx)
                            try:
                                r = Evaluator(ctx.repo, method_hooks=hooks).call(spec, [purpose], kwargs={"account_num": acct, "is_external": ext, "address_num": idx}, self_obj=me)
                            except Raised as x:
                                return [ctx.bad(spec, "%s, purpose %s: raises %s" % (net, purpose, x.name), fn, mod, key="account-path")]
                            got = r[1] if isinstance(r, tuple) and len(r) == 2 and r[0] == "key-at" else r
                            norm_ = got.replace("h", "'").lower() if isinstance(got, str) else got
                            if norm_ != want:
                                return [ctx.bad(spec, "on %s the %s key of account %d (%s chain, index %d) is taken from %s, the standard path is %s" % (
                                    net, purpose, acct, "external" if ext else "internal", idx, got, want), fn, mod, key="account-path")]
    except Undecided as u:
        return [ctx.err(spec, "get_private_key not evaluable: %s" % u, fn, mod)]
    ctx.count("cells", n)
    return [ctx.ok(spec, "%d (network, purpose, account, chain, index) cells: m / purpose / coin' / account' / chain / index with coin 1' on every test network" % n, fn, mod, key="account-path")]


OBLIGATIONS = [
    ("C08.22", "CELLS account paths", c08_22),
    ("C08.18", "CELLS xkey fields", c08_18),
    ("C08.19", "CELLS xkey string entry", c08_19),
    ("C08.21", "CELLS master key from seed", c08_21),
    ("C08.20", "CELLS blinding", c08_20),
    ("C08.17", "SHARED", c08_17),
    ("C08.16", "SET-ORDER", c08_16),
    ("C08.15", "NOTATION", c08_15),
    ("C08.14", "CELLS version kept", c08_14),
    ("C08.13", "GUARD default", c08_13),
    ("C08.12", "ORDER normalisation", c08_12),
    ("C08.11", "MEMO", c08_11),
    ("C08.1", "RANGE accept-set", c08_1),
    ("C08.2", "RANGE partition", c08_2),
    ("C08.3", "LAYOUT+SIBLING", c08_3),
    ("C08.4", "LAYOUT", c08_4),
    ("C08.5", "TABLE", c08_5),
    ("C08.6", "GUARD per-iteration", c08_6),
    ("C08.7", "SIBLING dataflow", c08_7),
    ("C08.8", "GUARD", c08_8),
    ("C08.9", "TABLE/dataflow", c08_9),
    ("C08.10", "DATAFLOW", c08_10),
]
FLOORS = {"C08.2": 2, "C08.3": 4, "C08.4": 10, "C08.5": 7, "C08.6": 2, "C08.7": 2, "C08.9": 2, "C08.10": 2}
