"""C09 — text encodings (structural clauses)."""
import ast

from sa import rl
from sa.cfg import cfg_of
from sa.dataflow import call_name, dotted, expand, origins
from sa.fold import Folder, Unknown, module_const
from sa.guard import BAD_FALSE, BAD_TRUE
from sa.interval import ISet
from sa.loader import AnalysisError, param_names

EXPLANATION = (
    "Static analysis of buidl/helper.py, bech32.py, script.py, pecc.py/cecc.py, tx.py: cut-set proofs that Base58Check and Bech32 decoding "
    "return only after the checksum comparison / verify call and the 2..40 program-length test; Bech32 versus Bech32m constant selection is "
    "`version == 0` on both sides and the m-variants differ from the plain ones only in the constant; alphabets, generator and constants equal "
    "BIP173/BIP350/base58; address version bytes and the leading characters the dispatchers test are derived arithmetically from the version "
    "bytes; every HRP the encoder can emit is accepted by both address parsers; 8→5 bit regrouping is MSB-first on both sides; WIF prefix/suffix "
    "mapping agrees between encoder and decoder. Not decided: BCH distance, base58 big-integer arithmetic."
)

BECH32_ALPHABET = "qpzry9x8gf2tvdw0s3jn54khce6mua7l"  # BIP173
BECH32_GEN = [0x3B6A57B2, 0x26508E6D, 0x1EA119FA, 0x3D4233DD, 0x2A1462B3]  # BIP173
BECH32M_CONST = 0x2BC830A3  # BIP350
BASE58 = "123456789ABCDEFGHJKLMNPQRSTUVWXYZabcdefghijkmnopqrstuvwxyz"
HRP = {"mainnet": "bc", "testnet": "tb", "regtest": "bcrt", "signet": "tb"}  # BIP173 + Bitcoin Core chainparams


def c09_1(ctx):
    spec = "helper:raw_decode_base58"
    mod, fn = rl.get(ctx, spec)

    def match(node, ex, atoms):
        t = node.ast
        if isinstance(t, ast.Compare) and len(t.ops) == 1 and isinstance(t.ops[0], (ast.Eq, ast.NotEq)):
            lo, ro = origins(fn, node.id, t.left), origins(fn, node.id, t.comparators[0])
            for a, b in ((lo, ro), (ro, lo)):
                if "call:hash256" in a and "slice::4" in a and "slice:-4:" in b and "call:hash256" not in b:
                    return BAD_TRUE if isinstance(t.ops[0], ast.NotEq) else BAD_FALSE
        return None
    out = [rl.guard(ctx, spec, match, what="4-byte hash256 checksum comparison", key="checksum")]
    # what is hashed is the payload without the checksum, and what is returned is that payload
    cfg = cfg_of(fn)
    for n in cfg.returns():
        v0 = n.ast.value
        v = expand(fn, n.id, v0, depth=2) if isinstance(v0, ast.Name) else v0
        if isinstance(v, ast.Subscript) and ast.unparse(v.slice) == ":-4":
            out.append(ctx.ok(spec, "returns the decoded bytes without the checksum", v0, mod, key="payload"))
        elif isinstance(v, ast.Subscript):
            out.append(ctx.bad(spec, "returns `%s`, expected the decoded bytes minus the trailing 4-byte checksum" % ast.unparse(v), v0, mod, key="payload"))
        else:
            out.append(ctx.err(spec, "returned value `%s` not recognised as a slice of the decoded bytes" % ast.unparse(v), v0, mod))
    hs = [(n_, c) for n_, c in rl.find_calls(fn, "hash256")]
    good = []
    for n_, c in hs:
        a0 = c.args[0] if c.args else None
        a0 = expand(fn, n_.id, a0, depth=2) if isinstance(a0, ast.Name) else a0
        if isinstance(a0, ast.Subscript) and ast.unparse(a0.slice) == ":-4":
            good.append(c)
    out.append(ctx.ok(spec, "the checksum is computed over the payload (all but the last 4 bytes)", good[0], mod, key="hashed-part") if good else
               ctx.bad(spec, "hash256 is not applied to the payload without its last 4 bytes", fn, mod, key="hashed-part"))
    # encoder side
    mod2, fn2 = rl.get(ctx, "helper:encode_base58_checksum")
    cs = [st for st in ast.walk(fn2) if isinstance(st, ast.Subscript) and isinstance(st.value, ast.Call) and call_name(st.value) == "hash256"]
    if cs and ast.unparse(cs[0].slice) == ":4":
        out.append(ctx.ok("helper:encode_base58_checksum", "appends hash256(raw)[:4]", cs[0], mod2, key="enc-checksum"))
    else:
        out.append(ctx.bad("helper:encode_base58_checksum", "checksum appended is not hash256(raw)[:4]", fn2, mod2, key="enc-checksum"))
    return out


def c09_2(ctx):
    spec = "bech32:decode_bech32"
    mod, fn = rl.get(ctx, spec)

    def match(node, ex, atoms):
        t = node.ast
        if isinstance(t, ast.Call):
            nm = call_name(t)
            if nm in ("bech32_verify_checksum", "bech32m_verify_checksum"):
                return BAD_FALSE
            if isinstance(t.func, ast.Name):
                e2 = expand(fn, node.id, t.func)
                names = {x.id for x in ast.walk(e2) if isinstance(x, ast.Name)}
                names |= {a[5:] for a in origins(fn, node.id, t.func) if a.startswith("name:")}
                if {"bech32_verify_checksum", "bech32m_verify_checksum"} <= names:
                    return BAD_FALSE
        return None
    out = rl.defer(ctx, [rl.guard(ctx, spec, match, what="checksum verification precedes every return", key="verify")], lambda: c09_14(ctx),
                   "decided by the bech32 cells (C09.14: single-character substitutions and the other variant's checksum constant are refused, every reference address decodes); "
                   "the verification is not a call of the two verify functions")
    # program length 2..40
    cfg = cfg_of(fn)
    var = None
    for n in cfg.stmts(("stmt",)):
        a = n.ast
        if isinstance(a, ast.Assign) and isinstance(a.targets[0], ast.Name) and "// 8" in ast.unparse(a.value) and "* 5" in ast.unparse(a.value):
            var = a.targets[0].id
    if var is None:
        # the quantity whose range test guards the return: a name compared with integer constants on a test that can raise
        cands = {}
        for n in cfg.tests():
            t = n.ast
            if isinstance(t, ast.Compare) and len(t.ops) == 1 and any(cfg.nodes[b].kind == "raise" for b, _ in cfg.succ[n.id]):
                for a_, b_ in ((t.left, t.comparators[0]), (t.comparators[0], t.left)):
                    if isinstance(a_, ast.Name) and isinstance(b_, ast.Constant) and isinstance(b_.value, int) and not isinstance(b_.value, bool):
                        oo = origins(fn, n.id, a_)
                        if "call:len" in oo or "op:FloorDiv" in oo or "call:divmod" in oo:
                            cands[a_.id] = cands.get(a_.id, 0) + 1
        if len(cands) == 1:
            var = next(iter(cands))
    if var is None:
        # the length test is also decided by evaluation over every program length 0..42 (C09.14); the interval rule is the fallback
        cells = c09_14(ctx)
        if any(r.status == "error" for r in cells):
            raise AnalysisError("decode_bech32: program length variable not found")
        verdict = [r for r in cells if r.key == "bech32-cells:decode"] if hasattr(cells[0], "key") else cells[:1]
        if all(r.status == "ok" for r in verdict):
            return out + [ctx.ok(spec, "program length 2..40 decided by the length cells of C09.14 (no single length variable in this spelling)", fn, mod, key="accept:length")]
        return out + [ctx.bad(spec, "program-length acceptance differs from 2..40 (see C09.14)", fn, mod, key="accept:length")]
    out += rl.accept_set(ctx, spec, [var], ISet.range(2, 40), targets="returns", prefer=(1, 41), what="witness program length " + var)
    return out


def _const_selection(fn, modname, repo):
    """{True: name, False: name} for the `version == 0` selection of create/verify function"""
    sel = {}
    for node in ast.walk(fn):
        test = None
        a = b = None
        if isinstance(node, ast.IfExp):
            test, a, b = node.test, node.body, node.orelse
            na = a.id if isinstance(a, ast.Name) else None
            nb = b.id if isinstance(b, ast.Name) else None
        elif isinstance(node, ast.If) and len(node.body) == 1 and len(node.orelse) == 1 and isinstance(node.body[0], ast.Assign) and isinstance(node.orelse[0], ast.Assign):
            test = node.test
            ca, cb = node.body[0].value, node.orelse[0].value
            na = call_name(ca) if isinstance(ca, ast.Call) else (ca.id if isinstance(ca, ast.Name) else None)
            nb = call_name(cb) if isinstance(cb, ast.Call) else (cb.id if isinstance(cb, ast.Name) else None)
        else:
            continue
        if na and nb and "bech32" in na and "bech32" in nb:
            if isinstance(test, ast.Compare) and len(test.ops) == 1 and isinstance(test.left, ast.Name) and test.left.id == "version" and isinstance(test.comparators[0], ast.Constant):
                c = test.comparators[0].value
                if isinstance(test.ops[0], ast.Eq) and c == 0:
                    sel = {"v0": na, "v1+": nb}
                elif isinstance(test.ops[0], ast.NotEq) and c == 0 or isinstance(test.ops[0], ast.Gt) and c == 0 or isinstance(test.ops[0], ast.GtE) and c == 1:
                    sel = {"v0": nb, "v1+": na}
                else:
                    sel = {"?": ast.unparse(test)}
    return sel


def c09_3(ctx):
    out = []
    for spec, want in (("bech32:encode_bech32_checksum", {"v0": "bech32_create_checksum", "v1+": "bech32m_create_checksum"}),
                       ("bech32:decode_bech32", {"v0": "bech32_verify_checksum", "v1+": "bech32m_verify_checksum"})):
        mod, fn = rl.get(ctx, spec)
        sel = _const_selection(fn, mod.name, ctx.repo)
        if sel == want:
            out.append(ctx.ok(spec, "witness version 0 → Bech32, versions ≥ 1 → Bech32m", fn, mod, key="selection"))
        elif not sel:
            out.append(ctx.err(spec, "constant selection not recognised", fn, mod))
        else:
            out.append(ctx.bad(spec, "checksum variant selection is %s, BIP350 requires %s" % (sel, want), fn, mod, key="selection"))
    # m-variants differ only in the constant
    f = Folder(ctx.repo, "bech32")
    for plain, m_ in (("bech32_verify_checksum", "bech32m_verify_checksum"), ("bech32_create_checksum", "bech32m_create_checksum")):
        mod, fa = rl.get(ctx, "bech32:" + plain)
        _, fb = rl.get(ctx, "bech32:" + m_)
        ca = _final_const(fa, f)
        cb = _final_const(fb, f)
        if ca == 1 and cb == BECH32M_CONST:
            out.append(ctx.ok("bech32:" + m_, "%s uses constant 1, %s uses 0x2bc830a3" % (plain, m_), fb, mod, key="const:" + plain))
        else:
            out.append(ctx.bad("bech32:" + m_, "final constants are %s / %s, BIP173/350: 1 / 0x2bc830a3" % (ca, hex(cb) if isinstance(cb, int) else cb), fb, mod, key="const:" + plain))
        # both go through the same polymod over hrp_expand(hrp) + data
        for fn_ in (fa, fb):
            calls = {call_name(c) for c in ast.walk(fn_) if isinstance(c, ast.Call)}
            if not {"bech32_polymod", "bech32_hrp_expand"} <= calls:
                out.append(ctx.bad("bech32:" + fn_.name, "does not compute bech32_polymod(bech32_hrp_expand(hrp) + data)", fn_, mod, key="polymod:" + fn_.name))
    return rl.defer(ctx, out, lambda: c09_14(ctx), "decided by the bech32 cells (C09.14: every witness version 0..16 encodes to and decodes from the BIP173 / BIP350 reference string, "
                    "the other variant's constant is refused); the selection is not in the form this rule reads")


def _final_const(fn, f):
    for st in ast.walk(fn):
        if isinstance(st, ast.Return) and isinstance(st.value, ast.Compare):
            return f.fold(st.value.comparators[0])
        if isinstance(st, ast.Assign) and isinstance(st.value, ast.BinOp) and isinstance(st.value.op, ast.BitXor):
            return f.fold(st.value.right)
    return None


def c09_4(ctx):
    out = [
        rl.const_eq(ctx, "bech32", "BECH32_ALPHABET", BECH32_ALPHABET, "BIP173 charset"),
        rl.const_eq(ctx, "bech32", "GEN", BECH32_GEN, "BIP173 generator"),
        rl.const_eq(ctx, "bech32", "BECH32M_CONSTANT", BECH32M_CONST, "BIP350 constant"),
        rl.const_eq(ctx, "helper", "BASE58_ALPHABET", BASE58, "base58 alphabet"),
        rl.const_eq(ctx, "bech32", "PREFIX", HRP, "BIP173 human-readable parts"),
    ]
    # polymod shape: 25-bit shift, 0x1ffffff mask, 5 generators
    mod, fn = rl.get(ctx, "bech32:bech32_polymod")
    f = Folder(ctx.repo, mod.name)
    consts = sorted({f.fold(c) for c in ast.walk(fn) if isinstance(c, ast.Constant) and isinstance(c.value, int)})
    if {25, 0x1FFFFFF, 5, 1} <= set(consts):
        out.append(ctx.ok("bech32:bech32_polymod", "shift 25, mask 0x1ffffff, 5 generator taps", fn, mod, key="polymod-consts"))
    else:
        out.append(ctx.bad("bech32:bech32_polymod", "constants %s, BIP173 uses shift 25, mask 0x1ffffff, 5 taps" % consts, fn, mod, key="polymod-consts"))
    return out


def _first_chars(version, payload_len=20):
    """characters a Base58Check string of version byte + payload_len bytes + 4 checksum bytes can start with"""
    n = 1 + payload_len + 4
    lo = version << (8 * (n - 1))
    hi = ((version + 1) << (8 * (n - 1))) - 1
    if version == 0:
        return {"1"}

    def digits(x):
        d = 0
        while x:
            x //= 58
            d += 1
        return d
    dlo, dhi = digits(lo), digits(hi)
    out = set()
    for d in range(dlo, dhi + 1):
        a = max(lo, 58 ** (d - 1))
        b = min(hi, 58 ** d - 1)
        for k in range(a // 58 ** (d - 1), b // 58 ** (d - 1) + 1):
            out.add(BASE58[k])
    return out


def c09_5(ctx):
    out = []
    f = Folder(ctx.repo, "script")
    want = {"script:P2PKHScriptPubKey.address": (b"\x00", b"\x6f"), "script:P2SHScriptPubKey.address": (b"\x05", b"\xc4")}
    found = {}
    for spec, (mn, tn) in want.items():
        mod, fn = rl.get(ctx, spec)
        cfg = cfg_of(fn)
        got = {}
        for n in cfg.tests():
            t = n.ast
            if isinstance(t, ast.Compare) and isinstance(t.ops[0], (ast.Eq, ast.NotEq)) and isinstance(t.comparators[0], ast.Constant) and t.comparators[0].value == "mainnet":
                for b, l in cfg.succ[n.id]:
                    a = cfg.nodes[b].ast
                    if isinstance(a, ast.Assign) and isinstance(a.value, ast.Constant) and isinstance(a.value.value, bytes):
                        main = (l is True) == isinstance(t.ops[0], ast.Eq)
                        got["mainnet" if main else "other"] = a.value.value
        found[spec] = got
        if got == {"mainnet": mn, "other": tn}:
            out.append(ctx.ok(spec, "version byte %s on mainnet, %s otherwise" % (mn.hex(), tn.hex()), fn, mod, key="version"))
        else:
            out.append(ctx.bad(spec, "version bytes %s, expected mainnet %s / others %s" % ({k: v.hex() for k, v in got.items()}, mn.hex(), tn.hex()), fn, mod, key="version"))
    p2pkh_chars = _first_chars(0x00) | _first_chars(0x6F)
    p2sh_chars = _first_chars(0x05) | _first_chars(0xC4)
    for spec in ("script:address_to_script_pubkey", "tx:TxOut.to_address"):
        mod, fn = rl.get(ctx, spec)
        fo = Folder(ctx.repo, mod.name)
        sets = {}
        cfg = cfg_of(fn)
        disp = []
        for n in cfg.tests():
            t = n.ast
            if isinstance(t, ast.Compare) and len(t.ops) == 1 and isinstance(t.ops[0], (ast.In, ast.NotIn)):
                v = fo.fold(t.comparators[0])
                if isinstance(v, (tuple, list, set, frozenset)) and v and all(isinstance(x, str) and len(x) == 1 for x in v):
                    disp.append((n, set(v), isinstance(t.ops[0], ast.In)))
        blocked = frozenset(n.id for n, _, _ in disp)
        for n, v, pos in disp:
            # what is built on the edge "leading character is in the set" before the next dispatch test
            start = [b for b, l in cfg.succ[n.id] if l is pos]
            region = cfg.reach(start, blocked=blocked)
            txt = " ".join(ast.unparse(cfg.nodes[i].ast) for i in region if cfg.nodes[i].ast is not None)
            kinds = [k for k, c in (("p2pkh", "P2PKHScriptPubKey("), ("p2sh", "P2SHScriptPubKey(")) if c in txt]
            if len(kinds) == 1:
                sets.setdefault(kinds[0], set()).update(v)
        # table idiom: a module-level dict {leading character: ScriptPubKey class} indexed with the first character
        for nm in {x.id for x in ast.walk(fn) if isinstance(x, ast.Name)}:
            r = ctx.repo.resolve_name(mod.name, nm)
            d = ctx.repo.module(r[0]).constants.get(r[1]) if r else None
            if isinstance(d, ast.Dict) and d.keys and all(isinstance(k, ast.Constant) and isinstance(k.value, str) and len(k.value) == 1 for k in d.keys):
                for k, val in zip(d.keys, d.values):
                    # the class itself, or a (class, label) tuple
                    cls = ast.unparse(val.elts[0] if isinstance(val, ast.Tuple) and val.elts else val)
                    kind = "p2pkh" if cls == "P2PKHScriptPubKey" else ("p2sh" if cls == "P2SHScriptPubKey" else None)
                    if kind:
                        sets.setdefault(kind, set()).add(k.value)
        for kind, exp in (("p2pkh", p2pkh_chars), ("p2sh", p2sh_chars)):
            if kind not in sets:
                out.append(ctx.err(spec, "%s leading-character dispatch not found" % kind, fn, mod))
            elif sets[kind] == exp:
                out.append(ctx.ok(spec, "%s addresses are recognised by the leading characters %s (= what base58check of the version bytes can produce)" % (kind, sorted(exp)), fn, mod, key="lead:" + kind))
            else:
                out.append(ctx.bad(spec, "%s dispatch accepts leading characters %s; base58check of the version bytes yields %s" % (kind, sorted(sets[kind]), sorted(exp)), fn, mod, key="lead:" + kind))
    # WIF
    for repo, label in ((ctx.repo, "pecc"), (ctx.repo_c, "cecc")):
        mod, fn = repo.func("%s:PrivateKey.wif" % label)
        ctx.note_fn(mod, fn)
        cfg = cfg_of(fn)
        got = {}
        fw = Folder(repo, mod.name)

        def const_bytes(a):
            """the bytes constant assigned by statement a (literal or named module constant), else None"""
            if isinstance(a, ast.Assign):
                v = fw.fold(a.value)
                return v if isinstance(v, bytes) else None
            return None
        for n in cfg.tests():
            t = n.ast
            if isinstance(t, ast.Compare) and len(t.ops) == 1 and fw.fold(t.comparators[0]) == "mainnet":
                for b, l in cfg.succ[n.id]:
                    v = const_bytes(cfg.nodes[b].ast)
                    if v is not None:
                        got["mainnet" if (l is True) == isinstance(t.ops[0], ast.Eq) else "other"] = v
            if isinstance(t, ast.Name) and t.id == "compressed":
                for b, l in cfg.succ[n.id]:
                    v = const_bytes(cfg.nodes[b].ast)
                    if v is not None:
                        got["compressed" if l is True else "uncompressed"] = v
        want_map = {"mainnet": b"\x80", "other": b"\xef", "compressed": b"\x01", "uncompressed": b""}
        if got == want_map:
            out.append(ctx.ok("%s:PrivateKey.wif" % label, "prefix 80 / ef, suffix 01 iff compressed", fn, mod, key="wif-enc"))
        elif set(got) == set(want_map):
            out.append(ctx.bad("%s:PrivateKey.wif" % label, "WIF prefix/suffix mapping %s" % {k: v.hex() for k, v in got.items()}, fn, mod, key="wif-enc"))
        else:
            out.append(ctx.err("%s:PrivateKey.wif" % label, "WIF prefix / suffix selection not recognised (found %s)" % sorted(got), fn, mod))
        mod, fn = repo.func("%s:PrivateKey.parse" % label)
        ctx.note_fn(mod, fn)
        ff = Folder(repo, mod.name)
        nets = {}
        cfg = cfg_of(fn)
        # which network constant is assigned when the version byte is v: follow only the edges consistent with byte == v
        vtests = []
        for n in cfg.tests():
            r = rl.rel(n.ast, lambda e: ast.unparse(e).endswith("[0]"), lambda e: isinstance(ff.fold(e), int))
            if r in ("==", "!="):
                t = n.ast
                c = ff.fold(t.comparators[0] if ast.unparse(t.left).endswith("[0]") else t.left)
                vtests.append((n, r, c))
        for v in (0x80, 0xEF, 0x00):
            removed = set()
            for n, r, c in vtests:
                truth = (v == c) if r == "==" else (v != c)
                removed.add((n.id, not truth))
            live = cfg.reach([cfg.entry], removed=frozenset(removed))
            if not any(x.id in live for x in cfg.returns()):
                continue
            consts = {x.ast.value.value for x in cfg.nodes if x.id in live and x.kind == "stmt" and isinstance(x.ast, ast.Assign)
                      and isinstance(x.ast.value, ast.Constant) and isinstance(x.ast.value.value, str)}
            nets[v] = sorted(consts)[0] if len(consts) == 1 else sorted(consts)
        # table form: network = TABLE.get(raw[0]) / TABLE[raw[0]] with a module-level {version byte: network} dict
        table_lookup = None
        for c in ast.walk(fn):
            key = None
            if isinstance(c, ast.Call) and isinstance(c.func, ast.Attribute) and c.func.attr == "get" and isinstance(c.func.value, ast.Name) and c.args:
                key, tname = c.args[0], c.func.value.id
            elif isinstance(c, ast.Subscript) and isinstance(c.value, ast.Name) and isinstance(c.ctx, ast.Load):
                key, tname = c.slice, c.value.id
            if key is not None and ast.unparse(key).endswith("[0]"):
                r_ = repo.resolve_name(mod.name, tname)
                d = repo.module(r_[0]).constants.get(r_[1]) if r_ else None
                if isinstance(d, ast.Dict):
                    tb = {ff.fold(k): ff.fold(v) for k, v in zip(d.keys, d.values)}
                    if all(isinstance(k, int) and isinstance(v, str) for k, v in tb.items()):
                        table_lookup = tb
        if table_lookup is not None and not vtests:
            nets = dict(table_lookup)
        if nets == {0x80: "mainnet", 0xEF: "testnet"}:
            out.append(ctx.ok("%s:PrivateKey.parse" % label, "80 → mainnet, ef → testnet", fn, mod, key="wif-dec"))
        else:
            out.append(ctx.bad("%s:PrivateKey.parse" % label, "WIF version mapping %s, expected {0x80: mainnet, 0xef: testnet}" % nets, fn, mod, key="wif-dec"))
        # unknown version rejected
        key = None
        for n in cfg.tests():
            if isinstance(n.ast, ast.Compare) and ast.unparse(n.ast.left).endswith("[0]") and isinstance(n.ast.left, ast.Subscript):
                key = ast.unparse(n.ast.left)
        if key:
            out += rl.accept_set(ctx, "%s:PrivateKey.parse" % label, [key], ISet.of([0x80, 0xEF]), targets="returns", init={key: ISet.range(0, 255)}, prefer=(0,), repo=repo,
                                 what="WIF version byte")
        out += _wif_compressed_flag(ctx, repo, label, mod, fn)
    return out


def _wif_compressed_flag(ctx, repo, label, mod, fn):
    """The compression flag of a parsed WIF is decided by the payload length (34 bytes: version ‖ secret ‖ 01, 33 bytes:
    version ‖ secret), not by the last byte: an uncompressed key whose secret ends in 01 must stay uncompressed."""
    spec = "%s:PrivateKey.parse" % label
    cfg = cfg_of(fn)
    ff = Folder(repo, mod.name)
    flag = None
    for n in cfg.returns():
        v = n.ast.value if n.ast is not None else None
        if isinstance(v, ast.Call):
            for k in v.keywords:
                if k.arg == "compressed" and isinstance(k.value, ast.Name):
                    flag = k.value.id
    if flag is None:
        return [ctx.err(spec, "the `compressed=` argument of the constructed key is not a local", fn, mod)]
    ltests = []
    for n in cfg.tests():
        t = n.ast
        if isinstance(t, ast.Compare) and len(t.ops) == 1:
            l, r = t.left, t.comparators[0]
            for a, b in ((l, r), (r, l)):
                if isinstance(a, ast.Call) and call_name(a) == "len" and (isinstance(ff.fold(b), (int, tuple, list))):
                    ltests.append((n, a is l, ff.fold(b)))
    if not ltests:
        pass
    res = {}
    nonconst = []
    for L in (33, 34):
        removed = set()
        for n, len_left, c in ltests:
            t = n.ast
            op = type(t.ops[0])
            x, y = (L, c) if len_left else (c, L)
            try:
                truth = {ast.Eq: lambda: x == y, ast.NotEq: lambda: x != y, ast.Lt: lambda: x < y, ast.LtE: lambda: x <= y, ast.Gt: lambda: x > y, ast.GtE: lambda: x >= y,
                         ast.In: lambda: x in y, ast.NotIn: lambda: x not in y}[op]()
            except (KeyError, TypeError):
                continue
            removed.add((n.id, not truth))
        live = cfg.reach([cfg.entry], removed=frozenset(removed))
        if not any(x.id in live for x in cfg.returns()):
            res[L] = "rejected"
            continue
        vals = set()
        for x in cfg.nodes:
            if x.id in live and x.kind == "stmt" and isinstance(x.ast, ast.Assign) and any(isinstance(tg, ast.Name) and tg.id == flag for tg in x.ast.targets):
                c = ff.fold(x.ast.value)
                if not isinstance(c, bool):
                    # `compressed = len(raw) == 34`: evaluate with the payload length at hand
                    import copy

                    class _L(ast.NodeTransformer):
                        def visit_Call(self, node):
                            if isinstance(node.func, ast.Name) and node.func.id == "len":
                                return ast.copy_location(ast.Constant(value=L), node)
                            return self.generic_visit(node)
                    c = ff.fold(ast.fix_missing_locations(_L().visit(copy.deepcopy(x.ast.value))))
                if isinstance(c, bool):
                    vals.add(c)
                else:
                    nonconst.append(x)
        res[L] = vals
    if nonconst:
        a = nonconst[0].ast
        txt = ast.unparse(a.value)
        if "endswith" in txt or "[-1]" in txt:
            return [ctx.bad(spec, "the compression flag is taken from the payload's last byte (`%s`) instead of its length: an uncompressed key whose secret ends in 01 "
                                  "is parsed as a compressed key with the secret shifted right by one byte" % ast.unparse(a), a, mod, key="wif-compressed")]
        return [ctx.err(spec, "compression flag `%s` not understood" % ast.unparse(a), a, mod)]
    if res.get(33) == {False} and res.get(34) == {True}:
        return [ctx.ok(spec, "33-byte payload → uncompressed, 34-byte payload → compressed", fn, mod, key="wif-compressed")]
    return [ctx.bad(spec, "compression flag by payload length: %s; expected {33: uncompressed, 34: compressed}" % {k: (sorted(v) if isinstance(v, set) else v) for k, v in res.items()},
                    fn, mod, key="wif-compressed")]


def c09_6(ctx):
    """every HRP of PREFIX is accepted by both address parsers (bech32 arms)"""
    out = []
    prefixes = module_const(ctx.repo, "bech32", "PREFIX")
    if not isinstance(prefixes, dict):
        raise AnalysisError("bech32.PREFIX not foldable")
    for spec in ("script:address_to_script_pubkey", "tx:TxOut.to_address"):
        mod, fn = rl.get(ctx, spec)
        p = param_names(fn)[0] if spec.startswith("script") else param_names(fn)[1]
        for hrp in sorted(set(prefixes.values())):
            for ver, n in (("q", 38), ("q", 58), ("p", 58)):
                sample = hrp + "1" + ver + "x" * n
                arm = _arm_taken(ctx.repo, mod, fn, p, sample, spec)
                ok = arm is not None and ("decode_bech32" in arm)
                k = "hrp:%s:%s%d" % (hrp, ver, n)
                if ok:
                    out.append(ctx.ok(spec, "`%s1%s…` (%d chars) is routed to the bech32 decoder" % (hrp, ver, len(sample)), fn, mod, key=k))
                elif arm is None:
                    out.append(ctx.err(spec, "dispatch not evaluable for sample %s…" % sample[:8], fn, mod))
                else:
                    out.append(ctx.bad(spec, "an address with human-readable part `%s` (which encode_bech32_checksum emits for %s) is not accepted: `%s1%s…` reaches `%s`" % (
                        hrp, [k2 for k2, v in prefixes.items() if v == hrp], hrp, ver, arm[:60]), fn, mod, key=k))
    return out


class _Reached(Exception):
    pass


def _arm_taken(repo, mod, fn, param, sample, spec=None):
    """Evaluate the if/elif chain of an address dispatcher on a concrete string; returns source text of the arm body reached."""
    if spec is not None:
        # cell evaluation: the dispatcher inspects the text only through prefixes / lengths compared with constants; the decoders are
        # stand-ins that report being reached
        from sa.cells import ClassRef, Evaluator, Raised, Undecided

        def opaque(name, args, kw):
            if name in ("decode_bech32", "decode_base58"):
                raise _Reached(name)
            return NotImplemented
        try:
            c = spec.split(":")[1]
            if "." in c:
                Evaluator(repo, opaque=opaque).call(spec, [sample, 1000], self_obj=ClassRef(spec.split(":")[0], c.split(".")[0]))
            else:
                Evaluator(repo, opaque=opaque).call(spec, [sample])
            return "return without decoding"
        except _Reached as r:
            return "%s(%s)" % (r.args[0], param)
        except Raised as x:
            return "raise %s" % x.name
        except Undecided:
            pass
    f = Folder(repo, mod.name, {param: sample})

    def run(stmts):
        for st in stmts:
            if isinstance(st, ast.If):
                v = f.fold(st.test)
                if v is Unknown:
                    return None
                r = run(st.body if v else st.orelse)
                if r is not None:
                    return r
                if v:
                    # body fell through without a decision (e.g. nested length test failed) -> continue after the if
                    continue
            elif isinstance(st, (ast.Return, ast.Raise)):
                return ast.unparse(st)
            elif isinstance(st, ast.Assign):
                txt = ast.unparse(st)
                if "decode_bech32" in txt or "decode_base58" in txt:
                    return txt
        return None
    r = run(fn.body)
    return r


def c09_7(ctx):
    out = []
    mod, fn = rl.get(ctx, "bech32:group_32")
    txt = ast.unparse(fn)
    if "(current << 8) + c" in txt.replace("  ", " ") or "current << 8" in txt:
        if "current >> unused_bits" in txt:
            out.append(ctx.ok("bech32:group_32", "bytes are accumulated MSB-first and 5-bit groups are taken from the top", fn, mod, key="msb-enc"))
        else:
            out.append(ctx.bad("bech32:group_32", "5-bit groups are not taken from the most significant bits", fn, mod, key="msb-enc"))
    else:
        raise AnalysisError("group_32: accumulate-left-shift idiom not found")
    mod, fn = rl.get(ctx, "bech32:decode_bech32")
    shifts = [b for b in ast.walk(fn) if isinstance(b, ast.BinOp) and isinstance(b.op, ast.LShift) and isinstance(b.right, ast.Constant) and b.right.value == 5]
    ends = [c for _, c in rl.find_calls(fn, "int_to_big_endian")]
    if shifts and ends:
        out.append(ctx.ok("bech32:decode_bech32", "5-bit digits are accumulated MSB-first and emitted big-endian", shifts[0], mod, key="msb-dec"))
    else:
        out.append(ctx.bad("bech32:decode_bech32", "digits are not accumulated MSB-first / emitted big-endian", fn, mod, key="msb-dec"))
    # data part excludes version digit and 6 checksum digits
    sl = [ast.unparse(s.slice) for s in ast.walk(fn) if isinstance(s, ast.Subscript) and isinstance(s.slice, ast.Slice) and isinstance(s.value, ast.Name) and s.value.id == "data"]
    if "1:-6" in sl:
        out.append(ctx.ok("bech32:decode_bech32", "program digits are data[1:-6] (version digit and 6 checksum digits excluded)", fn, mod, key="data-slice"))
    else:
        out.append(ctx.bad("bech32:decode_bech32", "program digits slice is %s, expected data[1:-6]" % sl, fn, mod, key="data-slice"))
    return out


def c09_8(ctx):
    """MEMO: an address / encoding computed for one network (or payload) is not remembered and handed out for another"""
    from sa.memo import cache_obligation
    return cache_obligation(ctx, ["script", "bech32", "helper", "pecc", "tx"], "an address computed for one network would be returned for another")


def c09_9(ctx):
    """encode_bech32_checksum can emit every witness version 0..16: the interval analysis of the version symbol that heads
    the data part must contain [0, 16] at the exit (a range check or early exit that loses one of them breaks the round trip)"""
    from sa.ranges import Ranges
    spec = "bech32:encode_bech32_checksum"
    mod, fn = rl.get(ctx, spec)
    cfg = cfg_of(fn)
    var = None
    for n in cfg.nodes:
        if n.ast is None or n.kind not in ("stmt", "return"):
            continue
        for x in ast.walk(n.ast):
            if isinstance(x, ast.BinOp) and isinstance(x.op, ast.Add) and isinstance(x.left, ast.List) and len(x.left.elts) == 1 and isinstance(x.left.elts[0], ast.Name):
                var = x.left.elts[0].id
    if var is None:
        raise AnalysisError("encode_bech32_checksum: the version symbol heading the data part (`[version] + ...`) was not found")
    ra = Ranges(ctx.repo, mod, fn, {var: ISet.top()})
    rets = [n for n in cfg.returns()]
    if not rets:
        raise AnalysisError("encode_bech32_checksum has no exit")
    acc = ra.union_at([n.id for n in rets], var)
    need = ISet.range(0, 16)
    if need.issubset(acc):
        return [ctx.ok(spec, "version symbol `%s` can take every value 0..16 at the exit (possible values %s)" % (var, acc.describe({})), fn, mod, key="enc-versions")]
    if ra.uninterpreted:
        return [ctx.err(spec, "cannot decide the version range: %s" % ra.uninterpreted[0][1], fn, mod)]
    lost = need.minus(acc)
    w = lost.witness((16, 1, 0))
    return [ctx.bad(spec, "witness version %s can never be encoded: the version symbol `%s` only takes the values %s at the exit, so a v%s scriptPubKey has no address" % (
        w, var, acc.describe({}), w), fn, mod, key="enc-versions", detail={"witness_value": str(w)})]


def c09_10(ctx):
    out = _c09_10_struct(ctx)
    return rl.defer(ctx, out, lambda: c09_15(ctx), "decided by the Base58Check cells (C09.15: payloads with 0..3 leading zero bytes, zero runs in the middle and a checksum ending "
                    "in 00 encode to the reference string and decode back); the count of leading zero bytes is not in a form this rule reads")


def _c09_10_struct(ctx):
    """encode_base58: one leading `1` per *leading* zero byte.  The count must stop at the first non-zero byte (a loop that breaks, or
    len(s) - len(s.lstrip(b"\\x00"))); counting zero bytes anywhere else (strip on both ends, count()) adds `1`s for payloads whose
    checksum ends in 00 and the string no longer decodes to the payload"""
    spec = "helper:encode_base58"
    mod, fn = rl.get(ctx, spec)
    cfg = cfg_of(fn)
    # the name multiplied with "1"
    cnt = None
    for b in ast.walk(fn):
        if isinstance(b, ast.BinOp) and isinstance(b.op, ast.Mult):
            for x, y in ((b.left, b.right), (b.right, b.left)):
                if isinstance(x, ast.Constant) and x.value == "1" and isinstance(y, ast.Name):
                    cnt = y.id
    if cnt is None:
        return [ctx.err(spec, "the `\"1\" * count` prefix was not found", fn, mod)]
    defs = [st for st in ast.walk(fn) if isinstance(st, (ast.Assign, ast.AugAssign)) and any(isinstance(t, ast.Name) and t.id == cnt for t in (st.targets if isinstance(st, ast.Assign) else [st.target]))]
    txt = " ; ".join(ast.unparse(d) for d in defs)
    calls = {c.func.attr for d in defs for c in ast.walk(d) if isinstance(c, ast.Call) and isinstance(c.func, ast.Attribute)}
    if "lstrip" in calls and not ({"strip", "rstrip", "count"} & calls):
        return [ctx.ok(spec, "leading zero bytes are counted as `%s`" % txt[:80], defs[0], mod, key="leading-zeros")]
    if {"strip", "rstrip", "count"} & calls:
        w = sorted({"strip", "rstrip", "count"} & calls)[0]
        return [ctx.bad(spec, "the number of leading `1`s is computed with .%s() (`%s`), which also counts zero bytes at the end%s: a payload whose last checksum byte is 00 "
                              "(1 in 256) gets extra `1`s and fails its own checksum when decoded" % (w, txt[:80], " and in the middle" if w == "count" else ""), defs[0], mod,
                        key="leading-zeros")]
    # loop form: an increment inside a loop over the bytes, with a break on the first non-zero byte
    for lp in cfg.loops.values():
        incs = [n for n in cfg.nodes if n.id in lp.body and isinstance(n.ast, ast.AugAssign) and isinstance(n.ast.target, ast.Name) and n.ast.target.id == cnt]
        if not incs:
            continue
        has_break = any(isinstance(x, ast.Break) for x in ast.walk(lp.stmt))
        if has_break:
            return [ctx.ok(spec, "leading zero bytes are counted by a loop that stops at the first non-zero byte", lp.stmt, mod, key="leading-zeros")]
        return [ctx.bad(spec, "the loop that counts zero bytes never stops: zero bytes after the first non-zero byte are counted as leading", lp.stmt, mod, key="leading-zeros")]
    return [ctx.err(spec, "how `%s` is computed is not recognised: %s" % (cnt, txt[:80]), fn, mod)]


def c09_11(ctx):
    """TxOut.to_address maps a decoded segwit address to the scriptPubKey of *its* witness version: v0 with 20 / 32 bytes, v1 with
    32 bytes, everything else is refused.  Cell evaluation over versions {0, 1, 2, 16} x program lengths {2, 20, 32, 40}; the bech32
    decoder is a stand-in that returns the cell"""
    from sa.cells import ClassRef, Evaluator, Obj, Raised, Undecided
    spec = "tx:TxOut.to_address"
    mod, fn = rl.get(ctx, spec)
    want = {(0, 20): "P2WPKHScriptPubKey", (0, 32): "P2WSHScriptPubKey", (1, 32): "P2TRScriptPubKey"}
    bad = None
    n = 0
    for version in (0, 1, 2, 16):
        for ln in (2, 20, 32, 40):
            h = bytes([7]) * ln

            def opaque(name, args, kw, version=version, h=h):
                if name == "decode_bech32":
                    return ["mainnet", version, h]
                return NotImplemented
            n += 1
            try:
                r = Evaluator(ctx.repo, opaque=opaque).call(spec, ["bc1qexample", 1000], self_obj=ClassRef("tx", "TxOut"))
                got = r.attrs.get("script_pubkey") if isinstance(r, Obj) else None
                got = (got.cls, got.attrs.get("commands")) if isinstance(got, Obj) else ("?", None)
            except Undecided as u:
                return [ctx.err(spec, "segwit dispatch not evaluable for version %d, %d-byte program: %s" % (version, ln, u), fn, mod)]
            except Raised as x:
                got = ("raises", x.name)
            exp = want.get((version, ln))
            if exp is None and got[0] != "raises":
                bad = "a witness v%d address with a %d-byte program is turned into %s %s instead of being refused: address -> scriptPubKey is no longer injective" % (
                    version, ln, got[0], "(OP_%d ...)" % (got[1][0] - 0x50 if got[1] and isinstance(got[1][0], int) and got[1][0] > 0x50 else 0))
            elif exp is not None and got[0] != exp:
                bad = "a witness v%d address with a %d-byte program gives %s, expected %s" % (version, ln, got[0] if got[0] != "raises" else "an error (%s)" % got[1], exp)
            if bad:
                break
        if bad:
            break
    ctx.count("cells", n)
    if bad:
        return [ctx.bad(spec, bad, fn, mod, key="segwit-dispatch")]
    return [ctx.ok(spec, "v0/20 -> P2WPKH, v0/32 -> P2WSH, v1/32 -> P2TR, all other (version, length) cells refused (%d cells)" % n, fn, mod, key="segwit-dispatch")]


def c09_12(ctx):
    """SET-ORDER: no ordered result (list, serialisation, yielded sequence) of the modules this property is anchored in takes its
    order from the iteration order of a set"""
    from sa.setorder import setorder_obligation
    return setorder_obligation(ctx, ["helper", "bech32", "script", "pecc", "tx"], "the same inputs give different output from run to run")


def c09_13(ctx):
    """SHARED necessary conditions over the modules this property is anchored in: FALSY-DEFAULT, MUTABLE-DEFAULT, IDENTITY, ALIAS,
    CTOR-FORWARD (sa/shared.py)"""
    from sa.shared import shared_obligations
    return shared_obligations(ctx, ["helper", "bech32", "script", "pecc", "tx"], "the result would depend on something other than the arguments and the object's current state")


def _ref_bech32(hrp, version, prog, const=None):
    """BIP173/BIP350 reference encoder (the rule's own); `const` forces the checksum constant (the other variant's, for refusal cells)."""
    def polymod(values):
        chk = 1
        for v in values:
            b = chk >> 25
            chk = (chk & 0x1FFFFFF) << 5 ^ v
            for i in range(5):
                chk ^= BECH32_GEN[i] if ((b >> i) & 1) else 0
        return chk
    acc, bits, data = 0, 0, [version]
    for byte in prog:
        acc = (acc << 8) | byte
        bits += 8
        while bits >= 5:
            bits -= 5
            data.append((acc >> bits) & 31)
    if bits:
        data.append((acc << (5 - bits)) & 31)
    exp = [ord(x) >> 5 for x in hrp] + [0] + [ord(x) & 31 for x in hrp]
    const = (1 if version == 0 else BECH32M_CONST) if const is None else const
    pm = polymod(exp + data + [0] * 6) ^ const
    return hrp + "1" + "".join(BECH32_ALPHABET[d] for d in data + [(pm >> 5 * (5 - i)) & 31 for i in range(6)])


def c09_14(ctx):
    if not hasattr(ctx, "_c09_14"):
        ctx._c09_14 = _c09_14(ctx)
    return ctx._c09_14


def _c09_14(ctx):
    """decode_bech32 / encode_bech32_checksum evaluated over the complete partition the property quantifies over: every witness version 0..16 ×
    every program length 0..42 × every human-readable part, three byte patterns each (the codec touches program bytes only through shifts
    and masks).  Addresses the BIP173/BIP350 reference encoder produces for program lengths 2..40 decode to exactly (network, version,
    program), lengths outside are refused, and the encoder produces the reference string"""
    from sa.cells import Evaluator, Raised, Undecided
    spec_d, spec_e = "bech32:decode_bech32", "bech32:encode_bech32_checksum"
    mod, fn = rl.get(ctx, spec_d)
    mod_e, fn_e = rl.get(ctx, spec_e)
    out = []
    bad_d = bad_e = None
    n = 0
    nets = {"bc": ("mainnet",), "tb": ("testnet", "signet"), "bcrt": ("regtest",)}
    quick = getattr(ctx, "tier", "quick") != "thorough"
    try:
        for hrp, networks in nets.items():
            for version in range(17):
                for length in range(0, 43):
                    for pat in (bytes((37 * i + 11) & 255 for i in range(length)), b"\xff" * length, bytes(length)):
                        if hrp != "bc" and pat != b"\xff" * length:
                            continue   # the human-readable part only enters the checksum
                        if quick and (version not in (0, 1, 16) or (hrp != "bc" and length not in (0, 1, 2, 3, 20, 32, 40, 41)) or (hrp == "bc" and pat == bytes(length) and length)):
                            continue   # the quick tier walks every length for the versions on either side of the Bech32 / Bech32m split
                        n += 1
                        addr = _ref_bech32(hrp, version, pat)
                        valid = 2 <= length <= 40
                        if bad_d is None:
                            try:
                                r = Evaluator(ctx.repo, max_steps=400000).call(spec_d, [addr])
                                if not valid:
                                    bad_d = "the %s address of a version %d program of %d bytes (outside 2..40) is accepted" % (hrp, version, length)
                                elif not (isinstance(r, (list, tuple)) and len(r) == 3 and r[0] in networks and r[1] == version and r[2] == pat):
                                    bad_d = "the %s address %s of a version %d program of %d bytes decodes to %r" % (hrp, addr, version, length, r)
                            except Raised as x:
                                if valid:
                                    bad_d = "the valid %s address %s (witness version %d, program of %d bytes) is refused (%s): decoding does not invert encoding there" % (
                                        hrp, addr, version, length, x.name)
                        if bad_e is None and valid and length <= 40:
                            spk = bytes([version + 0x50 if version else 0, length]) + pat
                            try:
                                e_ = Evaluator(ctx.repo, max_steps=400000).call(spec_e, [spk, networks[0]])
                                if e_ != addr:
                                    bad_e = "version %d program of %d bytes on %s encodes to %r, BIP173/350 gives %s" % (version, length, networks[0], e_, addr)
                            except Raised as x:
                                bad_e = "version %d program of %d bytes on %s: the encoder raises %s" % (version, length, networks[0], x.name)
        # corruption: the checksum detects every single-character substitution (BIP173), and each variant refuses the other's constant
        bad_c, m = None, 0
        for hrp, version, length in (("bc", 0, 20), ("tb", 1, 32)) if quick else (("bc", 0, 20), ("bc", 0, 32), ("bc", 1, 32), ("tb", 0, 32), ("tb", 1, 32), ("bcrt", 16, 2)):
            prog = bytes((53 * i + 29) & 255 for i in range(length))
            addr = _ref_bech32(hrp, version, prog)
            sep = addr.rindex("1")
            variants = [("with the other variant's checksum constant", _ref_bech32(hrp, version, prog, const=BECH32M_CONST if version == 0 else 1))]
            for pos in range(sep + 1, len(addr)):
                if quick and pos % 4 and pos < len(addr) - 6:
                    continue
                c = BECH32_ALPHABET.index(addr[pos])
                for d in (1, 16):
                    variants.append(("with character %d changed" % pos, addr[:pos] + BECH32_ALPHABET[c ^ d] + addr[pos + 1:]))
            for what, text in variants:
                if bad_c:
                    break
                m += 1
                try:
                    r = Evaluator(ctx.repo, max_steps=400000).call(spec_d, [text])
                    bad_c = "the %s address %s %s is accepted (decodes to %r): the checksum does not protect the address" % (hrp, addr, what, r)
                except Raised:
                    pass
        n += m
    except Undecided as u:
        return [ctx.err(spec_d, "bech32 codec not evaluable: %s" % u, fn, mod)]
    ctx.count("cells", n)
    out.append(ctx.bad(spec_d, bad_c, fn, mod, key="bech32-cells:corruption") if bad_c else
               ctx.ok(spec_d, "%d corrupted addresses (single-character substitutions in the data part, the other variant's checksum constant) are refused" % m, fn, mod, key="bech32-cells:corruption"))
    out.append(ctx.bad(spec_d, bad_d, fn, mod, key="bech32-cells:decode") if bad_d else
               ctx.ok(spec_d, "%d (hrp, version, length, pattern) cells: reference addresses of 2..40-byte programs decode exactly, other lengths are refused" % n, fn, mod, key="bech32-cells:decode"))
    out.append(ctx.bad(spec_e, bad_e, fn_e, mod_e, key="bech32-cells:encode") if bad_e else
               ctx.ok(spec_e, "the encoder equals the BIP173/BIP350 reference on every (hrp, version, length, pattern) cell", fn_e, mod_e, key="bech32-cells:encode"))
    return out


def c09_15(ctx):
    if not hasattr(ctx, "_c09_15"):
        ctx._c09_15 = _c09_15(ctx)
    return ctx._c09_15


def _c09_15(ctx):
    """Base58Check evaluated on directed payload cells -- the property's payload lengths 0..82 × shapes chosen at the byte-width boundaries of
    the big-integer conversion: leading-zero runs of 0..3, first non-zero byte 0x01 / 0x80 / 0xff, 0x01 followed by a run of zero bytes (an
    exact power of 256 after the checksum is appended is not reachable by choice, the run is), all-0xff.  encode_base58_checksum must equal
    the rule's own encoder and raw_decode_base58 must return the payload.  Bounded evaluation: a stated set of payloads, not all of them"""
    import hashlib
    from sa.cells import Evaluator, Raised, Undecided
    spec_d, spec_e = "helper:raw_decode_base58", "helper:encode_base58_checksum"
    mod, fn = rl.get(ctx, spec_d)
    mod_e, fn_e = rl.get(ctx, spec_e)

    def ref(raw):
        raw = raw + hashlib.sha256(hashlib.sha256(raw).digest()).digest()[:4]
        num, out = int.from_bytes(raw, "big"), ""
        while num:
            num, r = divmod(num, 58)
            out = BASE58[r] + out
        return "1" * (len(raw) - len(raw.lstrip(b"\x00"))) + out
    payloads = []
    quick = getattr(ctx, "tier", "quick") != "thorough"
    for length in ([0, 1, 2, 3, 4, 5, 8, 9, 12, 13, 16, 20, 21, 24, 25, 33, 34, 37, 78, 79, 82] if quick else list(range(0, 40)) + [64, 74, 78, 82]):
        for zeros in range(0, min(4, length + 1)):
            rest = length - zeros
            shapes = {b"\x01" + bytes(rest - 1), b"\x80" + bytes(rest - 1), b"\xff" * rest, b"\x01" + b"\xa5" * (rest - 1), bytes((91 * i + 7) & 255 or 1 for i in range(rest))} if rest else {b""}
            for sh in shapes:
                payloads.append(bytes(zeros) + sh)
    # payloads whose checksum ends in a zero byte (1 in 256, found by search with the standard library's hash): zero bytes at the END of the
    # encoded bytes must not be counted as leading
    for lead in (b"", b"\x00", b"\x00\x00"):
        i = 0
        while hashlib.sha256(hashlib.sha256(lead + b"\x6f" + i.to_bytes(4, "big")).digest()).digest()[3]:
            i += 1
        payloads.append(lead + b"\x6f" + i.to_bytes(4, "big"))
    bad_d = bad_e = None
    try:
        for pl in payloads:
            want = ref(pl)
            if bad_e is None:
                try:
                    got = Evaluator(ctx.repo, max_steps=400000).call(spec_e, [pl])
                    if got != want:
                        bad_e = "payload %s encodes to %r, Base58Check gives %s" % (pl.hex() or "(empty)", got, want)
                except Raised as x:
                    bad_e = "payload %s: the encoder raises %s" % (pl.hex() or "(empty)", x.name)
            if bad_d is None:
                try:
                    got = Evaluator(ctx.repo, max_steps=400000).call(spec_d, [want])
                    if got != pl:
                        bad_d = "the Base58Check string %s of payload %s decodes to %s" % (want, pl.hex() or "(empty)", got.hex() if isinstance(got, bytes) else got)
                except Raised as x:
                    bad_d = "the correctly checksummed string %s (payload %s) is refused (%s): decoding does not invert encoding there" % (want, pl.hex() or "(empty)", x.name)
    except Undecided as u:
        return [ctx.err(spec_d, "Base58Check codec not evaluable: %s" % u, fn, mod)]
    ctx.count("cells", len(payloads))
    return [ctx.bad(spec_d, bad_d, fn, mod, key="base58-cells:decode") if bad_d else
            ctx.ok(spec_d, "%d directed payloads (%s × leading zeros × width-boundary shapes) decode to themselves" % (len(payloads), "21 lengths between 0 and 82" if quick else "lengths 0..39, 64, 74, 78, 82"), fn, mod, key="base58-cells:decode"),
            ctx.bad(spec_e, bad_e, fn_e, mod_e, key="base58-cells:encode") if bad_e else
            ctx.ok(spec_e, "the encoder equals the rule's own Base58Check on every directed payload", fn_e, mod_e, key="base58-cells:encode")]



def c09_16(ctx):
    """every standard scriptPubKey, whatever its hash / program bytes, parses to its template class (and so has an address): rule shared with C04.17"""
    from rules.C04 import c04_17
    return c04_17(ctx)



def c09_17(ctx):
    """Base58Check extended keys: every SLIP-132 prefix decodes and re-encodes to the same string (rule shared with C08.19)"""
    from rules.C08 import c08_19
    return c08_19(ctx)



OBLIGATIONS = [
    ("C09.17", "CELLS extended key strings (shared C08.19)", c09_17),
    ("C09.16", "CELLS opaque template bytes (shared C04.17)", c09_16),
    ("C09.15", "CELLS base58check", c09_15),
    ("C09.14", "CELLS bech32", c09_14),
    ("C09.13", "SHARED", c09_13),
    ("C09.12", "SET-ORDER", c09_12),
    ("C09.11", "CELLS dispatch", c09_11),
    ("C09.10", "COUNT leading zeros", c09_10),
    ("C09.1", "GUARD", c09_1),
    ("C09.2", "GUARD+RANGE", c09_2),
    ("C09.3", "SIBLING", c09_3),
    ("C09.4", "TABLE", c09_4),
    ("C09.5", "TABLE derived", c09_5),
    ("C09.6", "SIBLING", c09_6),
    ("C09.7", "BITS", c09_7),
    ("C09.8", "MEMO", c09_8),
    ("C09.9", "RANGE coverage", c09_9),
]
FLOORS = {"C09.1": 4, "C09.2": 2, "C09.3": 4, "C09.4": 6, "C09.5": 12, "C09.6": 18, "C09.7": 3}
