"""C10 — PSBT codec and workflow (structural clauses)."""
import ast

from sa import rl
from sa.cfg import cfg_of, reach_ps
from sa.dataflow import call_name, dotted, expand, origins, rd_of
from sa.fold import Folder, Unknown, module_const
from sa.guard import BAD_FALSE, BAD_TRUE, Guard, check_guard, find_guards, loop_iteration_guard
from sa.layout import ReaderExec, WriterExec, fmt_reads, fmt_terms
from sa.loader import AnalysisError, param_names

EXPLANATION = (
    "Static analysis of buidl/psbt.py: the unsigned transaction is written in the format the reader parses; for every BIP174 key type the "
    "value codec emitted by the three serialisers equals the one the three parsers read (layout extraction on both sides, per key type); key-type "
    "constants equal BIP174 and the reader's dispatch set equals the writer's emission set; every dictionary iteration in a serialiser is sorted or "
    "driven by script key order; for each singleton key type the key-length test and the duplicate test dominate the store; validate() rejects "
    "partial signatures that fail check_sig_* and is called by the constructor; final_tx() verifies before returning; the finaliser's signature-count "
    "threshold is the same affine relation in the p2wsh and p2sh arms; combine() refuses different transactions. Not decided: order independence on "
    "all histories, byte-identical re-serialisation on values."
)

BIP174 = {
    "PSBT_MAGIC": b"psbt", "PSBT_SEPARATOR": b"\xff", "PSBT_DELIMITER": b"\x00",
    "PSBT_GLOBAL_UNSIGNED_TX": b"\x00", "PSBT_GLOBAL_XPUB": b"\x01",
    "PSBT_IN_NON_WITNESS_UTXO": b"\x00", "PSBT_IN_WITNESS_UTXO": b"\x01", "PSBT_IN_PARTIAL_SIG": b"\x02", "PSBT_IN_SIGHASH_TYPE": b"\x03",
    "PSBT_IN_REDEEM_SCRIPT": b"\x04", "PSBT_IN_WITNESS_SCRIPT": b"\x05", "PSBT_IN_BIP32_DERIVATION": b"\x06", "PSBT_IN_FINAL_SCRIPTSIG": b"\x07",
    "PSBT_IN_FINAL_SCRIPTWITNESS": b"\x08", "PSBT_IN_POR_COMMITMENT": b"\x09",
    "PSBT_OUT_REDEEM_SCRIPT": b"\x00", "PSBT_OUT_WITNESS_SCRIPT": b"\x01", "PSBT_OUT_BIP32_DERIVATION": b"\x02",
}


def _collect_kv(terms, out, conds=()):
    for t in terms:
        if t[0] == "kv":
            out.append((t[1], t[2], conds))
        elif t[0] == "alt":
            _collect_kv(t[2], out, conds + (t[1],))
            _collect_kv(t[3], out, conds + ("not " + t[1],))
        elif t[0] == "repeat":
            _collect_kv(t[3], out, conds + ("for " + t[1],))
        elif t[0] == "nested":
            out.append(([("nested-kv", t[1], t[2])], None, conds))
        elif t[0] == "varstr":
            pass
    return out


def _writer_types(ctx, spec):
    """{type constant name: value term list} for a PSBT map serialiser"""
    mod, fn = rl.get(ctx, spec)
    w = WriterExec(ctx.repo, mod, fn, max_inline=0)
    w.keep_const_names = True
    t = w.run()
    if t is None:
        raise AnalysisError("%s: no result" % spec)
    kvs = _collect_kv(t, [])
    f = Folder(ctx.repo, mod.name)
    consts = {v: k for k, v in BIP174.items()}
    out = {}
    for key_terms, val_terms, conds in kvs:
        if val_terms is None:
            # named_pub.serialize(PREFIX) -> key type from the argument
            nt = key_terms[0]
            meth = nt[1]
            if "(" in meth:
                arg = meth[meth.index("(") + 1:-1]
                out[arg] = ("named", nt[2])
            else:
                out["<nested:%s>" % nt[2]] = ("nested", nt[2])
            continue
        k0 = key_terms[0]
        name = None
        if k0[0] == "bytes":
            name = k0[1]
        elif k0[0] == "const":
            name = k0[1]
        out[name] = ("kv", key_terms, val_terms)
    return mod, fn, out, t


def _reader_arms(ctx, spec):
    """{type constant name: reads in that arm} from the `while key != b''` dispatch loop"""
    mod, fn = rl.get(ctx, spec)
    reads = ReaderExec(ctx.repo, mod, fn).run()
    arms = {}

    def walk(rs):
        for r in rs:
            if r[0] == "repeat":
                walk(r[2])
            elif r[0] == "alt":
                cond = r[1]
                m = None
                try:
                    t = ast.parse(cond, mode="eval").body
                    if isinstance(t, ast.Compare) and isinstance(t.ops[0], ast.Eq) and isinstance(t.left, ast.Name) and isinstance(t.comparators[0], ast.Name):
                        m = t.comparators[0].id
                except SyntaxError:
                    pass
                if m and m.startswith("PSBT_"):
                    arms[m] = [x for x in r[2]]
                    # the else-chain continues in r[3]
                    walk(r[3])
                    if not any(isinstance(x, list) and x and x[0] == "alt" for x in r[3]) and r[3] and "else" not in arms:
                        arms["<else>"] = r[3]
                else:
                    walk(r[2])
                    walk(r[3])
    walk(reads)
    return mod, fn, arms


def _flat_reads(rs):
    out = []
    for r in rs:
        if r[0] == "read":
            out.append(r)
        elif r[0] == "alt":
            # only non-raising sub-reads (e.g. nothing) matter
            out += _flat_reads([x for x in r[2] if x[0] != "raise"]) + _flat_reads([x for x in r[3] if x[0] != "raise"])
        elif r[0] == "repeat":
            out += _flat_reads(r[2])
    return out


def _wclass(val_terms):
    """codec class of a writer value"""
    if len(val_terms) == 1:
        t = val_terms[0]
        if t[0] == "nested":
            m = t[1]
            if m == "raw_serialize":
                return "script-raw"
            if m in ("serialize", "serialize_legacy", "serialize_segwit"):
                return "object:" + m
            return "nested:" + m
        if t[0] == "int":
            return "int%s%s" % (t[1], t[2])
        if t[0] == "bytes":
            return "raw"
    return "other:" + fmt_terms(val_terms)


def _rclass(reads):
    fl = _flat_reads(reads)
    kinds = [(r[1], r[2], r[3]) for r in fl]
    if len(kinds) == 1 and kinds[0][0] == "varstr":
        return "raw"
    if len(kinds) == 1 and kinds[0][0] == "nested" and kinds[0][1].endswith("Script.parse"):
        return "script-raw"
    if len(kinds) == 2 and kinds[0][0] == "varint" and kinds[1][0] == "nested":
        return "object:" + kinds[1][1]
    if len(kinds) == 1 and kinds[0][0] == "nested":
        return "nested:" + kinds[0][1]
    return "other:" + fmt_reads(reads)


COMPAT = {
    ("object:serialize", "object:Tx.parse"), ("object:serialize_legacy", "object:Tx.parse_legacy"), ("object:serialize", "object:TxOut.parse"),
    ("object:serialize", "object:Witness.parse"), ("script-raw", "script-raw"), ("raw", "raw"),
}


def c10_1(ctx):
    """the unsigned transaction is written in the format the reader parses"""
    wm, wf, wt, terms = _writer_types(ctx, "psbt:PSBT.serialize")
    rm, rf, arms = _reader_arms(ctx, "psbt:PSBT.parse")
    w = wt.get("PSBT_GLOBAL_UNSIGNED_TX")
    r = arms.get("PSBT_GLOBAL_UNSIGNED_TX")
    if not w or r is None:
        raise AnalysisError("global unsigned-tx key type not found on both sides (writer %s, reader %s)" % (sorted(map(str, wt)), sorted(arms)))
    wc, rc = _wclass(w[2]), _rclass(r)
    if (wc, rc) in COMPAT:
        return [ctx.ok("psbt:PSBT.serialize↔parse", "unsigned transaction: writer %s, reader %s" % (wc, rc), wf, wm, key="unsigned-tx-format")]
    return [ctx.bad("psbt:PSBT.serialize", "the unsigned transaction is written with `%s` but read back with `%s`: for a transaction object whose segwit flag is set the writer emits the "
                    "marker/flag/witness form, which BIP174 forbids and which the library's own parser misreads" % (wc.split(":")[1], rc.split(":")[1]), wf, wm, key="unsigned-tx-format",
                    detail={"writer": fmt_terms(w[2]), "reader": fmt_reads(r)})]


def c10_2(ctx):
    out = []
    for wspec, rspec in (("psbt:PSBTIn.serialize", "psbt:PSBTIn.parse"), ("psbt:PSBTOut.serialize", "psbt:PSBTOut.parse")):
        wm, wf, wt, terms = _writer_types(ctx, wspec)
        rm, rf, arms = _reader_arms(ctx, rspec)
        ctx.count("layout_terms", len(wt) + len(arms))
        for name in sorted(k for k in wt if isinstance(k, str) and k.startswith("PSBT_")):
            w = wt[name]
            r = arms.get(name)
            k = "%s:%s" % (wspec.split(":")[1].split(".")[0], name)
            if r is None:
                out.append(ctx.bad(wspec, "key type %s is written but the reader has no arm for it" % name, wf, wm, key="codec:" + k))
                continue
            if w[0] == "named":
                rc = _rclass(r)
                if rc == "nested:NamedPublicKey.parse":
                    out.append(ctx.ok(wspec, "%s: NamedPublicKey.serialize ↔ NamedPublicKey.parse" % name, wf, wm, key="codec:" + k))
                else:
                    out.append(ctx.bad(wspec, "%s: written by NamedPublicKey.serialize, read by %s" % (name, rc), wf, wm, key="codec:" + k))
                continue
            wc, rc = _wclass(w[2]), _rclass(r)
            good = (wc, rc) in COMPAT
            if wc.startswith("int") and (rc == "raw" or rc.startswith("other:") and "varstr" in rc):
                # integer written with fixed width, read as little-endian integer of the whole value
                fl = _flat_reads(r)
                good = len(fl) == 1 and fl[0][1] == "varstr" and wc.endswith("LE") and _int_wrap(rf, "little_endian_to_int")
            if good:
                out.append(ctx.ok(wspec, "%s: value written as %s, read as %s" % (name, wc, rc), wf, wm, key="codec:" + k))
            else:
                out.append(ctx.bad(wspec, "%s: value written as %s but read as %s" % (name, wc, rc), wf, wm, key="codec:" + k, detail={"writer": fmt_terms(w[2]), "reader": fmt_reads(r)}))
        # unknown keys pass through: reader else-arm stores read_varstr, writer emits varstr(key) ‖ varstr(value)
        extra_ok = any(t[0] == "repeat" and "extra_map" in t[1] for t in terms)
        out.append(ctx.ok(wspec, "unknown key-value pairs are re-emitted from extra_map", wf, wm, key="extra:" + wspec) if extra_ok else
                   ctx.bad(wspec, "unknown key-value pairs (extra_map) are not re-emitted", wf, wm, key="extra:" + wspec))
    # NamedPublicKey / NamedHDPublicKey codec
    mod, fn = rl.get(ctx, "psbt:NamedPublicKey.serialize")
    t = WriterExec(ctx.repo, mod, fn, max_inline=0).run()
    txt = fmt_terms(t or [])
    if txt == "kv{bytes(prefix) ‖ self.sec => bytes(self.raw_path)}":
        out.append(ctx.ok("psbt:NamedPublicKey.serialize", "key = type ‖ 33-byte sec, value = fingerprint ‖ path", fn, mod, key="named-pub-ser"))
    else:
        out.append(ctx.bad("psbt:NamedPublicKey.serialize", "layout %s, BIP174: key = type ‖ pubkey, value = fingerprint ‖ path" % txt, fn, mod, key="named-pub-ser"))
    mod, fn = rl.get(ctx, "psbt:NamedPublicKey.parse")
    src = ast.unparse(fn)
    if "key[1:]" in src and "read_varstr(s)" in src:
        out.append(ctx.ok("psbt:NamedPublicKey.parse", "pubkey = key[1:], path data = value", fn, mod, key="named-pub-parse"))
    else:
        out.append(ctx.err("psbt:NamedPublicKey.parse", "idiom not recognised: pubkey from key[1:], path data from the value", fn, mod))
    mod, fn = rl.get(ctx, "psbt:NamedHDPublicKey.serialize")
    t = WriterExec(ctx.repo, mod, fn, max_inline=0).run()
    txt = fmt_terms(t or [])
    if txt == "kv{const(01) ‖ self.raw_serialize => bytes(self.raw_path)}":
        out.append(ctx.ok("psbt:NamedHDPublicKey.serialize", "key = 01 ‖ 78-byte xpub, value = fingerprint ‖ path", fn, mod, key="named-hd-ser"))
    else:
        out.append(ctx.bad("psbt:NamedHDPublicKey.serialize", "layout %s, BIP174: key = 01 ‖ xpub, value = fingerprint ‖ path" % txt, fn, mod, key="named-hd-ser"))
    return out


def _int_wrap(fn, name):
    return any(isinstance(c, ast.Call) and call_name(c) == name and c.args and isinstance(c.args[0], ast.Call) and call_name(c.args[0]) == "read_varstr" for c in ast.walk(fn))


def c10_3(ctx):
    out = []
    for name, v in sorted(BIP174.items()):
        out.append(rl.const_eq(ctx, "psbt", name, v, "BIP174"))
    for wspec, rspec, prefix in (("psbt:PSBT.serialize", "psbt:PSBT.parse", "PSBT_GLOBAL_"), ("psbt:PSBTIn.serialize", "psbt:PSBTIn.parse", "PSBT_IN_"), ("psbt:PSBTOut.serialize", "psbt:PSBTOut.parse", "PSBT_OUT_")):
        wm, wf, wt, _ = _writer_types(ctx, wspec)
        rm, rf, arms = _reader_arms(ctx, rspec)
        wset = {k for k in wt if isinstance(k, str) and k.startswith(prefix)}
        if prefix == "PSBT_GLOBAL_":
            wset.add("PSBT_GLOBAL_XPUB") if any("hd_pub" in str(k) for k in wt) else None
        rset = {k for k in arms if k.startswith(prefix)}
        if wset == rset:
            out.append(ctx.ok(wspec + "↔" + rspec.split(":")[1], "reader dispatches exactly the %d key types the writer emits" % len(wset), wf, wm, key="typeset:" + prefix))
        else:
            out.append(ctx.bad(wspec + "↔" + rspec.split(":")[1], "writer emits %s, reader dispatches %s" % (sorted(wset), sorted(rset)), wf, wm, key="typeset:" + prefix))
    return out


def _dict_attrs(repo, modname, cls):
    m = repo.module(modname)
    init = m.functions.get(cls + ".__init__")
    out = set()
    if init is None:
        return out
    for st in ast.walk(init):
        if isinstance(st, ast.Assign) and isinstance(st.targets[0], ast.Attribute) and dotted(st.targets[0].value) == "self":
            v = st.value
            if isinstance(v, ast.Dict) or (isinstance(v, ast.BoolOp) and isinstance(v.op, ast.Or) and isinstance(v.values[-1], ast.Dict)):
                out.add(st.targets[0].attr)
    return out


def c10_4(ctx):
    """ORDER: dict iteration in serialisers is sorted or script-driven"""
    out = []
    for spec, cls in (("psbt:PSBT.serialize", "PSBT"), ("psbt:PSBTIn.serialize", "PSBTIn"), ("psbt:PSBTOut.serialize", "PSBTOut")):
        mod, fn = rl.get(ctx, spec)
        dicts = _dict_attrs(ctx.repo, "psbt", cls)
        cfg = cfg_of(fn)
        rd = rd_of(fn)
        n_loops = 0
        for lp in cfg.loops.values():
            if not isinstance(lp.stmt, ast.For):
                continue
            n_loops += 1
            it = lp.stmt.iter
            verdict = _iter_order(fn, lp.test_nodes[0], it, dicts, rd, cfg)
            if verdict is True:
                out.append(ctx.ok(spec, "`for … in %s` has a history-independent order" % ast.unparse(it), lp.stmt, mod, key="order:%s:%s" % (cls, ast.unparse(it))))
            elif verdict is None:
                out.append(ctx.err(spec, "iteration order of `%s` not classified" % ast.unparse(it), lp.stmt, mod))
            else:
                out.append(ctx.bad(spec, "`for … in %s` iterates a dictionary in insertion order: the bytes depend on the order in which signers / updaters added entries" % ast.unparse(it),
                                   lp.stmt, mod, key="order:%s:%s" % (cls, ast.unparse(it))))
        if not n_loops:
            raise AnalysisError("%s: no loops found" % spec)
    return out


def _iter_order(fn, nid, it, dicts, rd, cfg, depth=0):
    if isinstance(it, ast.Call) and call_name(it) == "sorted":
        return True
    if isinstance(it, (ast.ListComp, ast.GeneratorExp)) and depth < 3:
        # a comprehension lists its elements in the order of what it iterates over
        vs = [_iter_order(fn, nid, g.iter, dicts, rd, cfg, depth + 1) for g in it.generators]
        return False if any(x is False for x in vs) else (None if any(x is None for x in vs) else True)
    if isinstance(it, ast.Constant) or (isinstance(it, (ast.Tuple, ast.List)) and it.elts):
        return True  # a literal has one order (and None cannot be iterated at all): nothing depends on insertion history
    if isinstance(it, ast.Attribute):
        d = dotted(it) or ""
        if d.endswith(".commands") or d in ("self.psbt_ins", "self.psbt_outs"):
            return True
        if it.attr in dicts:
            return False
        return None
    if isinstance(it, ast.Call) and isinstance(it.func, ast.Attribute) and it.func.attr in ("keys", "values", "items"):
        d = dotted(it.func.value) or ""
        if d.startswith("self.") and d.split(".")[1] in dicts:
            return False
        return None
    if isinstance(it, ast.Name) and depth < 3:
        # every reaching definition must be ordered: [] filled in an ordered loop, or sorted(...)
        ds = rd.reaching(nid, it.id)
        if not ds:
            return None
        verdicts = []
        for d in ds:
            g = rd.gen.get(d, {}).get(it.id)
            if not g or g[0] != "val":
                return None
            v = g[1]
            if isinstance(v, ast.List) and not v.elts:
                # appends happen inside loops: all those loops must be ordered
                for lp in cfg.loops.values():
                    if isinstance(lp.stmt, ast.For) and any(isinstance(c, ast.Call) and call_name(c) == "append" and dotted(c.func.value) == it.id for c in ast.walk(lp.stmt)):
                        verdicts.append(_iter_order(fn, lp.test_nodes[0], lp.stmt.iter, dicts, rd, cfg, depth + 1))
            else:
                verdicts.append(_iter_order(fn, d, v, dicts, rd, cfg, depth + 1))
        # one filling loop over an unsorted dictionary is enough for a history-dependent order (a positive reason); otherwise undecided wins over ordered
        if any(x is False for x in verdicts):
            return False
        if any(x is None for x in verdicts):
            return None
        return True
    return None


SINGLETONS = {
    "psbt:PSBT.parse": ["PSBT_GLOBAL_UNSIGNED_TX"],
    "psbt:PSBTIn.parse": ["PSBT_IN_NON_WITNESS_UTXO", "PSBT_IN_WITNESS_UTXO", "PSBT_IN_SIGHASH_TYPE", "PSBT_IN_REDEEM_SCRIPT", "PSBT_IN_WITNESS_SCRIPT",
                          "PSBT_IN_FINAL_SCRIPTSIG", "PSBT_IN_FINAL_SCRIPTWITNESS"],
    "psbt:PSBTOut.parse": ["PSBT_OUT_REDEEM_SCRIPT", "PSBT_OUT_WITNESS_SCRIPT"],
}


def c10_5(ctx):
    out = []
    for spec, types in SINGLETONS.items():
        mod, fn = rl.get(ctx, spec)
        cfg = cfg_of(fn)
        # constructor arguments: locals that end up in cls(...)
        ctor_names = set()
        for n in cfg.returns():
            if n.ast is not None and isinstance(n.ast.value, ast.Call):
                ctor_names |= {x.id for x in ast.walk(n.ast.value) if isinstance(x, ast.Name)}
        for tname in types:
            arm = [n for n in cfg.tests() if isinstance(n.ast, ast.Compare) and isinstance(n.ast.ops[0], ast.Eq) and isinstance(n.ast.comparators[0], ast.Name)
                   and n.ast.comparators[0].id == tname]
            if not arm:
                out.append(ctx.err(spec, "arm for %s not found" % tname, fn, mod))
                continue
            a = arm[0]
            # arm nodes: reachable from the True edge before the next `key = read_varstr(s)` at loop level
            head = a.loops[-1] if a.loops else None
            end = _arm_end(cfg, a)
            body = cfg.reach([b for b, l in cfg.succ[a.id] if l is True], blocked={head} if head is not None else set())
            body = {i for i in body if a.lineno <= cfg.nodes[i].lineno < end}
            stores = [cfg.nodes[i] for i in sorted(body) if cfg.nodes[i].kind == "stmt" and isinstance(cfg.nodes[i].ast, ast.Assign) and isinstance(cfg.nodes[i].ast.targets[0], ast.Name)
                      and cfg.nodes[i].ast.targets[0].id in ctor_names and cfg.nodes[i].ast.targets[0].id not in ("key",) and cfg.nodes[i].lineno < _arm_end(cfg, a)]
            if not stores:
                out.append(ctx.err(spec, "%s: store of the parsed value not found" % tname, a.ast, mod))
                continue
            store = stores[0]
            var = store.ast.targets[0].id

            def m_len(node, ex, atoms):
                t = node.ast
                if isinstance(t, ast.Compare) and len(t.ops) == 1 and isinstance(t.left, ast.Call) and call_name(t.left) == "len" and dotted(t.left.args[0]) == "key" \
                        and isinstance(t.comparators[0], ast.Constant) and t.comparators[0].value == 1 and node.id in body:
                    return BAD_TRUE if isinstance(t.ops[0], ast.NotEq) else (BAD_FALSE if isinstance(t.ops[0], ast.Eq) else None)
                return None

            def m_dup(node, ex, atoms, var=var):
                t = node.ast
                if node.id not in body:
                    return None
                if isinstance(t, ast.Name) and t.id == var:
                    return BAD_TRUE
                if isinstance(t, ast.Compare) and isinstance(t.left, ast.Name) and t.left.id == var and isinstance(t.comparators[0], ast.Constant) and t.comparators[0].value is None:
                    return BAD_TRUE if isinstance(t.ops[0], ast.IsNot) else BAD_FALSE
                return None
            for match, what, k in ((m_len, "key length must be 1", "keylen"), (m_dup, "duplicate key is rejected", "dup")):
                gs = find_guards(mod, fn, match)
                ok, msg, wit = check_guard(mod, fn, gs, [store.id], sources=[(a.id, True)])
                key = "%s:%s" % (k, tname)
                if ok:
                    out.append(ctx.ok(spec, "%s: %s before `%s` is stored" % (tname, what, var), store.ast, mod, key=key))
                else:
                    out.append(ctx.bad(spec, "%s: the parsed value is stored in `%s` although %s is not enforced on that path (%s)" % (tname, var, what, wit), store.ast, mod, key=key))
    return out


def _arm_end(cfg, a):
    later = [n.lineno for n in cfg.tests() if n.lineno > a.lineno and isinstance(n.ast, ast.Compare) and isinstance(n.ast.comparators[0], ast.Name)
             and n.ast.comparators[0].id.startswith("PSBT_")]
    return min(later) if later else 10 ** 9


def c10_6(ctx):
    spec = "psbt:PSBT.validate"
    mod, fn = rl.get(ctx, spec)
    cfg = cfg_of(fn)
    out = []
    gs = [Guard(n, BAD_FALSE) for n in cfg.tests() if isinstance(n.ast, ast.Call) and call_name(n.ast) in ("check_sig_segwit", "check_sig_legacy")]
    if len(gs) < 2:
        out.append(ctx.bad(spec, "partial signatures are not verified with both check_sig_segwit and check_sig_legacy (found %d check(s))" % len(gs), fn, mod, key="sig-checks"))
        return out
    lp = cfg.loops[gs[0].node.loops[-1]]
    # paths with no UTXO information are exempt: False edge of the `psbt_in.prev_tx` truthiness test inside the loop
    exempt = set()
    for n in cfg.tests():
        if lp.head in n.loops and dotted(n.ast) and dotted(n.ast).endswith(".prev_tx"):
            exempt.add((n.id, False))
    removed = {(g.node.id, g.pass_label) for g in gs} | exempt
    starts = []
    for a, label in lp.body_entry:
        starts += [b for b, l in cfg.succ[a] if l == label]
    r = cfg.reach(starts, removed=removed, within=set(lp.body) | {lp.head})
    if lp.head in r:
        p = cfg.path(starts, [lp.head], removed=removed)
        out.append(ctx.bad(spec, "a partial signature with a known UTXO can pass validation without a successful check_sig_*: %s" % cfg.fmt_path(p or []), lp.stmt, mod, key="sig-checks"))
    else:
        out.append(ctx.ok(spec, "every partial signature with a known UTXO must pass check_sig_segwit / check_sig_legacy (failure raises)", lp.stmt, mod, key="sig-checks"))
    # each failing edge raises
    for g in gs:
        succ = [b for b, l in cfg.succ[g.node.id] if l is False]
        if all(cfg.nodes[b].kind == "raise" for b in succ):
            out.append(ctx.ok(spec, "%s false ⇒ raise" % call_name(g.node.ast), g.node.ast, mod, key="raise:" + call_name(g.node.ast)))
        else:
            out.append(ctx.bad(spec, "%s false does not raise" % call_name(g.node.ast), g.node.ast, mod, key="raise:" + call_name(g.node.ast)))
    # the signature checked is sig[:-1] of that key under that point
    # constructor validates, parse goes through the constructor
    imod, init = rl.get(ctx, "psbt:PSBT.__init__")
    if any(isinstance(c, ast.Call) and call_name(c) == "validate" and dotted(c.func.value) == "self" for c in ast.walk(init)):
        out.append(ctx.ok("psbt:PSBT.__init__", "the constructor calls validate()", init, imod, key="ctor-validate"))
    else:
        out.append(ctx.bad("psbt:PSBT.__init__", "the constructor does not call validate(): a parsed PSBT with bad partial signatures is accepted", init, imod, key="ctor-validate"))
    pmod, pfn = rl.get(ctx, "psbt:PSBT.parse")
    rets = [n for n in cfg_of(pfn).returns() if n.ast is not None]
    if rets and all(isinstance(n.ast.value, ast.Call) and isinstance(n.ast.value.func, ast.Name) and n.ast.value.func.id == "cls" for n in rets):
        out.append(ctx.ok("psbt:PSBT.parse", "parse returns through the validating constructor", pfn, pmod, key="parse-ctor"))
    else:
        out.append(ctx.bad("psbt:PSBT.parse", "parse does not return through the constructor", pfn, pmod, key="parse-ctor"))
    for cspec in ("psbt:PSBTIn.__init__", "psbt:PSBTOut.__init__"):
        imod, init = rl.get(ctx, cspec)
        if any(isinstance(c, ast.Call) and call_name(c) == "validate" and dotted(c.func.value) == "self" for c in ast.walk(init)):
            out.append(ctx.ok(cspec, "the constructor calls validate()", init, imod, key="ctor-validate:" + cspec))
        else:
            out.append(ctx.bad(cspec, "the constructor does not call validate()", init, imod, key="ctor-validate:" + cspec))
    return out


def c10_7(ctx):
    def match(node, ex, atoms):
        t = node.ast
        if isinstance(t, ast.Call) and call_name(t) == "verify":
            return BAD_FALSE
        return None
    return [rl.guard(ctx, "psbt:PSBT.final_tx", match, what="final_tx() returns only a transaction that verifies", key="verify-before-return")]


def _affine(e, base_pred):
    """e as (base text, const) when e = base ± c"""
    if base_pred(e):
        return ast.unparse(e), 0
    if isinstance(e, ast.BinOp) and isinstance(e.op, (ast.Add, ast.Sub)) and isinstance(e.right, ast.Constant) and isinstance(e.right.value, int):
        a = _affine(e.left, base_pred)
        if a:
            return a[0], a[1] + (e.right.value if isinstance(e.op, ast.Add) else -e.right.value)
    return None


def c10_8(ctx):
    """finalize(): collected-signature count threshold in the p2wsh and p2sh arms"""
    spec = "psbt:PSBTIn.finalize"
    mod, fn = rl.get(ctx, spec)
    cfg = cfg_of(fn)
    out = []
    # lists seeded with a dummy element
    seeds = {}
    for n in cfg.stmts(("stmt",)):
        a = n.ast
        if isinstance(a, ast.Assign) and isinstance(a.targets[0], ast.Name) and isinstance(a.value, ast.List) and len(a.value.elts) >= 1 and all(isinstance(e, ast.Constant) for e in a.value.elts):
            seeds[a.targets[0].id] = len(a.value.elts)
    if len(seeds) < 2:
        raise AnalysisError("finalize: seeded signature lists not found (%s)" % seeds)
    seen = 0
    for n in cfg.tests():
        t = n.ast
        if not (isinstance(t, ast.Compare) and len(t.ops) == 1 and isinstance(t.ops[0], (ast.Lt, ast.LtE))):
            continue
        la = _affine(t.left, lambda e: isinstance(e, ast.Call) and call_name(e) == "len" and isinstance(e.args[0], ast.Name) and e.args[0].id in seeds)
        ra = _affine(t.comparators[0], lambda e: isinstance(e, ast.Name) and e.id == "num_sigs")
        if not la or not ra:
            continue
        # must lead to raise
        succ = [b for b, l in cfg.succ[n.id] if l is True]
        if not all(cfg.nodes[b].kind == "raise" for b in succ):
            continue
        seen += 1
        lst = la[0][4:-1]
        seed = seeds[lst]
        # condition: len + a (<|<=) m + b  ⇔  (len - seed) < m + (b - a - seed) [+1 for <=]
        slack = ra[1] - la[1] - seed + (1 if isinstance(t.ops[0], ast.LtE) else 0)
        if slack == 0:
            out.append(ctx.ok(spec, "`%s` raises exactly when fewer than num_sigs signatures were collected (`%s` starts with %d dummy element)" % (ast.unparse(t), lst, seed), t, mod, key="threshold:" + lst))
        else:
            out.append(ctx.bad(spec, "`%s`: `%s` starts with %d dummy element(s), so this test passes with only num_sigs%+d collected signature(s); the sibling arm compares "
                               "len(list) - 1 with num_sigs" % (ast.unparse(t), lst, seed, slack), t, mod, key="threshold:" + lst))
    if seen < 2:
        out.append(ctx.err(spec, "expected a collected-signature threshold test in both multisig arms, found %d" % seen, fn, mod))
    # the early test on the number of partial signatures present: finalisation is refused exactly when fewer than m are there
    # ("at least the required number of signers": m+1 signatures of an m-of-n wallet must still finalise)
    early = 0
    for n in cfg.tests():
        r = rl.rel(n.ast, lambda e: ast.unparse(e) == "len(self.sigs)", lambda e: isinstance(e, ast.Name) and e.id == "num_sigs")
        if r is None:
            continue
        t_succ = [b for b, l in cfg.succ[n.id] if l is True]
        f_succ = [b for b, l in cfg.succ[n.id] if l is False]
        raises_t = bool(t_succ) and all(cfg.nodes[b].kind == "raise" for b in t_succ)
        raises_f = bool(f_succ) and all(cfg.nodes[b].kind == "raise" for b in f_succ)
        if not (raises_t or raises_f):
            continue
        early += 1
        refuse = r if raises_t else {"<": ">=", "<=": ">", ">": "<=", ">=": "<", "==": "!=", "!=": "=="}[r]
        if refuse == "<":
            out.append(ctx.ok(spec, "`%s`: finalisation is refused exactly when fewer than num_sigs partial signatures are present" % ast.unparse(n.ast), n.ast, mod,
                              key="enough-sigs:%d" % early))
        else:
            out.append(ctx.bad(spec, "`%s` refuses finalisation when len(self.sigs) %s num_sigs: %s" % (
                ast.unparse(n.ast), refuse, "an input signed by more than m cosigners (all three of a 2-of-3) cannot be finalised" if refuse in ("!=", ">", ">=")
                else "the boundary differs from `fewer than m`"), n.ast, mod, key="enough-sigs:%d" % early))
    if early < 2:
        out.append(ctx.err(spec, "expected a test of len(self.sigs) against num_sigs in both multisig arms, found %d" % early, fn, mod))
    return out


def c10_9(ctx):
    spec = "psbt:PSBT.combine"
    mod, fn = rl.get(ctx, spec)

    def match(node, ex, atoms):
        t = node.ast
        if isinstance(t, ast.Compare) and len(t.ops) == 1 and isinstance(t.ops[0], (ast.Eq, ast.NotEq)):
            l, r = ast.unparse(t.left), ast.unparse(t.comparators[0])
            if {l.replace("other", "self"), r.replace("other", "self")} <= {"self.tx_obj.hash()", "self.tx_obj.id()"} and l != r:
                return BAD_TRUE if isinstance(t.ops[0], ast.NotEq) else BAD_FALSE
        return None

    def targets(m, f):
        return [n for n in cfg_of(f).stmts(("stmt", "for")) if not (isinstance(n.ast, ast.Expr) and isinstance(n.ast.value, ast.Constant))]
    return [rl.guard(ctx, spec, match, targets=targets, what="PSBTs of different transactions are refused before anything is merged", key="same-tx")]


def c10_10(ctx):
    """Every signer signs every input it has a key for: the loops over the inputs (and over the keys) in the signing
    entry points run to completion — no `break`, no `return` inside — so a key that unlocks several inputs signs all of
    them (otherwise m signers can never finalise a multi-input transaction)."""
    out = []
    for spec in ("psbt:PSBT.sign", "psbt:PSBT.sign_with_private_keys"):
        mod, fn = rl.get(ctx, spec)
        cfg = cfg_of(fn)
        loops = [lp for lp in cfg.loops.values() if isinstance(lp.stmt, ast.For)]
        seen = 0
        for lp in loops:
            it = ast.unparse(lp.stmt.iter)
            if not ("psbt_ins" in it or "private_keys" in it or "named_pubs" in it):
                continue
            seen += 1
            early = [n for n in cfg.nodes if n.id in lp.body and n.kind == "return"]
            brk = [s for s in ast.walk(lp.stmt) if isinstance(s, ast.Break)]
            # a break belongs to the innermost enclosing loop: only those whose innermost loop is this one
            own = []
            for b in brk:
                inner = [l2 for l2 in loops if l2 is not lp and any(x is b for x in ast.walk(l2.stmt)) and any(x is l2.stmt for x in ast.walk(lp.stmt))]
                if not inner:
                    own.append(b)
            if own or early:
                w = own[0] if own else early[0].ast
                out.append(ctx.bad(spec, "the loop `for %s in %s` is left early at line %d: inputs after the first one a key can sign stay unsigned (a key that unlocks "
                                         "several inputs, e.g. two inputs paying to one address, signs only the first)" % (ast.unparse(lp.stmt.target), it, w.lineno), w, mod,
                                   key="exhaustive:" + it))
            else:
                out.append(ctx.ok(spec, "`for %s in %s` runs to completion (no break / return inside)" % (ast.unparse(lp.stmt.target), it), lp.stmt, mod, key="exhaustive:" + it))
        if not seen:
            raise AnalysisError("%s: no loop over the inputs found" % spec)
        # whether this signer signs an input must not depend on the signatures other signers have already put there: a `continue`
        # (or any skip) taken because enough signatures are present makes the set of signatures, the PSBT bytes and the final
        # transaction depend on who signed first
        for t in cfg.tests():
            if not t.loops:
                continue
            about_sigs = any(isinstance(x, ast.Attribute) and x.attr == "sigs" for x in ast.walk(expand(fn, t.id, t.ast, depth=3)))
            if not about_sigs:
                continue
            skips = [b for b, lab in cfg.succ[t.id] if cfg.nodes[b].kind in ("continue", "break", "return") or
                     (cfg.nodes[b].ast is not None and isinstance(cfg.nodes[b].ast, (ast.Continue, ast.Break)))]
            if skips:
                out.append(ctx.bad(spec, "`%s` skips an input depending on the partial signatures already present: with more than m willing cosigners the signatures kept "
                                         "(and the bytes of the PSBT and of the final transaction) depend on the order in which they sign" % ast.unparse(t.ast), t.ast, mod,
                                   key="sign-independent"))
    return out


def c10_16(ctx):
    """the compact-size codec every PSBT length goes through (shared with C04.3): writer tiles contiguous and minimal, reader agrees"""
    from rules.C04 import c04_3
    return c04_3(ctx)


def c10_12(ctx):
    """PSBTIn.validate, single-key segwit inputs: the hash160 the derivation's public key is compared with is the
    program of the script that actually commits to the key — the ScriptPubKey for a native p2wpkh input, the RedeemScript
    for a p2sh-p2wpkh input (there the ScriptPubKey holds hash160(RedeemScript)).  Otherwise every honest p2sh-p2wpkh
    PSBT carrying a BIP32 derivation is rejected on load and parse(serialize(x)) fails."""
    spec = "psbt:PSBTIn.validate"
    mod, fn = rl.get(ctx, spec)
    cfg = cfg_of(fn)
    out = []
    for n in cfg.tests():
        t = n.ast
        if not (isinstance(t, ast.Compare) and len(t.ops) == 1 and isinstance(t.ops[0], (ast.Eq, ast.NotEq))):
            continue
        lo, ro = origins(fn, n.id, t.left), origins(fn, n.id, t.comparators[0])
        for key_side, other, oexpr in ((lo, ro, t.comparators[0]), (ro, lo, t.left)):
            if "call:hash160" in key_side and any(a.startswith("attr:self.named_pubs") for a in key_side) and "call:hash160" not in other:
                # is this the comparison of the witness (p2wpkh / p2sh-p2wpkh) arm?  the arm is entered through a
                # redeem_script.is_p2wpkh() alternative
                arm = [m_ for m_ in cfg.tests() if isinstance(m_.ast, ast.Call) and call_name(m_.ast) == "is_p2wpkh" and "redeem_script" in ast.unparse(m_.ast)
                       and n.id in cfg.reach([b for b, l in cfg.succ[m_.id] if l is True])]
                if not arm:
                    continue
                from_spk = "attr:script_pubkey.commands" in other
                from_redeem = "attr:self.redeem_script.commands" in other
                if from_spk and from_redeem:
                    out.append(ctx.ok(spec, "the key of a p2wpkh input is compared with the ScriptPubKey program, of a p2sh-p2wpkh input with the RedeemScript program", t, mod, key="p2sh-p2wpkh-key"))
                elif from_spk:
                    out.append(ctx.bad(spec, "`%s` compares the derivation's key with the ScriptPubKey program also for p2sh-p2wpkh inputs, where the ScriptPubKey holds "
                                             "hash160(RedeemScript): every honest p2sh-p2wpkh PSBT with a BIP32 derivation is rejected, the library cannot parse the PSBT it "
                                             "serialised" % ast.unparse(t), t, mod, key="p2sh-p2wpkh-key"))
                else:
                    out.append(ctx.err(spec, "source of the compared hash160 `%s` not recognised" % ast.unparse(oexpr), t, mod))
    if not out:
        raise AnalysisError("PSBTIn.validate: comparison of the named pubkey's hash160 in the p2wpkh / p2sh-p2wpkh arm not found")
    return out


def c10_11(ctx):
    """no validation / signing result of the PSBT layer is remembered under a key that leaves out one of its inputs"""
    from sa.memo import cache_obligation
    return cache_obligation(ctx, ["psbt", "psbt_helper", "tx", "script"], "a PSBT field validated once would be accepted with other contents")


def c10_13(ctx):
    """INDEPENDENCE of the field merges in PSBTIn.combine / PSBTOut.combine: whether a field of `other` is merged into `self`
    may depend on that field only.  A merge that is skipped because of the state of a *different* field (an early return for
    inputs that are already finalised, say) makes A.combine(B) and B.combine(A) keep different data"""
    out = []
    for spec in ("psbt:PSBTIn.combine", "psbt:PSBTOut.combine"):
        mod, fn = rl.get(ctx, spec)
        cfg = cfg_of(fn)
        ps = param_names(fn)
        me, other = ps[0], ps[1]

        def fields(node):
            return {x.attr for x in ast.walk(node) if isinstance(x, ast.Attribute) and isinstance(x.value, ast.Name) and x.value.id in (me, other)}
        stores = []
        for n in cfg.stmts(("stmt",)):
            a = n.ast
            tg = None
            if isinstance(a, ast.Assign):
                tg = [t for t in a.targets if isinstance(t, ast.Attribute) and isinstance(t.value, ast.Name) and t.value.id == me]
            elif isinstance(a, ast.AugAssign) and isinstance(a.target, ast.Attribute) and isinstance(a.target.value, ast.Name) and a.target.value.id == me:
                tg = [a.target]
            elif isinstance(a, ast.Expr) and isinstance(a.value, ast.Call) and isinstance(a.value.func, ast.Attribute) and a.value.func.attr in ("update", "extend", "append") \
                    and isinstance(a.value.func.value, ast.Attribute) and isinstance(a.value.func.value.value, ast.Name) and a.value.func.value.value.id == me:
                tg = [a.value.func.value]
            if tg:
                stores.append((n, tg[0].attr))
        if len(stores) < 3:
            out.append(ctx.err(spec, "field merges not recognised (%d found)" % len(stores), fn, mod))
            continue
        all_nodes = cfg.reach([cfg.entry])
        bad = None
        for t in cfg.tests():
            ft = fields(t.ast)
            for lab in (True, False):
                r = cfg.reach([cfg.entry], removed={(t.id, lab)})
                for n, f in stores:
                    if n.id in all_nodes and n.id not in r and ft and f not in ft:
                        bad = (t, n, f, ft)
                        break
                if bad:
                    break
            if bad:
                break
        ctx.count("call_sites", len(stores))
        if bad:
            t, n, f, ft = bad
            out.append(ctx.bad(spec, "the merge of `%s` (line %d) only happens depending on `%s`, a test about %s: combining in the other order keeps different fields, so the "
                                     "combined PSBT depends on the order of combination" % (f, n.lineno, ast.unparse(t.ast), sorted(ft)), t.ast, mod, key="merge-independent"))
        else:
            out.append(ctx.ok(spec, "each of the %d field merges depends on its own field only" % len(stores), fn, mod, key="merge-independent"))
    return out


def c10_15(ctx):
    """INDEPENDENCE of the emitted records: in PSBTIn / PSBTOut / PSBT.serialize, whether the record of a field is written may
    depend on that field only.  A record that is skipped because *another* field is present (`elif`) is lost on the way out, and
    what was parsed is not what is serialised"""
    out = []
    for spec in ("psbt:PSBTIn.serialize", "psbt:PSBTOut.serialize", "psbt:PSBT.serialize"):
        mod, fn = rl.get(ctx, spec)
        cfg = cfg_of(fn)

        def fields(node):
            return {x.attr for x in ast.walk(node) if isinstance(x, ast.Attribute) and isinstance(x.value, ast.Name) and x.value.id == "self"}
        stores = []
        for n in cfg.stmts(("stmt",)):
            a = n.ast
            if isinstance(a, ast.AugAssign) and isinstance(a.target, ast.Name):
                fs = fields(a.value)
                if fs:
                    stores.append((n, fs))
        if len(stores) < 2:
            out.append(ctx.err(spec, "emission statements not recognised (%d found)" % len(stores), fn, mod))
            continue
        ctx.count("call_sites", len(stores))
        alln = cfg.reach([cfg.entry])
        hits = []
        for t in cfg.tests():
            ft = fields(t.ast)
            if not ft:
                continue
            for lab in (True, False):
                rr = cfg.reach([cfg.entry], removed={(t.id, lab)})
                for n, fs in stores:
                    if n.id in alln and n.id not in rr and not (ft & fs):
                        hits.append((t, n, fs, ft))
        seen = set()
        for t, n, fs, ft in hits:
            k = (tuple(sorted(fs)), tuple(sorted(ft)))
            if k in seen:
                continue
            seen.add(k)
            out.append(ctx.bad(spec, "the record of `%s` (line %d) is only written depending on `%s`, a test about %s: when both are present it is dropped, so the bytes "
                                     "written are not the PSBT that was parsed / built" % ("/".join(sorted(fs)), n.lineno, ast.unparse(t.ast), sorted(ft)), n.ast, mod,
                               key="emit-independent:%s<-%s" % ("+".join(sorted(fs)), "+".join(sorted(ft)))))
        if not hits:
            out.append(ctx.ok(spec, "each of the %d emitted records depends on its own field only" % len(stores), fn, mod, key="emit-independent"))
    return out


def c10_14(ctx):
    """OWNERSHIP: extraction fills scriptSigs / witnesses into a *copy* of the PSBT's unsigned transaction.
    (a) PSBT.final_tx mutates the inputs of `self.tx_obj.clone()`, never of self.tx_obj itself;
    (b) Tx.clone is deep: the copy shares no TxIn / TxOut object with the original (round trip through serialise / parse, or
        element-wise clones) -- a shallow copy of the input list hands the same TxIn objects to both transactions, so the
        PSBT's embedded transaction acquires the final scriptSigs and is no longer a valid unsigned transaction"""
    out = []
    spec = "psbt:PSBT.final_tx"
    mod, fn = rl.get(ctx, spec)
    cfg = cfg_of(fn)
    loops = [lp for lp in cfg.loops.values() if isinstance(lp.stmt, ast.For)]
    src = None
    for lp in loops:
        for x in ast.walk(lp.stmt.iter):
            if isinstance(x, ast.Attribute) and x.attr == "tx_ins" and isinstance(x.value, ast.Name):
                src = (lp, x.value.id)
    if src is None:
        out.append(ctx.err(spec, "the loop that fills in the inputs was not found", fn, mod))
    else:
        lp, name = src
        ex = expand(fn, lp.test_nodes[0] if getattr(lp, "test_nodes", None) else lp.head, ast.Name(id=name, ctx=ast.Load()))
        if isinstance(ex, ast.Call) and call_name(ex) in ("clone", "deepcopy"):
            out.append(ctx.ok(spec, "the transaction being filled in is `%s`" % ast.unparse(ex), lp.stmt, mod, key="final-own-copy"))
        elif isinstance(ex, ast.Attribute) and ast.unparse(ex) == "self.tx_obj":
            out.append(ctx.bad(spec, "the inputs of self.tx_obj itself are filled in: the PSBT's unsigned transaction gets scriptSigs", lp.stmt, mod, key="final-own-copy"))
        else:
            out.append(ctx.err(spec, "where the filled-in transaction comes from is not recognised: `%s`" % ast.unparse(ex)[:80], lp.stmt, mod))
    spec = "tx:Tx.clone"
    mod, fn = rl.get(ctx, spec)
    cfg = cfg_of(fn)
    rets = [n for n in cfg.returns() if n.ast is not None and n.ast.value is not None]
    if not rets:
        raise AnalysisError("Tx.clone returns nothing")
    for n in rets:
        ex = expand(fn, n.id, n.ast.value, depth=6)
        txt = ast.unparse(ex)
        if isinstance(ex, ast.Call) and call_name(ex) == "parse" and "serialize" in txt:
            out.append(ctx.ok(spec, "the copy is rebuilt from the serialisation (`%s`)" % txt[:70], n.ast, mod, key="clone-deep"))
            continue
        if isinstance(ex, ast.Call) and call_name(ex) == "deepcopy":
            out.append(ctx.ok(spec, "deepcopy", n.ast, mod, key="clone-deep"))
            continue
        shared = []
        if isinstance(ex, ast.Call):
            for a in list(ex.args) + [k.value for k in ex.keywords]:
                b = a
                if isinstance(b, ast.Subscript) and isinstance(b.slice, ast.Slice):
                    b = b.value
                if isinstance(b, ast.Call) and isinstance(b.func, ast.Name) and b.func.id in ("list", "tuple") and len(b.args) == 1:
                    b = b.args[0]
                if isinstance(b, ast.Attribute) and isinstance(b.value, ast.Name) and b.value.id == "self" and b.attr in ("tx_ins", "tx_outs"):
                    shared.append(ast.unparse(a))
        if shared:
            out.append(ctx.bad(spec, "the copy is built from %s: the list may be new but its TxIn / TxOut objects are the original's, so filling in the copy's scriptSigs "
                                     "(PSBT.final_tx) also fills in the original" % ", ".join("`%s`" % x for x in shared), n.ast, mod, key="clone-deep"))
        else:
            out.append(ctx.err(spec, "how the copy is built is not recognised: `%s`" % txt[:80], n.ast, mod))
    return out


def c10_17(ctx):
    """SET-ORDER: no ordered result (list, serialisation, yielded sequence) of the modules this property is anchored in takes its
    order from the iteration order of a set"""
    from sa.setorder import setorder_obligation
    return setorder_obligation(ctx, ["psbt", "psbt_helper", "tx", "script"], "the same inputs give different output from run to run")


def c10_18(ctx):
    """SHARED necessary conditions over the modules this property is anchored in: FALSY-DEFAULT, MUTABLE-DEFAULT, IDENTITY, ALIAS,
    CTOR-FORWARD (sa/shared.py)"""
    from sa.shared import shared_obligations
    return shared_obligations(ctx, ["psbt", "psbt_helper", "tx", "script"], "the result would depend on something other than the arguments and the object's current state")


def c10_19(ctx):
    """PSBTOut.validate accepts, for every wallet type, exactly the metadata the updater attaches to one of the wallet's own outputs
    (RedeemScript / WitnessScript / the key's derivation) and refuses the same output with a foreign key: cell evaluation over
    {p2pkh, p2wpkh, p2sh-p2wpkh, p2sh multisig, p2wsh multisig, p2sh-p2wsh multisig} x {own key, foreign key}; script hashes and the keys'
    hash160 are stand-ins.  An honest output that is refused means the library cannot load the PSBT it has just updated and serialised"""
    import hashlib
    from sa.cells import Evaluator, Obj, Raised, Undecided
    spec = "psbt:PSBTOut.validate"
    mod, fn = rl.get(ctx, spec)
    H = lambda b: hashlib.sha1(b).digest()
    S = lambda b: hashlib.sha256(b).digest()
    K1, K2, K3, KF = (b"\x02" + bytes([i]) * 32 for i in (0x11, 0x22, 0x33, 0x99))

    def ser(cmds):
        return b"|".join(c if isinstance(c, bytes) else bytes([c]) for c in cmds)
    hooks = {("Script", "raw_serialize"): lambda o: ser(o.attrs["commands"]), ("RedeemScript", "hash160"): lambda o: H(ser(o.attrs["commands"])),
             ("WitnessScript", "sha256"): lambda o: S(ser(o.attrs["commands"])), ("NamedPublicKey", "hash160"): lambda o, *a, **k: H(o.attrs["sec"]),
             ("NamedPublicKey", "sec"): lambda o, *a, **k: o.attrs["sec"], ("S256Point", "hash160"): lambda o, *a, **k: H(o.attrs["sec"]),
             ("S256Point", "sec"): lambda o, *a, **k: o.attrs["sec"]}

    def named(sec):
        return Obj("psbt", "NamedPublicKey", {"sec": sec})

    def script(cls, cmds):
        return Obj("script", cls, {"commands": list(cmds)})
    multi = [0x52, K1, K2, K3, 0x53, 0xAE]
    rs_multi, ws_multi = script("RedeemScript", multi), script("WitnessScript", multi)
    rs_wpkh = script("RedeemScript", [0, H(K1)])
    rs_wsh = script("RedeemScript", [0, S(ser(multi))])
    wallets = [
        ("p2pkh", script("P2PKHScriptPubKey", [0x76, 0xA9, H(K1), 0x88, 0xAC]), None, None, [K1]),
        ("p2wpkh", script("P2WPKHScriptPubKey", [0, H(K1)]), None, None, [K1]),
        ("p2sh-p2wpkh", script("P2SHScriptPubKey", [0xA9, H(ser(rs_wpkh.attrs["commands"])), 0x87]), rs_wpkh, None, [K1]),
        ("p2sh multisig", script("P2SHScriptPubKey", [0xA9, H(ser(multi)), 0x87]), rs_multi, None, [K1, K2, K3]),
        ("p2wsh multisig", script("P2WSHScriptPubKey", [0, S(ser(multi))]), None, ws_multi, [K1, K2, K3]),
        ("p2sh-p2wsh multisig", script("P2SHScriptPubKey", [0xA9, H(ser(rs_wsh.attrs["commands"])), 0x87]), rs_wsh, ws_multi, [K1, K2, K3]),
    ]
    out = []
    for label, spk, rs, ws, keys in wallets:
        for foreign in (False, True):
            ctx.count("cells")
            ks = [KF] + keys[1:] if foreign else keys
            me = Obj("psbt", "PSBTOut", {"tx_out": Obj("tx", "TxOut", {"amount": 1000, "script_pubkey": spk}), "redeem_script": rs, "witness_script": ws,
                                         "named_pubs": {k: named(k) for k in ks}, "extra_map": {}})
            try:
                Evaluator(ctx.repo, method_hooks=hooks).call(spec, [], self_obj=me)
                accepted = True
            except Raised:
                accepted = False
            except Undecided as u:
                return [ctx.err(spec, "validate not evaluable for a %s output: %s" % (label, u), fn, mod)]
            if accepted == foreign:
                if foreign:
                    out.append(ctx.bad(spec, "a %s output whose attached derivation names a key that is not committed to by the output is accepted" % label, fn, mod, key="out-metadata:" + label))
                else:
                    out.append(ctx.bad(spec, "a %s output carrying exactly what PSBTOut.update attaches to it (%s its key's derivation) is refused: a PSBT of such a wallet with a change "
                                             "output cannot be loaded again after update + serialize" % (label, "RedeemScript and " if rs and not ws else ("scripts and " if ws else "")),
                                       fn, mod, key="out-metadata:" + label))
                break
        else:
            out.append(ctx.ok(spec, "%s output: the updater's metadata is accepted, a foreign key is refused" % label, fn, mod, key="out-metadata:" + label))
    return out


def _wallet_cells():
    """The six wallet types of the property as stand-in scripts (hashes are stand-ins, scripts serialise to a readable joined form)."""
    import hashlib
    from sa.cells import Obj
    H = lambda b: hashlib.sha1(b).digest()
    S = lambda b: hashlib.sha256(b).digest()
    K = [b"\x02" + bytes([i]) * 32 for i in (0x11, 0x22, 0x33)]

    def ser(cmds):
        return b"|".join(c if isinstance(c, bytes) else bytes([c]) for c in cmds)

    def script(cls, cmds):
        return Obj("script", cls, {"commands": list(cmds)})
    multi = [0x52, K[0], K[1], K[2], 0x53, 0xAE]
    rs_wpkh = script("RedeemScript", [0, H(K[0])])
    rs_wsh = script("RedeemScript", [0, S(ser(multi))])
    wallets = [
        ("p2pkh", script("P2PKHScriptPubKey", [0x76, 0xA9, H(K[0]), 0x88, 0xAC]), None, None, K[:1], 1),
        ("p2wpkh", script("P2WPKHScriptPubKey", [0, H(K[0])]), None, None, K[:1], 1),
        ("p2sh-p2wpkh", script("P2SHScriptPubKey", [0xA9, H(ser(rs_wpkh.attrs["commands"])), 0x87]), rs_wpkh, None, K[:1], 1),
        ("p2sh multisig", script("P2SHScriptPubKey", [0xA9, H(ser(multi)), 0x87]), script("RedeemScript", multi), None, K, 2),
        ("p2wsh multisig", script("P2WSHScriptPubKey", [0, S(ser(multi))]), None, script("WitnessScript", multi), K, 2),
        ("p2sh-p2wsh multisig", script("P2SHScriptPubKey", [0xA9, H(ser(rs_wsh.attrs["commands"])), 0x87]), rs_wsh, script("WitnessScript", multi), K, 2),
    ]
    hooks = {("Script", "raw_serialize"): lambda o: ser(o.attrs["commands"]), ("RedeemScript", "hash160"): lambda o: H(ser(o.attrs["commands"])),
             ("WitnessScript", "sha256"): lambda o: S(ser(o.attrs["commands"]))}
    return wallets, hooks, ser, H, S


def c10_20(ctx):
    """PSBTIn.finalize evaluated for every wallet type of the property × every subset of the wallet's signers × both insertion orders of the
    partial signatures: with at least the required number of signatures the final ScriptSig / witness are exactly the script's own (first m
    signatures in script key order, whatever order they arrived in); with fewer the finaliser refuses AND leaves the input as it was -- a
    refused finalize that has already written script_sig or witness serialises to bytes PSBT.parse rejects"""
    import itertools
    from sa.cells import Evaluator, Obj, Raised, Undecided
    spec = "psbt:PSBTIn.finalize"
    mod, fn = rl.get(ctx, spec)
    wallets, hooks, ser, H, S = _wallet_cells()
    out = []
    for label, spk, rs, ws, keys, m in wallets:
        verdict = None
        for r in range(len(keys) + 1):
            for subset in itertools.combinations(range(len(keys)), r):
                for order in ({subset, tuple(reversed(subset))}):
                    ctx.count("cells")
                    sigs = {keys[i]: b"sig%d" % i for i in order}
                    tx_in = Obj("tx", "TxIn", {"prev_tx": b"\x01" * 32, "prev_index": 0})
                    me = Obj("psbt", "PSBTIn", {"tx_in": tx_in, "prev_tx": None, "prev_out": Obj("tx", "TxOut", {"amount": 1000, "script_pubkey": spk}),
                                                "sigs": sigs, "hash_type": None, "redeem_script": rs, "witness_script": ws, "named_pubs": {}, "script_sig": None,
                                                "witness": None, "extra_map": {}})
                    hk = dict(hooks)
                    hk[("PSBTIn", "script_pubkey")] = lambda o, spk=spk: spk
                    try:
                        Evaluator(ctx.repo, method_hooks=hk).call(spec, [], self_obj=me)
                        raised = None
                    except Raised as x:
                        raised = x.name
                    except Undecided as u:
                        return [ctx.err(spec, "finalize not evaluable for a %s input: %s" % (label, u), fn, mod)]
                    ss, wi = me.attrs.get("script_sig"), me.attrs.get("witness")
                    got_ss = ss.attrs.get("commands") if isinstance(ss, Obj) else ss
                    got_wi = wi.attrs.get("items") if isinstance(wi, Obj) else wi
                    who = "%s input with signatures of signers %s (arrival order %s)" % (label, list(subset), list(order))
                    enough = (len(subset) == 1) if len(keys) == 1 else len(subset) >= m
                    if not enough:
                        if raised is None:
                            verdict = "%s: finalised although %d signature(s) are required" % (who, m)
                        elif got_ss is not None or got_wi is not None:
                            verdict = "%s: finalize refuses (%s) but has already written %s -- the input now serialises with a final field that cannot verify, and PSBT.parse rejects those bytes" % (
                                who, raised, "script_sig" if got_ss is not None else "witness")
                    else:
                        first = [sigs[keys[i]] for i in sorted(subset)][:m]
                        if label == "p2pkh":
                            want_ss, want_wi = [first[0], keys[0]], None
                        elif label in ("p2wpkh", "p2sh-p2wpkh"):
                            want_ss, want_wi = ([ser(rs.attrs["commands"])] if rs else []), [first[0], keys[0]]
                        elif label == "p2sh multisig":
                            want_ss, want_wi = [0] + first + [ser(rs.attrs["commands"])], None
                        else:
                            want_ss, want_wi = ([ser(rs.attrs["commands"])] if rs else []), [b""] + first + [ser(ws.attrs["commands"])]
                        if raised is not None:
                            verdict = "%s: refused (%s) although the required %d signature(s) are present" % (who, raised, m)
                        elif got_ss != want_ss or got_wi != want_wi:
                            verdict = "%s: final %s is not the script's own (first %d signatures in script key order %s)" % (
                                who, "ScriptSig" if got_ss != want_ss else "witness", m, "and the script" if label != "p2pkh" else "and the key")
                    if verdict:
                        break
                if verdict:
                    break
            if verdict:
                break
        out.append(ctx.bad(spec, verdict, fn, mod, key="finalize-cells:" + label) if verdict else
                   ctx.ok(spec, "%s: every signer subset in both arrival orders finalises exactly at the threshold, to the script's own ScriptSig / witness; a refusal leaves the input untouched" % label,
                          fn, mod, key="finalize-cells:" + label))
    return out


def c10_21(ctx):
    """PSBTIn.update evaluated over the three places the spent output can come from (the lookup of previous transactions, the non-witness
    UTXO the input already carries, the witness UTXO it already carries) × the six wallet types: whenever the output is known from any of
    them the updater attaches the wallet's key derivations (and the scripts found in the lookups).  A second updater that brings only its own
    keys relies on the copies already in the PSBT; an input it skips can never be signed by that cosigner"""
    from sa.cells import Evaluator, Obj, Raised, Undecided
    spec = "psbt:PSBTIn.update"
    mod, fn = rl.get(ctx, spec)
    wallets, hooks, ser, H, S = _wallet_cells()
    out = []
    hk = dict(hooks)
    hk[("S256Point", "sec")] = lambda o, *a, **k: o.attrs["sec_"]
    hk[("HDPublicKey", "sec")] = lambda o, *a, **k: o.attrs["sec_"]
    for label, spk, rs, ws, keys, m in wallets:
        segwit = label not in ("p2pkh", "p2sh multisig")
        verdict = None
        for source in ("lookup", "carried non-witness UTXO", "carried witness UTXO"):
            if source == "carried witness UTXO" and not segwit:
                continue
            for scripts_known in (True, False):
                ctx.count("cells")
                txid = b"\x07" * 32
                prev_out = Obj("tx", "TxOut", {"amount": 1000, "script_pubkey": spk})
                prev = Obj("tx", "Tx", {"tx_outs": [Obj("tx", "TxOut", {"amount": 5, "script_pubkey": None}), prev_out]})
                tx_in = Obj("tx", "TxIn", {"prev_tx": txid, "prev_index": 1})
                me = Obj("psbt", "PSBTIn", {"tx_in": tx_in, "prev_tx": prev if source == "carried non-witness UTXO" else None,
                                            "prev_out": prev_out if source == "carried witness UTXO" else None, "sigs": {}, "hash_type": None,
                                            "redeem_script": rs if scripts_known else None, "witness_script": ws if scripts_known else None,
                                            "named_pubs": {}, "script_sig": None, "witness": None, "extra_map": {}})
                named = {k: Obj("psbt", "NamedHDPublicKey", {"sec_": k, "point": Obj("psbt", "NamedPublicKey", {"sec_": k})}) for k in keys}
                pubkey_lookup = {}
                for k, o in named.items():
                    pubkey_lookup[k] = o
                    pubkey_lookup[H(k)] = o
                redeem_lookup = {spk.attrs["commands"][1]: rs} if rs is not None else {}
                witness_lookup = {S(ser(ws.attrs["commands"])): ws} if ws is not None else {}
                try:
                    Evaluator(ctx.repo, method_hooks=hk).call(spec, [{txid: prev} if source == "lookup" else {}, pubkey_lookup, redeem_lookup, witness_lookup], self_obj=me)
                except Raised as x:
                    verdict = "%s input, spent output known from the %s: update raises %s" % (label, source, x.name)
                    break
                except Undecided as u:
                    return [ctx.err(spec, "update not evaluable for a %s input: %s" % (label, u), fn, mod)]
                who = "%s input, spent output known from the %s, scripts %s" % (label, source, "already attached" if scripts_known else "only in the lookups")
                if set(me.attrs["named_pubs"].keys()) != set(keys):
                    verdict = "%s: the updater attaches the derivations of %d of the wallet's %d key(s) -- this cosigner cannot sign the input" % (who, len(me.attrs["named_pubs"]), len(keys))
                elif me.attrs["redeem_script"] is not rs or me.attrs["witness_script"] is not ws:
                    verdict = "%s: the %s is not attached" % (who, "RedeemScript" if me.attrs["redeem_script"] is not rs else "WitnessScript")
                elif segwit and me.attrs["prev_out"] is not prev_out:
                    verdict = "%s: the witness UTXO is not recorded" % who
                elif not segwit and me.attrs["prev_tx"] is not prev:
                    verdict = "%s: the non-witness UTXO is not recorded" % who
                if verdict:
                    break
            if verdict:
                break
        out.append(ctx.bad(spec, verdict, fn, mod, key="update-cells:" + label) if verdict else
                   ctx.ok(spec, "%s: keys, scripts and UTXO are attached from every source of the spent output" % label, fn, mod, key="update-cells:" + label))
    return out


def _global_map_harness():
    """stand-ins shared by the global-map cells: the unsigned transaction, the xpub record codec and the PSBT constructor"""
    from sa.cells import Obj
    TX = b"\x02\x00\x00\x00\x00\x00\x00\x00\x00\x00"

    def kv(k, v):
        return bytes([len(k)]) + k + bytes([len(v)]) + v

    def xpub(i, fp, depth=1):
        key = b"\x01" + bytes([i]) * 78
        val = fp + b"\x2c\x00\x00\x80" * depth
        return key, val

    def hd_parse(cls, key, s, network=None, **kw):
        n = s.read(1)[0]
        val = s.read(n)
        return Obj("psbt", "NamedHDPublicKey", {"key": key, "val": val, "network": "mainnet", "root_fingerprint": val[:4], "root_path": val[4:], "depth": (len(val) - 4) // 4})
    hooks = {("Tx", "parse_legacy"): lambda cls, s, *a, **k: Obj("tx", "Tx", {"tx_ins": [], "tx_outs": [], "raw": s.read(len(TX)), "segwit": False, "version": 2, "locktime": 0, "network": "mainnet"}),
             ("Tx", "serialize_legacy"): lambda o: o.attrs["raw"], ("Tx", "serialize"): lambda o: o.attrs["raw"],
             ("NamedHDPublicKey", "parse"): hd_parse, ("NamedHDPublicKey", "raw_serialize"): lambda o: o.attrs["key"][1:],
             ("NamedHDPublicKey", "serialize"): lambda o: kv(o.attrs["key"], o.attrs["val"]),
             ("PSBT", "__init__"): lambda o, tx_obj, psbt_ins, psbt_outs, hd_pubs=None, extra_map=None, network="mainnet", *a, **k: o.attrs.update(
                 {"tx_obj": tx_obj, "psbt_ins": psbt_ins, "psbt_outs": psbt_outs, "hd_pubs": hd_pubs or {}, "extra_map": extra_map or {}, "network": network})}
    return TX, kv, xpub, hooks


def c10_22(ctx):
    """The global map round trip, evaluated: PSBT.parse over the bytes PSBT.serialize's layout produces for a global map with (a) two xpubs of
    different masters, (b) two different xpubs of the same master (one signer holding two accounts -- create_multisig_psbt allows it), (c) unknown
    key-value pairs, one with an empty value; the parse must accept and re-serialising the parsed object must give the same bytes.  The unsigned
    transaction, the xpub record codec and the constructor's validation are stand-ins (C10.1/C10.2/C08 decide them)"""
    from sa.cells import ClassRef, Evaluator, FileStandIn, Obj, Raised, Undecided
    spec_p, spec_s = "psbt:PSBT.parse", "psbt:PSBT.serialize"
    mod, fn = rl.get(ctx, spec_p)
    TX, kv, xpub, hooks = _global_map_harness()
    FP1, FP2 = b"\xaa\xbb\xcc\xdd", b"\x11\x22\x33\x44"
    maps = [
        ("two xpubs of different masters", [xpub(1, FP1), xpub(2, FP2)], []),
        ("two different xpubs of the same master (one signer, two accounts)", [xpub(1, FP1), xpub(2, FP1)], []),
        ("two xpubs of the same master at different depths", [xpub(1, FP1, 1), xpub(2, FP1, 3)], []),
        ("unknown key-value pairs, one with an empty value", [], [(b"\xfc\x01", b"\x05\x06"), (b"\xfc\x02", b""), (b"\xfd", b"\x00")]),
        ("xpubs and unknown pairs together", [xpub(3, FP2), xpub(4, FP2)], [(b"\xfc\x09", b"\x01")]),
    ]
    out = []
    for label, xs, extra in maps:
        ctx.count("cells")
        data = b"psbt\xff" + kv(b"\x00", TX) + b"".join(kv(k, v) for k, v in sorted(xs)) + b"".join(kv(k, v) for k, v in sorted(extra)) + b"\x00"
        try:
            ev = Evaluator(ctx.repo, method_hooks=hooks)
            obj = ev.call(spec_p, [FileStandIn(data)], self_obj=ClassRef("psbt", "PSBT"))
            again = Evaluator(ctx.repo, method_hooks=hooks).call(spec_s, [], self_obj=obj)
        except Raised as x:
            out.append(ctx.bad(spec_p, "a global map with %s -- which PSBT.serialize writes -- is refused on load (%s): the PSBT does not survive serialise → parse" % (label, x.name),
                               fn, mod, key="global-map:" + label.split(" (")[0]))
            continue
        except Undecided as u:
            return [ctx.err(spec_p, "global map round trip not evaluable (%s): %s" % (label, u), fn, mod)]
        if again != data:
            out.append(ctx.bad(spec_p, "a global map with %s does not re-serialise to the bytes it was parsed from" % label, fn, mod, key="global-map:" + label.split(" (")[0]))
        else:
            out.append(ctx.ok(spec_p, "global map with %s: accepted, re-serialises byte-identically" % label, fn, mod, key="global-map:" + label.split(" (")[0]))
    return out



def c10_23(ctx):
    """the global xpub record, evaluated: NamedHDPublicKey.parse followed by .serialize() over {xpub, tpub version bytes -- the two the serialiser
    itself writes} × key-origin paths {m, m/45', m/48'/0'/0'/2', m/48'/1'/0'/2', m/84'/1'/0', m/0/1} × network argument {None (PSBT.parse's
    default), the version's own network}: the record written back is the record read.  The path must not decide which version bytes are
    written back: a tpub whose origin is not a coin-type-1 path would come back as an xpub"""
    from sa.cells import ClassRef, Evaluator, FileStandIn, Obj, Raised, Undecided
    spec = "psbt:NamedHDPublicKey.parse"
    mod, fn = rl.get(ctx, spec)
    hooks = {("S256Point", "parse"): lambda cls, b, *a, **k: Obj("pecc", "S256Point", {"sec_": bytes(b)}), ("S256Point", "sec"): lambda o, *a, **k: o.attrs["sec_"]}
    H = 0x80000000
    paths = [("m", []), ("m/45'", [45 + H]), ("m/48'/0'/0'/2'", [48 + H, H, H, 2 + H]), ("m/48'/1'/0'/2'", [48 + H, 1 + H, H, 2 + H]), ("m/84'/1'/0'", [84 + H, 1 + H, H]), ("m/0/1", [0, 1])]
    n = 0
    for ver, family in ((bytes.fromhex("0488b21e"), "mainnet"), (bytes.fromhex("043587cf"), "testnet")):
        for label, comps in paths:
            for net in (None, family):
                n += 1
                child = comps[-1] if comps else 0
                key = b"\x01" + ver + bytes([len(comps)]) + (b"\xaa\xbb\xcc\xdd" if comps else bytes(4)) + child.to_bytes(4, "big") + bytes(range(32)) + b"\x02" + b"\x11" * 32
                val = b"\x5a\x5b\x5c\x5d" + b"".join(c.to_bytes(4, "little") for c in comps)
                record = bytes([len(key)]) + key + bytes([len(val)]) + val
                try:
                    ev = Evaluator(ctx.repo, method_hooks=hooks)
                    o = ev.call(spec, [key, FileStandIn(bytes([len(val)]) + val)], kwargs={"network": net}, self_obj=ClassRef("psbt", "NamedHDPublicKey"))
                    back = ev.call("psbt:NamedHDPublicKey.serialize", [], self_obj=o)
                except Raised as x:
                    return [ctx.bad(spec, "a global xpub record with version %s and key origin %s (network argument %s) is refused: %s" % (ver.hex(), label, net, x.name), fn, mod, key="xpub-record")]
                except Undecided as u:
                    return [ctx.err(spec, "global xpub record not evaluable: %s" % u, fn, mod)]
                if back != record:
                    what = "version bytes %s" % back[2:6].hex() if isinstance(back, bytes) and back[2:6] != ver and back[6:] == record[6:] else "other bytes"
                    return [ctx.bad(spec, "a global xpub record with version %s (%s) and key origin %s, parsed with network=%s, is written back with %s: the PSBT the library built "
                                          "does not re-serialise to its own bytes after serialise → parse" % (ver.hex(), "tpub" if family == "testnet" else "xpub", label, net, what),
                                    fn, mod, key="xpub-record")]
    ctx.count("cells", n)
    return [ctx.ok(spec, "%d (version, key origin, network argument) cells: the record written back is the record read" % n, fn, mod, key="xpub-record")]



def _parse_keys_by(ctx):
    """(key PSBT.parse stores one global xpub under, that xpub's raw_serialize()) -- PSBT.parse evaluated on a global map with one xpub record, with the
    stand-ins of the global-map cells; None when the parser is outside the evaluator's subset or does not store exactly one entry"""
    from sa.cells import ClassRef, Evaluator, FileStandIn, Obj, Raised, Undecided
    TX, kv, xpub, hooks = _global_map_harness()
    k, v = xpub(1, b"\xaa\xbb\xcc\xdd")
    data = b"psbt\xff" + kv(b"\x00", TX) + kv(k, v) + b"\x00"
    try:
        obj = Evaluator(ctx.repo, method_hooks=hooks).call("psbt:PSBT.parse", [FileStandIn(data)], self_obj=ClassRef("psbt", "PSBT"))
    except (Raised, Undecided):
        return None
    hd = obj.attrs.get("hd_pubs") if isinstance(obj, Obj) else None
    if not isinstance(hd, dict) or len(hd) != 1:
        return None
    return next(iter(hd)), k[1:]


def c10_24(ctx):
    """SIBLING map key: every producer of the global-xpub map (`hd_pubs`: PSBT.parse, create_multisig_psbt, anything else in the anchored modules
    that stores into a dictionary of that name) keys an entry by the same function of the entry.  PSBT.combine unites two such maps by key and
    PSBT.serialize writes one record per key, so two producers that key one xpub differently make a combined PSBT carry the record twice --
    bytes BIP174 forbids and that do not survive parse → serialize"""
    sites = []
    for modname in ("psbt", "psbt_helper"):
        mod = ctx.repo.modules.get(modname)
        if mod is None:
            continue
        for qn, fn in mod.functions.items():
            for st in ast.walk(fn):
                if isinstance(st, ast.Assign) and len(st.targets) == 1 and isinstance(st.targets[0], ast.Subscript):
                    tgt = st.targets[0]
                    base = tgt.value
                    nm = base.id if isinstance(base, ast.Name) else (base.attr if isinstance(base, ast.Attribute) else None)
                    if nm != "hd_pubs":
                        continue
                    key, val = tgt.slice, st.value
                    # the key as a function of the stored value: `<value>.<method>()`
                    shape = None
                    if isinstance(key, ast.Call) and isinstance(key.func, ast.Attribute) and not key.args and not key.keywords and ast.unparse(key.func.value) == ast.unparse(val):
                        shape = key.func.attr + "()"
                    sites.append((modname, qn, st, shape))
    if len(sites) < 2:
        raise AnalysisError("hd_pubs producers: fewer than two stores into the global-xpub map found (%d)" % len(sites))
    out = []
    ref = next(((m, q, st, sh) for m, q, st, sh in sites if q == "PSBT.parse"), None)
    if ref is None:
        raise AnalysisError("hd_pubs producers: PSBT.parse does not store into hd_pubs")
    evaluated = None
    if ref[3] is None and any(sh == "raw_serialize()" for _, _, _, sh in sites):
        evaluated = _parse_keys_by(ctx)
    for m, q, st, sh in sites:
        spec = "%s:%s" % (m, q)
        mod = ctx.repo.modules[m]
        if evaluated is not None and (q == "PSBT.parse" or sh == "raw_serialize()"):
            k_parse, k_method = evaluated
            if k_parse == k_method:
                out.append(ctx.ok(spec, "global-xpub map: the key PSBT.parse stores an xpub under, evaluated, is its raw_serialize() (%d bytes), as in the other producers" % len(k_method), st,
                                  mod, key="hd-pubs-key:" + q))
            elif q == "PSBT.parse":
                out.append(ctx.bad(spec, "PSBT.parse, evaluated on a global map with one xpub, stores it under a %s key (%s…) while %s key it by <key>.raw_serialize() (%d bytes, %s…): "
                                         "combining a built PSBT with a parsed copy keeps both entries of every xpub, and the combined PSBT is serialised with duplicate global xpub records"
                                   % ("%d-byte" % len(k_parse) if isinstance(k_parse, bytes) else type(k_parse).__name__, k_parse[:4].hex() if isinstance(k_parse, bytes) else k_parse,
                                      ", ".join(sorted("%s:%s" % (m2, q2) for m2, q2, _, s2 in sites if s2 == "raw_serialize()")), len(k_method), k_method[:4].hex()), st, mod,
                                   key="hd-pubs-key:" + q))
            else:
                out.append(ctx.ok(spec, "global-xpub map keyed by <key>.raw_serialize() (the disagreement is reported at PSBT.parse)", st, mod, key="hd-pubs-key:" + q))
            continue
        if sh is None or ref[3] is None:
            out.append(ctx.err(spec, "global-xpub map store `%s` is not keyed by a method of the stored key" % ast.unparse(st), st, mod))
        elif sh == ref[3]:
            out.append(ctx.ok(spec, "global-xpub map keyed by <key>.%s, as in PSBT.parse" % sh, st, mod, key="hd-pubs-key:" + q))
        else:
            out.append(ctx.bad(spec, "the global-xpub map is keyed by <key>.%s here and by <key>.%s in PSBT.parse (line %d): combining a PSBT from this producer with a parsed one keeps "
                                     "both entries of every xpub, the combined PSBT is serialised with duplicate global xpub records and does not re-serialise to itself" % (sh, ref[3], ref[2].lineno),
                               st, mod, key="hd-pubs-key:" + q))
    return out



def c10_25(ctx):
    """compact-size integers and strings on every width boundary: canonical form written, inverse read (rules/bitcodecs.py varint_cells)"""
    from rules.bitcodecs import try_cells, varint_cells
    r = try_cells(varint_cells, ctx)
    if r is None:
        mod, fn = rl.get(ctx, "helper:encode_varint")
        return [ctx.err("helper:encode_varint", "compact-size codec outside the evaluator's subset", fn, mod)]
    return r



def c10_26(ctx):
    """the three combiners evaluated on two copies that each carry something the other lacks, in both directions: PSBT.combine (global xpubs,
    unknown pairs; the per-input / per-output combiners as recording stand-ins), PSBTIn.combine and PSBTOut.combine (partial signatures,
    derivations, unknown pairs, scripts, UTXOs, final fields).  After a.combine(b) and after b.combine(a) the combined object carries the
    UNION of every map and every field either copy had -- nothing is lost, and the content does not depend on the direction"""
    from sa.cells import Evaluator, Obj, Raised, Undecided
    out = []

    def run(spec, make, fields, label):
        mod, fn = rl.get(ctx, spec)
        try:
            res = []
            for direction in (0, 1):
                ctx.count("cells")
                a, b = make()
                if direction:
                    a, b = b, a
                try:
                    Evaluator(ctx.repo, method_hooks={("PSBTIn", "combine"): lambda o, other: o.attrs.setdefault("combined_with", []).append(other),
                                                      ("PSBTOut", "combine"): lambda o, other: o.attrs.setdefault("combined_with", []).append(other),
                                                      ("Tx", "hash"): lambda o: o.attrs["h"]} if spec.endswith("PSBT.combine") else {}).call(spec, [b], self_obj=a)
                except Raised as x:
                    return ctx.bad(spec, "%s: combining two copies of one PSBT raises %s" % (label, x.name), fn, mod, key="combine-union:" + label)
                snap = {}
                for f_ in fields:
                    v = a.attrs.get(f_)
                    snap[f_] = (sorted(v.items(), key=repr) if isinstance(v, dict) else v)
                res.append(snap)
            want = make.want
            for d_, snap in enumerate(res):
                for f_ in fields:
                    if snap[f_] != want[f_]:
                        lost = "entries are lost" if isinstance(want[f_], list) and isinstance(snap[f_], list) and len(snap[f_]) < len(want[f_]) else "differs from the union"
                        return ctx.bad(spec, "%s: after %s the field `%s` %s (%s instead of %s): the combined PSBT depends on which copy was the base" % (
                            label, "a.combine(b)" if d_ == 0 else "b.combine(a)", f_, lost, _short(snap[f_]), _short(want[f_])), fn, mod, key="combine-union:" + label)
            return ctx.ok(spec, "%s: both directions give the union of %s" % (label, ", ".join(fields)), fn, mod, key="combine-union:" + label)
        except Undecided as u:
            return ctx.err(spec, "%s not evaluable: %s" % (label, u), fn, mod)

    def _short(v):
        t = repr(v)
        return t if len(t) < 90 else t[:87] + "..."
    X1, X2 = Obj("psbt", "NamedHDPublicKey", {"n": 1}), Obj("psbt", "NamedHDPublicKey", {"n": 2})

    def mk_psbt():
        tx = Obj("tx", "Tx", {"h": b"T" * 32})
        a = Obj("psbt", "PSBT", {"tx_obj": tx, "hd_pubs": {b"k1": X1}, "extra_map": {b"\xfc\x01": b"u1"}, "psbt_ins": [Obj("psbt", "PSBTIn", {})], "psbt_outs": [Obj("psbt", "PSBTOut", {})]})
        b = Obj("psbt", "PSBT", {"tx_obj": tx, "hd_pubs": {b"k2": X2}, "extra_map": {b"\xfc\x02": b"u2"}, "psbt_ins": [Obj("psbt", "PSBTIn", {})], "psbt_outs": [Obj("psbt", "PSBTOut", {})]})
        return a, b
    mk_psbt.want = {"hd_pubs": sorted({b"k1": X1, b"k2": X2}.items(), key=repr), "extra_map": sorted({b"\xfc\x01": b"u1", b"\xfc\x02": b"u2"}.items(), key=repr)}
    out.append(run("psbt:PSBT.combine", mk_psbt, ["hd_pubs", "extra_map"], "PSBT"))
    P1, P2 = Obj("psbt", "NamedPublicKey", {"n": 1}), Obj("psbt", "NamedPublicKey", {"n": 2})
    RS, WS, PT, PO = Obj("script", "RedeemScript", {}), Obj("script", "WitnessScript", {}), Obj("tx", "Tx", {}), Obj("tx", "TxOut", {})

    def mk_in():
        blank = {"prev_tx": None, "prev_out": None, "sigs": {}, "hash_type": None, "redeem_script": None, "witness_script": None, "named_pubs": {}, "script_sig": None, "witness": None,
                 "extra_map": {}}
        a = Obj("psbt", "PSBTIn", dict(blank, prev_tx=PT, sigs={b"s1": b"sig1"}, redeem_script=RS, named_pubs={b"p1": P1}, extra_map={b"\xfc\x01": b"u1"}))
        b = Obj("psbt", "PSBTIn", dict(blank, prev_out=PO, sigs={b"s2": b"sig2"}, hash_type=1, witness_script=WS, named_pubs={b"p2": P2}, extra_map={b"\xfc\x02": b"u2"}))
        return a, b
    mk_in.want = {"prev_tx": PT, "prev_out": PO, "sigs": sorted({b"s1": b"sig1", b"s2": b"sig2"}.items(), key=repr), "hash_type": 1, "redeem_script": RS, "witness_script": WS,
                  "named_pubs": sorted({b"p1": P1, b"p2": P2}.items(), key=repr), "extra_map": sorted({b"\xfc\x01": b"u1", b"\xfc\x02": b"u2"}.items(), key=repr)}
    out.append(run("psbt:PSBTIn.combine", mk_in, ["prev_tx", "prev_out", "sigs", "hash_type", "redeem_script", "witness_script", "named_pubs", "extra_map"], "PSBTIn"))

    def mk_out():
        a = Obj("psbt", "PSBTOut", {"redeem_script": RS, "witness_script": None, "named_pubs": {b"p1": P1}, "extra_map": {b"\xfc\x01": b"u1"}})
        b = Obj("psbt", "PSBTOut", {"redeem_script": None, "witness_script": WS, "named_pubs": {b"p2": P2}, "extra_map": {b"\xfc\x02": b"u2"}})
        return a, b
    mk_out.want = {"redeem_script": RS, "witness_script": WS, "named_pubs": sorted({b"p1": P1, b"p2": P2}.items(), key=repr), "extra_map": sorted({b"\xfc\x01": b"u1", b"\xfc\x02": b"u2"}.items(), key=repr)}
    out.append(run("psbt:PSBTOut.combine", mk_out, ["redeem_script", "witness_script", "named_pubs", "extra_map"], "PSBTOut"))
    return out



def c10_27(ctx):
    """the updater's key lookups evaluated with child derivation as a recording stand-in: NamedHDPublicKey.pubkey_lookup(max_child) holds the
    compressed key and its hash160 of exactly the children 0..max_child; bip44_lookup(max_external, max_internal) the children 0..max_external
    of the external chain (0) and 0..max_internal of the change chain (1) -- for windows that differ in both directions; redeem_script_lookup
    the p2sh-p2wpkh RedeemScripts of the same windows.  A key missing from the lookup gets no derivation in the PSBT and cannot be signed for"""
    from sa.cells import Evaluator, Obj, Raised, Undecided
    mod, fn = rl.get(ctx, "psbt:NamedHDPublicKey.bip44_lookup")

    def child(o, i, *a, **k):
        return Obj("psbt", "NamedHDPublicKey", {"trail": o.attrs["trail"] + (i,)})
    hooks = {("NamedHDPublicKey", "child"): child, ("HDPublicKey", "child"): child,
             ("HDPublicKey", "sec"): lambda o, *a, **k: ("sec", o.attrs["trail"]), ("HDPublicKey", "hash160"): lambda o, *a, **k: ("h160", o.attrs["trail"]),
             ("RedeemScript", "__init__"): lambda o, commands=None, *a, **k: o.attrs.update({"commands": commands}), ("RedeemScript", "hash160"): lambda o: ("rs", tuple(o.attrs["commands"]))}
    out = []
    try:
        spec = "psbt:NamedHDPublicKey.pubkey_lookup"
        mod_, fn_ = rl.get(ctx, spec)
        bad = None
        for mx in (0, 1, 9, 25):
            ctx.count("cells")
            r = Evaluator(ctx.repo, method_hooks=hooks).call(spec, [mx], self_obj=Obj("psbt", "NamedHDPublicKey", {"trail": (7,)}))
            want = {("sec", (7, i)) for i in range(mx + 1)} | {("h160", (7, i)) for i in range(mx + 1)}
            if not isinstance(r, dict) or set(r.keys()) != want or any(v.attrs.get("trail") != k_[1] for k_, v in r.items()):
                bad = "pubkey_lookup(%d) does not map exactly the keys and hash160s of children 0..%d to those children" % (mx, mx)
                break
        out.append(ctx.bad(spec, bad, fn_, mod_, key="lookup-window:pubkey") if bad else ctx.ok(spec, "children 0..max_child, by key and by hash160", fn_, mod_, key="lookup-window:pubkey"))
        for spec, kind in (("psbt:NamedHDPublicKey.bip44_lookup", "keys"), ("psbt:NamedHDPublicKey.redeem_script_lookup", "scripts")):
            mod_, fn_ = rl.get(ctx, spec)
            bad = None
            for ext, internal in ((9, 9), (2, 5), (5, 2), (0, 0), (0, 3)):
                ctx.count("cells")
                r = Evaluator(ctx.repo, method_hooks=hooks).call(spec, [], kwargs={"max_external": ext, "max_internal": internal}, self_obj=Obj("psbt", "NamedHDPublicKey", {"trail": ()}))
                trails = [(0, i) for i in range(ext + 1)] + [(1, i) for i in range(internal + 1)]
                if kind == "keys":
                    want = {("sec", t) for t in trails} | {("h160", t) for t in trails}
                else:
                    want = {("rs", (0, ("h160", t))) for t in trails}
                got = set(r.keys()) if isinstance(r, dict) else None
                if got != want:
                    missing = sorted(want - (got or set()), key=repr)[:1]
                    extra = sorted((got or set()) - want, key=repr)[:1]
                    bad = "with max_external=%d, max_internal=%d the lookup %s" % (ext, internal, ("lacks %s" % (missing[0],) if missing else "also holds %s" % (extra[0],)) +
                                                                                  ": external children 0..%d and change children 0..%d are expected" % (ext, internal))
                    break
            out.append(ctx.bad(spec, bad + " -- inputs locked to a missing key get no derivation and cannot be signed", fn_, mod_, key="lookup-window:" + kind) if bad else
                       ctx.ok(spec, "external chain 0..max_external and change chain 0..max_internal, for 5 window pairs", fn_, mod_, key="lookup-window:" + kind))
    except Raised as x:
        out.append(ctx.bad("psbt:NamedHDPublicKey.bip44_lookup", "a lookup raises %s" % x.name, fn, mod, key="lookup-window:raises"))
    except Undecided as u:
        out.append(ctx.err("psbt:NamedHDPublicKey.bip44_lookup", "lookups not evaluable: %s" % u, fn, mod))
    return out



def c10_28(ctx):
    """PSBTOut.update evaluated over the six wallet types × {scripts only in the lookups, scripts already attached and lookups empty (a second
    updater that brings only its own keys), both}: afterwards the output carries its RedeemScript / WitnessScript and the derivations of the
    keys the updater knows.  An update must never take away a script the output already has: an output left with a WitnessScript but no
    RedeemScript serialises to bytes PSBT.parse refuses"""
    from sa.cells import Evaluator, Obj, Raised, Undecided
    spec = "psbt:PSBTOut.update"
    mod, fn = rl.get(ctx, spec)
    wallets, hooks, ser, H, S = _wallet_cells()
    hk = dict(hooks)
    hk[("S256Point", "sec")] = lambda o, *a, **k: o.attrs["sec_"]
    hk[("HDPublicKey", "sec")] = lambda o, *a, **k: o.attrs["sec_"]
    out = []
    for label, spk, rs, ws, keys, m in wallets:
        verdict = None
        for attached, lookups in ((False, True), (True, False), (True, True)):
            if not attached and not lookups:
                continue
            ctx.count("cells")
            me = Obj("psbt", "PSBTOut", {"tx_out": Obj("tx", "TxOut", {"amount": 1000, "script_pubkey": spk}), "redeem_script": rs if attached else None,
                                         "witness_script": ws if attached else None, "named_pubs": {}, "extra_map": {}})
            named = {k: Obj("psbt", "NamedHDPublicKey", {"sec_": k, "point": Obj("psbt", "NamedPublicKey", {"sec_": k})}) for k in keys}
            pubkey_lookup = {}
            for k, o in named.items():
                pubkey_lookup[k] = o
                pubkey_lookup[H(k)] = o
            redeem_lookup = {spk.attrs["commands"][1]: rs} if (rs is not None and lookups) else {}
            witness_lookup = {S(ser(ws.attrs["commands"])): ws} if (ws is not None and lookups) else {}
            who = "%s output, scripts %s, lookups %s" % (label, "already attached" if attached else "not yet attached", "given" if lookups else "empty (second updater)")
            try:
                Evaluator(ctx.repo, method_hooks=hk).call(spec, [pubkey_lookup, redeem_lookup, witness_lookup], self_obj=me)
            except Raised as x:
                verdict = "%s: update raises %s" % (who, x.name)
                break
            except Undecided as u:
                return [ctx.err(spec, "output updater not evaluable for a %s output: %s" % (label, u), fn, mod)]
            if me.attrs["redeem_script"] is not rs or me.attrs["witness_script"] is not ws:
                lost = "RedeemScript" if me.attrs["redeem_script"] is not rs else "WitnessScript"
                verdict = "%s: the output is left without its %s%s" % (who, lost, " -- the update took away a script the output already carried; with the other script still attached the "
                                                                                  "PSBT serialises to bytes PSBT.parse refuses" if attached else "")
                break
            if set(me.attrs["named_pubs"].keys()) != set(keys):
                verdict = "%s: derivations of %d of the %d key(s) are attached" % (who, len(me.attrs["named_pubs"]), len(keys))
                break
        out.append(ctx.bad(spec, verdict, fn, mod, key="out-update:" + label) if verdict else
                   ctx.ok(spec, "%s output: scripts kept / attached and all known keys' derivations added from every source" % label, fn, mod, key="out-update:" + label))
    return out



OBLIGATIONS = [
    ("C10.28", "CELLS output updater sources", c10_28),
    ("C10.27", "CELLS lookup windows", c10_27),
    ("C10.26", "CELLS combiners both directions", c10_26),
    ("C10.25", "CELLS compact size (shared)", c10_25),
    ("C10.19", "CELLS output metadata", c10_19),
    ("C10.20", "CELLS finaliser", c10_20),
    ("C10.21", "CELLS updater sources", c10_21),
    ("C10.22", "CELLS global map round trip", c10_22),
    ("C10.23", "CELLS global xpub record", c10_23),
    ("C10.24", "SIBLING map key", c10_24),
    ("C10.18", "SHARED", c10_18),
    ("C10.17", "SET-ORDER", c10_17),
    ("C10.12", "DATAFLOW commitment", c10_12),
    ("C10.11", "MEMO", c10_11),
    ("C10.10", "COVER loops", c10_10),
    ("C10.1", "LAYOUT writer↔reader", c10_1),
    ("C10.2", "LAYOUT per key type", c10_2),
    ("C10.3", "TABLE", c10_3),
    ("C10.4", "ORDER", c10_4),
    ("C10.5", "GUARD", c10_5),
    ("C10.6", "GUARD", c10_6),
    ("C10.7", "GUARD", c10_7),
    ("C10.8", "RANGE+SIBLING", c10_8),
    ("C10.9", "GUARD", c10_9),
    ("C10.13", "INDEPENDENCE", c10_13),
    ("C10.14", "OWNERSHIP", c10_14),
    ("C10.15", "INDEPENDENCE emit", c10_15),
    ("C10.16", "RANGE partition+agreement", c10_16),
]
FLOORS = {"C10.2": 14, "C10.3": 20, "C10.4": 8, "C10.5": 20, "C10.6": 6, "C10.8": 2}
