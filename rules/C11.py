"""C11 — PSBT review summary (structural clauses)."""
import ast

from sa import rl
from sa.cfg import cfg_of, reach_ps
from sa.dataflow import call_name, dotted, expand, origins, rd_of
from sa.fold import Folder, Unknown
from sa.guard import BAD_FALSE, BAD_TRUE, Guard, check_guard, find_guards, loop_iteration_guard
from sa.loader import AnalysisError, param_names

EXPLANATION = (
    "Static analysis of buidl/psbt.py, psbt_helper.py, tx.py: in PSBTOut.validate and PSBTIn.validate every normally-returning path on which an "
    "attached redeem / witness script may be set passes the comparison of its hash160 / sha256 with the commitment in the scriptPubKey (or takes the "
    "edge on which the script is absent); the change label `is_change = True` is dominated by the quorum comparisons, the per-key fingerprint lookup and "
    "the re-derivation comparison, by a test over an accumulator of the cosigner fingerprints (distinct cosigners) and by the second-change rejection; "
    "per-iteration accounting of spend / change / total; the fee is inputs minus outputs of the validated transaction; previous-transaction checks; the "
    "PSBT builder's hash / amount / address / fee cross-checks dominate its return. Not decided: arithmetic identities on amounts, derivation correctness."
)


def _hash_guard(fn, attr, hashname):
    """matcher: comparison of self.<attr>.<hashname>() with something else (inequality is bad)"""
    def match(node, ex, atoms):
        t = node.ast
        if isinstance(t, ast.Compare) and len(t.ops) == 1 and isinstance(t.ops[0], (ast.Eq, ast.NotEq)):
            l, r = ast.unparse(t.left), ast.unparse(t.comparators[0])
            call = "self.%s.%s()" % (attr, hashname)
            if (l == call) != (r == call):
                return BAD_TRUE if isinstance(t.ops[0], ast.NotEq) else BAD_FALSE
        return None
    return match


def _absent_edges(fn, attr):
    """edges on which self.<attr> is known to be unset: False edge of `self.attr`, True edge of `not self.attr` is already decomposed"""
    cfg = cfg_of(fn)
    out = []
    for n in cfg.tests():
        if dotted(n.ast) == "self." + attr:
            out.append((n.id, False))
        t = n.ast
        if isinstance(t, ast.Compare) and len(t.ops) == 1 and dotted(t.left) == "self." + attr and isinstance(t.comparators[0], ast.Constant) and t.comparators[0].value is None:
            out.append((n.id, True if isinstance(t.ops[0], ast.Is) else False))
    return out


def _commitment(ctx, spec, attr, hashname, extra_exempt=None):
    """every path entry → normal return passes the hash comparison or an edge on which the script is absent"""
    mod, fn = rl.get(ctx, spec)
    cfg = cfg_of(fn)
    gs = find_guards(mod, fn, _hash_guard(fn, attr, hashname))
    absent = _absent_edges(fn, attr)
    # cut: remove guard pass edges and "absent" edges; is a return still reachable?
    removed = {(g.node.id, g.pass_label) for g in gs} | set(absent)
    forbid = extra_exempt(fn) if extra_exempt else ()
    rets = [n.id for n in cfg.returns()]
    r, p = reach_ps(cfg, [cfg.entry], removed=removed, targets=rets, forbid=forbid)
    if r is None:
        raise AnalysisError("%s: state budget exceeded" % spec)
    label = {"hash160": "hash160", "sha256": "sha256"}[hashname]
    key = "commit:%s" % attr
    if p is None:
        return ctx.ok(spec, "whenever %s may be attached, its %s is compared with the scriptPubKey commitment before a normal return (%d comparison(s))" % (attr, label, len(gs)), fn, mod, key=key)
    return ctx.bad(spec, "a path returns normally on which `%s` may be set but its %s() is never compared with the commitment in the scriptPubKey: %s" % (
        attr, label, cfg.fmt_path(p)), fn, mod, key=key, detail={"path": cfg.fmt_path(p)})


def _no_utxo_exempt(fn):
    """PSBTIn: when neither prev_tx nor prev_out is known nothing can be compared: exempt the edge on which the scriptPubKey is None"""
    return [{("truthy self.prev_tx", False), ("truthy self.prev_out", False)}]


def c11_1(ctx):
    out = []
    out.append(_commitment(ctx, "psbt:PSBTOut.validate", "redeem_script", "hash160"))
    out.append(_commitment(ctx, "psbt:PSBTOut.validate", "witness_script", "sha256"))
    out.append(_commitment(ctx, "psbt:PSBTIn.validate", "redeem_script", "hash160", _no_utxo_exempt))
    out.append(_commitment(ctx, "psbt:PSBTIn.validate", "witness_script", "sha256", _no_utxo_exempt))
    return out


def _is_change_store(n):
    a = n.ast
    return isinstance(a, ast.Assign) and isinstance(a.targets[0], ast.Subscript) and isinstance(a.targets[0].slice, ast.Constant) and a.targets[0].slice.value == "is_change" \
        and isinstance(a.value, ast.Constant) and a.value.value is True


def c11_2(ctx):
    spec = "psbt:PSBT._describe_basic_multisig_outputs"
    mod, fn = rl.get(ctx, spec)
    cfg = cfg_of(fn)
    tg = [n for n in cfg.stmts(("stmt",)) if _is_change_store(n)]
    if not tg:
        raise AnalysisError("is_change = True store not found")
    out = []

    def cmp_names(a, b):
        def match(node, ex, atoms):
            t = node.ast
            if isinstance(t, ast.Compare) and len(t.ops) == 1 and isinstance(t.ops[0], (ast.Eq, ast.NotEq)):
                s = {ast.unparse(t.left), ast.unparse(t.comparators[0])}
                if s == {a, b}:
                    return BAD_TRUE if isinstance(t.ops[0], ast.NotEq) else BAD_FALSE
            return None
        return match
    # start inside the change arm: the test on psbt_out.named_pubs, True edge
    arm = [n for n in cfg.tests() if dotted(n.ast) and dotted(n.ast).endswith(".named_pubs")]
    if not arm:
        raise AnalysisError("test `psbt_out.named_pubs` not found")
    src = [(arm[0].id, True)]
    for a, b, what, k in (("expected_quorum_m", "output_quorum_m", "quorum m equals the inputs'", "quorum-m"), ("expected_quorum_n", "output_quorum_n", "quorum n equals the inputs'", "quorum-n"),
                          ("output_quorum_n", "len(psbt_out.named_pubs)", "one derivation per cosigner", "n-derivs")):
        out.append(rl.guard(ctx, spec, cmp_names(a, b), targets=lambda m, f: tg, what="change label requires: " + what, key=k, sources=src))
    # per key: lookup failure raises, re-derived key must equal the attached key
    inner = None
    for lp in cfg.loops.values():
        if isinstance(lp.stmt, ast.For) and "named_pubs" in ast.unparse(lp.stmt.iter) and arm[0].loops and lp.head in [x for x in cfg.nodes[tg[0].id].loops] + list(cfg.loops):
            if any(h == lp.head for h in [n.loops[-1] for n in cfg.nodes if n.loops and len(n.loops) >= 2]):
                inner = lp
    if inner is None:
        raise AnalysisError("per-key loop over psbt_out.named_pubs not found")
    gs = []
    for n in cfg.tests():
        t = n.ast
        if inner.head in n.loops and isinstance(t, ast.Compare) and len(t.ops) == 1 and isinstance(t.ops[0], (ast.Eq, ast.NotEq)):
            l, r = ast.unparse(t.left), ast.unparse(t.comparators[0])
            if ("traverse(" in l) != ("traverse(" in r) and ".sec()" in l and ".sec()" in r:
                gs.append(Guard(n, BAD_TRUE if isinstance(t.ops[0], ast.NotEq) else BAD_FALSE))
    ok, wit = loop_iteration_guard(fn, inner, gs) if gs else (False, "no comparison found")
    if ok:
        out.append(ctx.ok(spec, "every key of a change output is re-derived from the declared xpub and path and compared with the attached key", gs[0].node.ast, mod, key="rederive"))
    else:
        out.append(ctx.bad(spec, "a key of a claimed change output can be accepted without comparing it with the key re-derived from the cosigner xpub: %s" % wit, inner.stmt, mod, key="rederive"))
    # xfp lookup failure raises: the subscript hdpubkey_map[xfp] is in a try whose KeyError handler raises
    looked = False
    for st in ast.walk(fn):
        if isinstance(st, ast.Try):
            if any(isinstance(s, ast.Subscript) and dotted(s.value) == "hdpubkey_map" for s in ast.walk(ast.Module(body=st.body, type_ignores=[]))):
                if all(any(isinstance(x, ast.Raise) for x in h.body) for h in st.handlers):
                    looked = True
    direct = [s for s in ast.walk(fn) if isinstance(s, ast.Subscript) and dotted(s.value) == "hdpubkey_map"]
    gets = [c for c in ast.walk(fn) if isinstance(c, ast.Call) and call_name(c) == "get" and dotted(c.func.value) == "hdpubkey_map"]
    if (looked or direct) and not gets:
        out.append(ctx.ok(spec, "an unknown root fingerprint raises (lookup by subscript)", fn, mod, key="xfp-lookup"))
    else:
        out.append(ctx.bad(spec, "the cosigner lookup uses .get(): an unknown fingerprint does not raise", gets[0] if gets else fn, mod, key="xfp-lookup"))
    return out


def _output_cells(ctx):
    if not hasattr(ctx, "_c11_out"):
        ctx._c11_out = _output_cells_(ctx)
    return ctx._c11_out


def _output_cells_(ctx):
    """PSBT._describe_basic_multisig_outputs(2, 3, xpubs of three cosigners) evaluated with scripts, keys and derivation as stand-ins.  An output
    is labelled change exactly when it carries a 2-of-3 script whose three keys come from three DISTINCT cosigners of the map, each the key its
    xpub derives along the stated path: the honest change output (keys listed in every order) is labelled change and the plain output is
    not; an output with another threshold or key count, with two keys of one cosigner, with a key of an unknown cosigner, with a key that the
    stated path does not lead to, with fewer records than keys, and a second change output are refused"""
    from itertools import permutations
    from sa.cells import Evaluator, Obj, Raised, Undecided
    spec = "psbt:PSBT._describe_basic_multisig_outputs"
    mod, fn = rl.get(ctx, spec)
    XPUB_PATH = "m/48'/1'/0'/2'"

    def trav(o, path, *a, **k):
        return Obj("hd", "HDPublicKey", {"at": (o.attrs["xfp"], path.lower().replace("h", "'"))})
    hooks = {("PSBTOut", "validate"): lambda o: True, ("Script", "get_quorum"): lambda o: o.attrs["quorum"], ("Script", "address"): lambda o, network="mainnet", **k: o.attrs.get("addr", "addr"),
             ("HDPublicKey", "traverse"): trav, ("HDPublicKey", "sec"): lambda o, *a, **k: ("sec|%s|%s" % o.attrs["at"]).encode(), ("HDPublicKey", "xpub"): lambda o, *a, **k: "xpub-" + o.attrs["xfp"],
             ("HDPublicKey", "__repr__"): lambda o: "xpub", ("HDPublicKey", "__str__"): lambda o: "xpub",
             ("S256Point", "sec"): lambda o, *a, **k: o.attrs["sec_"], ("Script", "__repr__"): lambda o: "script", ("Script", "__str__"): lambda o: "script"}
    xfps = ["aaaaaaaa", "bbbbbbbb", "cccccccc"]
    hdmap = {x: Obj("hd", "HDPublicKey", {"xfp": x, "depth": 4, "at": (x, "m")}) for x in xfps}

    def named(xfp, true_tail, stated_tail=None):
        return Obj("psbt", "NamedPublicKey", {"root_fingerprint": bytes.fromhex(xfp), "root_path": XPUB_PATH + "/" + (stated_tail or true_tail), "sec_": ("sec|%s|m/%s" % (xfp, true_tail)).encode()})

    def out_(amount, addr, pubs=None, quorum=(2, 3)):
        spk = Obj("script", "P2WSHScriptPubKey", {"addr": addr})
        ws = Obj("script", "WitnessScript", {"quorum": quorum}) if pubs else None
        return Obj("psbt", "PSBTOut", {"tx_out": Obj("tx", "TxOut", {"amount": amount, "script_pubkey": spk}), "witness_script": ws, "redeem_script": None,
                                       "named_pubs": {("k", i): p for i, p in enumerate(pubs or [])}})
    honest = [named(x, "1/7") for x in xfps]
    spend = lambda: out_(5000, "spend-addr")
    cases = [("the honest change output (keys in order %s) and a payment" % "".join(str(i) for i in perm), [out_(900, "change-addr", [honest[i] for i in perm]), spend()], True)
             for perm in permutations(range(3))]
    cases.append(("a payment followed by the honest change output", [spend(), out_(900, "change-addr", list(honest))], True))
    for q in ((1, 3), (3, 3), (2, 2), (2, 4)):
        cases.append(("a change output with a %d-of-%d script" % q, [out_(900, "change-addr", list(honest), quorum=q), spend()], False))
    for pos in range(3):
        dup = list(honest)
        dup[pos] = named(xfps[(pos + 1) % 3], "1/8")
        cases.append(("a change output whose key %d is a second key of cosigner %s (nothing of cosigner %s)" % (pos, xfps[(pos + 1) % 3], xfps[pos]), [out_(900, "change-addr", dup), spend()], False))
        unk = list(honest)
        unk[pos] = named("dddddddd", "1/7")
        cases.append(("a change output whose key %d belongs to a cosigner outside the map" % pos, [out_(900, "change-addr", unk), spend()], False))
        wrong = list(honest)
        wrong[pos] = named(xfps[pos], "1/7", "1/9")
        cases.append(("a change output whose key %d is not the key the stated path leads to" % pos, [out_(900, "change-addr", wrong), spend()], False))
    cases.append(("a change output with two records for three keys", [out_(900, "change-addr", honest[:2]), spend()], False))
    # a script with another key count whose every key IS verified (as many records as keys, all of known, distinct cosigners): only the
    # comparison with the inputs' n can refuse it
    cases.append(("a 2-of-2 change output with one verified key of each of two cosigners", [out_(900, "change-addr", honest[:2], quorum=(2, 2)), spend()], False))
    cases.append(("a 2-of-4 change output with one verified key of each of four known cosigners", [out_(900, "change-addr", honest + [named("dddddddd", "1/7")], quorum=(2, 4)), spend()], False, 4))
    cases.append(("two change outputs", [out_(900, "change-addr", list(honest)), out_(800, "change-2", [named(x, "1/8") for x in xfps])], False))
    n = 0
    try:
        for case in cases:
            label, outs, ok = case[:3]
            n += 1
            me = Obj("psbt", "PSBT", {"psbt_outs": outs, "network": "testnet"})
            hm = dict(hdmap)
            if len(case) > 3:
                hm["dddddddd"] = Obj("hd", "HDPublicKey", {"xfp": "dddddddd", "depth": 4, "at": ("dddddddd", "m")})
            try:
                r = Evaluator(ctx.repo, method_hooks=hooks, max_steps=2000000).call(spec, [2, 3, hm], self_obj=me)
                acc = True
            except Raised as x:
                acc, r = False, x.name
            if acc != ok:
                ctx.count("cells", n)
                return [ctx.bad(spec, "%s: %s" % (label, "summarised, the output is labelled change" if acc else "refused (%s)" % r), fn, mod, key="outputs-cells")]
            if acc:
                descs = r.get("outputs_desc") if isinstance(r, dict) else None
                labels = {d.get("addr"): d.get("is_change") for d in descs} if isinstance(descs, list) else None
                if labels != {"change-addr": True, "spend-addr": False} or r.get("change_addr") != "change-addr" or r.get("change_sats") != 900 or r.get("spend_sats") != 5000 \
                        or r.get("spend_addr") != "spend-addr" or r.get("total_sats") != 5900:
                    ctx.count("cells", n)
                    return [ctx.bad(spec, "%s: summarised with labels %s, change %s/%s, spend %s/%s, total %s" % (
                        label, labels, r.get("change_addr"), r.get("change_sats"), r.get("spend_addr"), r.get("spend_sats"), r.get("total_sats")), fn, mod, key="outputs-cells")]
    except Undecided as u:
        return [ctx.err(spec, "output summary not evaluable: %s" % u, fn, mod)]
    ctx.count("cells", n)
    return [ctx.ok(spec, "%d output lists: change is reported exactly for a 2-of-3 output with one verified key of each of the three cosigners; amounts and addresses as given" % n,
                   fn, mod, key="outputs-cells")]


def c11_20(ctx):
    """CELLS output summary"""
    return _output_cells(ctx)


def c11_3(ctx):
    """distinct cosigners (GUARD over an accumulator); in another form the output-summary cells (C11.20) decide"""
    spec = "psbt:PSBT._describe_basic_multisig_outputs"
    try:
        out = _c11_3_struct(ctx)
    except AnalysisError as e:
        mod, fn = rl.get(ctx, spec)
        out = [ctx.err(spec, str(e), fn, mod)]
    return rl.defer(ctx, out, lambda: _output_cells(ctx), "decided by the output-summary cells (C11.20: a second key of one cosigner at any position is refused, the honest output in every key "
                    "order is change); the accumulator is not in the form this rule reads")


def _c11_3_struct(ctx):
    """distinct cosigners: a test over an accumulator of the per-key xfp values dominates the change label"""
    spec = "psbt:PSBT._describe_basic_multisig_outputs"
    mod, fn = rl.get(ctx, spec)
    cfg = cfg_of(fn)
    tg = [n for n in cfg.stmts(("stmt",)) if _is_change_store(n)]
    # accumulators: names that receive xfp through add/append/subscript-store inside the function
    acc = set()
    for n in cfg.stmts(("stmt",)):
        a = n.ast
        if isinstance(a, ast.Expr) and isinstance(a.value, ast.Call) and call_name(a.value) in ("add", "append") and isinstance(a.value.func.value, ast.Name):
            if any(isinstance(x, ast.Name) and x.id == "xfp" for x in ast.walk(a.value)) or "root_fingerprint" in ast.unparse(a.value):
                if not any(isinstance(d, ast.Dict) for d in ast.walk(a.value)):
                    acc.add(a.value.func.value.id)
        if isinstance(a, ast.Assign) and isinstance(a.targets[0], ast.Subscript) and isinstance(a.targets[0].value, ast.Name) and ast.unparse(a.targets[0].slice) == "xfp":
            acc.add(a.targets[0].value.id)
    tests = []
    for n in cfg.tests():
        names = {x.id for x in ast.walk(n.ast) if isinstance(x, ast.Name)}
        if names & acc:
            tests.append(n)
        elif isinstance(n.ast, ast.Compare) and isinstance(n.ast.ops[0], (ast.In, ast.NotIn)) and any(isinstance(x, ast.Name) and x.id == "xfp" for x in ast.walk(n.ast.left)) \
                and not any(isinstance(x, ast.Name) and x.id == "hdpubkey_map" for x in ast.walk(n.ast)):
            tests.append(n)
    if not tests:
        return [ctx.bad(spec, "nothing checks that the n keys of a change output come from n *distinct* cosigners: the per-key fingerprints are looked up one by one and never "
                        "accumulated and compared, so an output whose keys all derive from one cosigner's xpub is labelled change (the source carries the TODO)", tg[0].ast if tg else fn, mod, key="distinct-cosigners")]
    # one of the tests must be able to fail (raise) and lie before the label
    for n in tests:
        fails = any(not (cfg.reach([b]) & {t.id for t in tg}) for b, l in cfg.succ[n.id])
        if fails:
            return [ctx.ok(spec, "a test over the accumulated cosigner fingerprints (line %d) can reject the output before it is labelled change" % n.lineno, n.ast, mod, key="distinct-cosigners")]
    return [ctx.err(spec, "fingerprint accumulator found but no rejecting test recognised", fn, mod)]


def c11_4(ctx):
    spec = "psbt:PSBT._describe_basic_multisig_outputs"
    mod, fn = rl.get(ctx, spec)
    cfg = cfg_of(fn)

    def match(node, ex, atoms):
        t = node.ast
        if isinstance(t, ast.Name) and t.id in ("change_sats", "change_addr", "change_cnt"):
            return BAD_TRUE
        if isinstance(t, ast.Compare) and isinstance(t.left, ast.Name) and t.left.id in ("change_cnt", "changes_cnt") and isinstance(t.ops[0], (ast.Gt, ast.GtE)):
            return BAD_TRUE
        return None
    tg = lambda m, f: [n for n in cfg_of(f).stmts(("stmt",)) if isinstance(n.ast, ast.Assign) and isinstance(n.ast.targets[0], ast.Name) and n.ast.targets[0].id in ("change_addr", "change_sats") and n.loops]
    r = rl.guard(ctx, spec, match, targets=tg, what="a second change output is rejected", key="one-change")
    # both change_sats and change_addr tests must exist for the `or`: either suffices to block the second assignment
    return [r]


def c11_5(ctx):
    """per-iteration accounting"""
    spec = "psbt:PSBT._describe_basic_multisig_outputs"
    mod, fn = rl.get(ctx, spec)
    cfg = cfg_of(fn)
    outer = [lp for lp in cfg.loops.values() if isinstance(lp.stmt, ast.For) and "psbt_outs" in ast.unparse(lp.stmt.iter)]
    if not outer:
        raise AnalysisError("loop over psbt_outs not found")
    lp = outer[0]

    def nodes_assigning(name, aug=None):
        res = []
        for n in cfg.stmts(("stmt",)):
            a = n.ast
            if lp.head not in n.loops:
                continue
            if isinstance(a, ast.AugAssign) and isinstance(a.target, ast.Name) and a.target.id == name and isinstance(a.op, ast.Add):
                res.append(n)
            if isinstance(a, ast.Assign) and isinstance(a.targets[0], ast.Name) and a.targets[0].id == name and not aug:
                res.append(n)
        return res
    total = nodes_assigning("total_sats")
    spend = nodes_assigning("spend_sats")
    change = nodes_assigning("change_sats")
    out = []
    starts = []
    for a, label in lp.body_entry:
        starts += [b for b, l in cfg.succ[a] if l == label]
    body = set(lp.body) | {lp.head}

    def head_reachable(blocked):
        return lp.head in cfg.reach(starts, blocked=set(blocked), within=body)
    declared = {n.id for st in fn.body if isinstance(st, ast.Assign) for t in st.targets for n in ast.walk(t) if isinstance(n, ast.Name)}
    if not {"total_sats", "spend_sats", "change_sats"} <= declared:
        raise AnalysisError("accumulators total_sats / spend_sats / change_sats not found")
    missing = [nm for nm, lst in (("total_sats", total), ("spend_sats", spend), ("change_sats", change)) if not lst]
    if missing:
        return [ctx.bad(spec, "%s is initialised and reported in the summary but no output amount is ever added to it" % ", ".join(missing), lp.stmt, mod, key="accumulate:" + missing[0])]
    if head_reachable([n.id for n in total]):
        out.append(ctx.bad(spec, "an iteration can complete without adding the output amount to total_sats", total[0].ast, mod, key="total-always"))
    else:
        out.append(ctx.ok(spec, "every completed iteration adds the output amount to total_sats", total[0].ast, mod, key="total-always"))
    if head_reachable([n.id for n in spend + change]):
        out.append(ctx.bad(spec, "an iteration can complete without crediting the output to spend or change", spend[0].ast, mod, key="spend-xor-change"))
    else:
        both = False
        for s in spend:
            for c in change:
                if c.id in cfg.reach([s.id], within=body - {lp.head}) or s.id in cfg.reach([c.id], within=body - {lp.head}):
                    both = True
        if both:
            out.append(ctx.bad(spec, "one iteration can credit the same output to both spend and change", spend[0].ast, mod, key="spend-xor-change"))
        else:
            out.append(ctx.ok(spec, "every completed iteration credits the output to exactly one of spend / change", spend[0].ast, mod, key="spend-xor-change"))
    # the amounts credited are the output's own amount
    for n in total + spend + change:
        v = n.ast.value
        at = origins(fn, n.id, v)
        if "attrname:amount" in at or "const:'sats'" in at:
            continue
        out.append(ctx.bad(spec, "`%s` does not credit the output's amount" % ast.unparse(n.ast), n.ast, mod, key="amount-source:" + ast.unparse(n.ast.target if isinstance(n.ast, ast.AugAssign) else n.ast.targets[0])))
    return out


def c11_6(ctx):
    out = []
    spec = "psbt:PSBT.describe_basic_multisig"
    mod, fn = rl.get(ctx, spec)
    cfg = cfg_of(fn)
    # validate() is called on every path to the returned summary
    calls = [n for n, c in rl.find_calls(fn, "validate") if dotted(c.func.value) == "self"]
    rets = [n for n in cfg.returns() if n.ast is not None and isinstance(n.ast.value, ast.Dict)]
    if not rets:
        raise AnalysisError("summary dict return not found")
    if calls:
        r = cfg.reach([cfg.entry], blocked={c.id for c in calls})
        if any(x.id in r for x in rets):
            out.append(ctx.bad(spec, "the summary can be returned without self.validate()", rets[0].ast, mod, key="validate-first"))
        else:
            out.append(ctx.ok(spec, "self.validate() precedes the summary", calls[0].ast, mod, key="validate-first"))
    else:
        out.append(ctx.bad(spec, "describe_basic_multisig does not call self.validate()", fn, mod, key="validate-first"))
    # fee value in the summary is self.tx_obj.fee()
    d = rets[0].ast.value
    feeval = None
    for k, v in zip(d.keys, d.values):
        if isinstance(k, ast.Constant) and k.value == "tx_fee_sats":
            feeval = expand(fn, rets[0].id, v)
    if feeval is not None and ast.unparse(feeval) == "self.tx_obj.fee()":
        out.append(ctx.ok(spec, "tx_fee_sats is self.tx_obj.fee() of the PSBT's own transaction", d, mod, key="fee-source"))
    else:
        out.append(ctx.bad(spec, "tx_fee_sats is `%s`, expected self.tx_obj.fee()" % (ast.unparse(feeval) if feeval is not None else None), d, mod, key="fee-source"))
    # Tx.fee = Σ input values − Σ output amounts
    fmod, ffn = rl.get(ctx, "tx:Tx.fee")
    fcfg = cfg_of(ffn)
    good = False
    for n in fcfg.returns():
        v = n.ast.value
        if isinstance(v, ast.BinOp) and isinstance(v.op, ast.Sub):
            lo, ro = origins(ffn, n.id, v.left), origins(ffn, n.id, v.right)
            if "call:value" in lo and "attr:self.tx_ins" in lo and "attrname:amount" in ro and "attr:self.tx_outs" in ro and "call:value" not in ro:
                good = True
    out.append(ctx.ok("tx:Tx.fee", "fee = Σ input values − Σ output amounts", ffn, fmod, key="fee-formula") if good else
               ctx.bad("tx:Tx.fee", "fee is not Σ tx_in.value() − Σ tx_out.amount", ffn, fmod, key="fee-formula"))
    # input accounting in the input description
    ispec = "psbt:PSBT._describe_basic_multisig_inputs"
    imod, ifn = rl.get(ctx, ispec)
    icfg = cfg_of(ifn)
    adds = [n for n in icfg.stmts(("stmt",)) if isinstance(n.ast, ast.AugAssign) and isinstance(n.ast.target, ast.Name) and n.ast.target.id == "total_input_sats"]
    if adds and "call:value" in origins(ifn, adds[0].id, adds[0].ast.value):
        out.append(ctx.ok(ispec, "total_input_sats accumulates tx_in.value() per input", adds[0].ast, imod, key="input-total"))
    else:
        oo = origins(ifn, adds[0].id, adds[0].ast.value) if adds else set()
        from_records = adds and "attrname:amount" in oo and ("attrname:prev_tx" in oo or "attrname:prev_out" in oo)
        agree = [r for r in c11_14(ctx) if r.status == "ok"]
        if from_records and agree:
            # another source than the fee's, but one that validate() ties to it: both UTXO records are compared with each other
            # (C11.14) and tx_in.value() is set from them when the PSBT is read
            out.append(ctx.ok(ispec, "total_input_sats accumulates the amount of the input's UTXO record; validate() makes the records agree (C11.14)", adds[0].ast, imod,
                              key="input-total"))
        else:
            out.append(ctx.bad(ispec, "total_input_sats does not accumulate tx_in.value()%s" % (
                " but the amount of a UTXO record, and nothing makes the two records of an input agree: the total and the fee can come from different records"
                if from_records else ""), ifn, imod, key="input-total"))
    return out


def c11_7(ctx):
    spec = "psbt:PSBTIn.validate"
    mod, fn = rl.get(ctx, spec)
    cfg = cfg_of(fn)
    start = [n for n in cfg.tests() if dotted(n.ast) == "self.prev_tx"]
    if not start:
        raise AnalysisError("PSBTIn.validate: test of self.prev_tx not found")
    src = [(start[0].id, True)]

    def m_hash(node, ex, atoms):
        t = node.ast
        if isinstance(t, ast.Compare) and len(t.ops) == 1 and isinstance(t.ops[0], (ast.Eq, ast.NotEq)):
            s = {ast.unparse(t.left), ast.unparse(t.comparators[0])}
            if s == {"self.tx_in.prev_tx", "self.prev_tx.hash()"}:
                return BAD_TRUE if isinstance(t.ops[0], ast.NotEq) else BAD_FALSE
        return None

    def m_idx(node, ex, atoms):
        t = node.ast
        r = rl.rel(t, "self.tx_in.prev_index", "len(self.prev_tx.tx_outs)")
        if r == ">=":
            return BAD_TRUE
        if r == "<":
            return BAD_FALSE
        return None
    return [
        rl.guard(ctx, spec, m_hash, what="a supplied previous transaction must hash to the input's prev_tx", key="prev-hash", sources=src),
        rl.guard(ctx, spec, m_idx, what="the input's output index must exist in the supplied previous transaction", key="prev-index", sources=src),
    ]


def c11_8(ctx):
    spec = "psbt_helper:create_multisig_psbt"
    mod, fn = rl.get(ctx, spec)

    def ne(pred):
        def match(node, ex, atoms):
            t = node.ast
            if isinstance(t, ast.Compare) and len(t.ops) == 1 and isinstance(t.ops[0], (ast.Eq, ast.NotEq)):
                l, r = ast.unparse(t.left), ast.unparse(t.comparators[0])
                if pred(l, r) or pred(r, l):
                    return BAD_TRUE if isinstance(t.ops[0], ast.NotEq) else BAD_FALSE
            return None
        return match
    out = []
    cfg = cfg_of(fn)
    # per-input checks: per iteration of the inputs loop
    in_loop = [lp for lp in cfg.loops.values() if isinstance(lp.stmt, ast.For) and "input_dicts" in ast.unparse(lp.stmt.iter)]
    out_loop = [lp for lp in cfg.loops.values() if isinstance(lp.stmt, ast.For) and "output_dicts" in ast.unparse(lp.stmt.iter)]
    if not in_loop or not out_loop:
        raise AnalysisError("input/output loops of create_multisig_psbt not found")
    checks = [
        (in_loop[0], ne(lambda a, b: "hash_hex" in a and ".hash()" in b), "declared previous-transaction hash equals the hash of the supplied hex", "prev-hash"),
        (in_loop[0], ne(lambda a, b: "output_sats" in a and ".amount" in b), "declared UTXO amount equals the amount in the supplied previous transaction", "utxo-amount"),
        (in_loop[0], ne(lambda a, b: a.startswith("redeem_script.address(") and "script_pubkey.address(" in b), "the m-of-n redeem script built from the supplied paths hashes to the UTXO's address", "utxo-address"),
    ]
    for lp, match, what, k in checks:
        gs = find_guards(mod, fn, match)
        gs = [g for g in gs if lp.head in g.node.loops]
        ok, wit = loop_iteration_guard(fn, lp, gs) if gs else (False, "no such comparison in the loop")
        if ok:
            out.append(ctx.ok(spec, what, gs[0].node.ast, mod, key=k))
        else:
            out.append(ctx.bad(spec, "not enforced: %s (%s)" % (what, wit), lp.stmt, mod, key=k))
    # change outputs: only on the path where a path_dict is given
    m_change = ne(lambda a, b: a.startswith("redeem_script.address(") and "output_dict['address']" in b)
    gs = [g for g in find_guards(mod, fn, m_change) if out_loop[0].head in g.node.loops]
    pd = [n for n in cfg.tests() if "path_dict" in ast.unparse(n.ast) and out_loop[0].head in n.loops]
    if gs and pd:
        removed = {(g.node.id, g.pass_label) for g in gs} | {(pd[0].id, False)}
        starts = [b for b, l in cfg.succ[pd[0].id] if l is True]
        r = cfg.reach(starts, removed=removed, within=set(out_loop[0].body) | {out_loop[0].head})
        if out_loop[0].head in r:
            out.append(ctx.bad(spec, "a declared change output can be accepted without comparing the address of its re-derived script with the declared address", pd[0].ast, mod, key="change-address"))
        else:
            out.append(ctx.ok(spec, "declared change outputs: the address of the re-derived m-of-n script equals the declared address", gs[0].node.ast, mod, key="change-address"))
    else:
        out.append(ctx.bad(spec, "no comparison of a change output's re-derived address with the declared address", fn, mod, key="change-address"))
    # fee
    out.append(rl.guard(ctx, spec, ne(lambda a, b: a == "fee_sats" and "calculated_fee" in b), what="declared fee equals inputs minus outputs", key="fee"))
    return out


def c11_9(ctx):
    """The n of `get_quorum` is the number of keys in the script *and* the value of OP_n: the summary compares it with the
    inputs' n and with the number of named keys, so a script `OP_m K1…Kn X OP_n CHECKMULTISIG` (an extra key) or an OP_n
    that differs from the key count must not be summarised as the wallet's m-of-n."""
    out = []
    for spec in ("script:RedeemScript.get_quorum", "script:WitnessScript.get_quorum"):
        mod, fn = rl.get(ctx, spec)
        cfg = cfg_of(fn)
        rets = [n for n in cfg.returns() if n.ast is not None and isinstance(n.ast.value, ast.Tuple) and len(n.ast.value.elts) == 2]
        if not rets:
            raise AnalysisError("%s: `return m, n` not found" % spec)

        def kinds(nid, e):
            at = origins(fn, nid, e)
            txt = ast.unparse(expand(fn, nid, e, depth=6))
            return ("len(self.commands)" in txt, "self.commands[-2]" in txt)
        for n in rets:
            cnt, opn = kinds(n.id, n.ast.value.elts[1])
            # a guard relating the two readings before the return

            def match(node, ex, atoms):
                t = node.ast
                if isinstance(t, ast.Compare) and len(t.ops) == 1 and isinstance(t.ops[0], (ast.Eq, ast.NotEq)):
                    a = kinds(node.id, t.left)
                    b = kinds(node.id, t.comparators[0])
                    if (a[0] and b[1] and not a[1] and not b[0]) or (a[1] and b[0] and not a[0] and not b[1]):
                        return BAD_TRUE if isinstance(t.ops[0], ast.NotEq) else BAD_FALSE
                return None
            from sa.guard import check_guard, find_guards
            gs = find_guards(mod, fn, match)
            ok = False
            if gs:
                ok, msg, wit = check_guard(mod, fn, gs, [n.id])
            if ok and (cnt or opn):
                out.append(ctx.ok(spec, "n is returned only when OP_n equals the number of keys (len(commands) - 3)", n.ast, mod, key="n-counts-keys"))
            elif cnt and not opn:
                out.append(ctx.bad(spec, "n is the number of pushed elements but OP_n is never compared with it: `OP_2 A B C OP_4 CHECKMULTISIG` is reported as 2-of-3",
                                   n.ast, mod, key="n-counts-keys"))
            elif opn and not cnt:
                out.append(ctx.bad(spec, "n is read from the OP_n opcode and the number of keys in the script is never compared with it: `OP_2 A B C X OP_3 CHECKMULTISIG` "
                                         "(an extra key) is reported as 2-of-3 and an output committing to it is labelled change", n.ast, mod, key="n-counts-keys"))
            else:
                out.append(ctx.err(spec, "how n is obtained is not recognised: `%s`" % ast.unparse(expand(fn, n.id, n.ast.value.elts[1], depth=6))[:100], n.ast, mod))
    return out


def c11_10(ctx):
    """the summary recomputes every derived key: nothing is remembered under a key that leaves out the xpub, path or script"""
    from sa.memo import cache_obligation
    return cache_obligation(ctx, ["psbt", "psbt_helper", "hd", "script"], "a derivation checked for one xpub would vouch for another")


def _membership_sites(fn, script_attr):
    """-> (good, wrong, other): statements of fn that relate the named pubkeys to `self.<script_attr>.commands`
    good : per-key checks (`for sec in named_pubs: commands.index(sec)` under try/except-raise, `if sec not in commands: raise`,
           `set(named) <= set(commands)`, `.issubset`, `all(...)`) -- every key must be present
    wrong: existential forms (`isdisjoint`, `any(...)`, non-empty intersection, a loop that stops at the first hit)"""
    good, wrong, other = [], [], []
    tgt = "self.%s.commands" % script_attr

    def mentions(node, text):
        return any(ast.unparse(x) == text for x in ast.walk(node) if isinstance(x, ast.Attribute))

    def keyish(node, names):
        return any((isinstance(x, ast.Attribute) and x.attr == "named_pubs") or (isinstance(x, ast.Name) and x.id in names) for x in ast.walk(node))
    # locals that hold (a view of) the script's commands or of the named pubkeys
    cmd_names, key_names = set(), set()
    for _ in range(2):
        for st in ast.walk(fn):
            if isinstance(st, ast.Assign) and len(st.targets) == 1 and isinstance(st.targets[0], ast.Name):
                if mentions(st.value, tgt) or any(isinstance(x, ast.Name) and x.id in cmd_names for x in ast.walk(st.value)):
                    cmd_names.add(st.targets[0].id)
                if keyish(st.value, key_names) and not mentions(st.value, tgt):
                    key_names.add(st.targets[0].id)
            elif isinstance(st, ast.For) and isinstance(st.target, ast.Name):
                if mentions(st.iter, tgt) or any(isinstance(x, ast.Name) and x.id in cmd_names for x in ast.walk(st.iter)):
                    # elements collected from the commands (`for c in commands: if ...: secs.add(c)`)
                    for x in ast.walk(st):
                        if isinstance(x, ast.Call) and isinstance(x.func, ast.Attribute) and x.func.attr in ("add", "append") and isinstance(x.func.value, ast.Name):
                            cmd_names.add(x.func.value.id)

    def is_cmd(e):
        return mentions(e, tgt) or any(isinstance(x, ast.Name) and x.id in cmd_names for x in ast.walk(e))
    for st in ast.walk(fn):
        if isinstance(st, ast.For) and keyish(st.iter, key_names) and not is_cmd(st.iter):
            var = {x.id for x in ast.walk(st.target) if isinstance(x, ast.Name)}
            hit = None
            for x in ast.walk(st):
                if isinstance(x, ast.Call) and isinstance(x.func, ast.Attribute) and x.func.attr == "index" and is_cmd(x.func.value) and x.args \
                        and isinstance(x.args[0], ast.Name) and x.args[0].id in var:
                    hit = x
                elif isinstance(x, ast.Compare) and len(x.ops) == 1 and isinstance(x.ops[0], (ast.In, ast.NotIn)) and isinstance(x.left, ast.Name) and x.left.id in var \
                        and is_cmd(x.comparators[0]):
                    hit = x
            if hit is None:
                continue
            early = [x for x in ast.walk(st) if isinstance(x, (ast.Break, ast.Return))]
            raises = [x for x in ast.walk(st) if isinstance(x, ast.Raise)]
            if early:
                wrong.append((st, "the loop over the named pubkeys stops at the first key (line %d)" % early[0].lineno))
            elif raises:
                good.append(st)
            else:
                other.append(st)
        elif isinstance(st, ast.If):
            t = st.test
            for x in ast.walk(t):
                if isinstance(x, ast.Call) and isinstance(x.func, ast.Attribute) and x.func.attr in ("isdisjoint", "intersection") and \
                        ((is_cmd(x.func.value) and x.args and keyish(x.args[0], key_names)) or (keyish(x.func.value, key_names) and x.args and is_cmd(x.args[0]))):
                    wrong.append((st, "`%s` only asks whether *some* named pubkey is in the script" % ast.unparse(x)))
                elif isinstance(x, ast.Call) and isinstance(x.func, ast.Name) and x.func.id == "any" and is_cmd(x) and keyish(x, key_names):
                    wrong.append((st, "`%s` only asks whether *some* named pubkey is in the script" % ast.unparse(x)[:80]))
                elif isinstance(x, ast.BinOp) and isinstance(x.op, ast.BitAnd) and is_cmd(x) and keyish(x, key_names):
                    wrong.append((st, "`%s` (non-empty intersection) only asks whether *some* named pubkey is in the script" % ast.unparse(x)[:80]))
                elif isinstance(x, ast.Call) and isinstance(x.func, ast.Attribute) and x.func.attr in ("issubset", "issuperset") and is_cmd(x) and keyish(x, key_names):
                    sub_is_keys = keyish(x.func.value, key_names) if x.func.attr == "issubset" else (x.args and keyish(x.args[0], key_names))
                    (good if sub_is_keys and any(isinstance(r, ast.Raise) for r in ast.walk(st)) else other).append(st)
                elif isinstance(x, ast.Compare) and len(x.ops) == 1 and isinstance(x.ops[0], (ast.LtE, ast.GtE, ast.Lt, ast.Gt)) and is_cmd(x) and keyish(x, key_names) \
                        and all(isinstance(o, ast.Call) and isinstance(o.func, ast.Name) and o.func.id in ("set", "frozenset") or isinstance(o, ast.Name) for o in (x.left, x.comparators[0])):
                    small, big = (x.left, x.comparators[0]) if isinstance(x.ops[0], (ast.LtE, ast.Lt)) else (x.comparators[0], x.left)
                    if keyish(small, key_names) and is_cmd(big) and any(isinstance(r, ast.Raise) for r in ast.walk(st)):
                        good.append(st)
                    else:
                        other.append(st)
                elif isinstance(x, ast.Call) and isinstance(x.func, ast.Name) and x.func.id == "all" and is_cmd(x) and keyish(x, key_names):
                    (good if any(isinstance(r, ast.Raise) for r in ast.walk(st)) else other).append(st)
    return good, wrong, other


def c11_11(ctx):
    """every named (BIP32-derived) pubkey of an input / output must be one of the keys in the attached redeem / witness script:
    the check quantifies over *all* named keys -- one matching key among foreign ones is not enough"""
    out = []
    for spec in ("psbt:PSBTIn.validate", "psbt:PSBTOut.validate"):
        mod, fn = rl.get(ctx, spec)
        for attr in ("witness_script", "redeem_script"):
            good, wrong, other = _membership_sites(fn, attr)
            ctx.count("call_sites", len(good) + len(wrong) + len(other))
            key = "all-keys-in:%s" % attr
            if wrong:
                st, why = wrong[0]
                out.append(ctx.bad(spec, "named pubkeys vs %s: %s; an output whose script holds one wallet key next to foreign keys passes as the wallet's own" % (attr, why),
                                   st, mod, key=key))
            elif good:
                out.append(ctx.ok(spec, "every named pubkey is required to occur in self.%s.commands (%d check(s), failing raises)" % (attr, len(good)), good[0], mod, key=key))
            elif other:
                out.append(ctx.err(spec, "relation between the named pubkeys and self.%s.commands not recognised: `%s`" % (attr, ast.unparse(other[0])[:90]), other[0], mod))
            else:
                out.append(ctx.bad(spec, "no statement relates the named pubkeys to self.%s.commands: a derivation for a key that is not in the attached script is accepted" % attr,
                                   fn, mod, key=key))
    return out


def c11_15(ctx):
    """SEEN-SET consistency: a local set that is both filled (`S.add(a)`) and consulted (`b in S`) must be filled with what it is
    consulted for.  The per-cosigner check of a change output remembers the root fingerprints it has met; if it stores one
    representation (bytes) and looks up another (hex text) the test can never fire, and one cosigner may supply every key"""
    out = []
    n_sets = 0
    for spec in ("psbt:PSBT._describe_basic_multisig_outputs", "psbt:PSBT._describe_basic_multisig_inputs", "psbt:PSBT.describe_basic_multisig"):
        if not ctx.repo.has_func(spec):
            continue
        mod, fn = rl.get(ctx, spec)
        cfg = cfg_of(fn)
        sets = {}
        for n in cfg.nodes:
            if n.ast is None or isinstance(n.ast, (ast.FunctionDef, ast.ClassDef)) or n.kind == "join":
                continue
            root = n.ast.iter if n.kind == "for" else n.ast
            for x in ast.walk(root):
                if isinstance(x, ast.Call) and isinstance(x.func, ast.Attribute) and x.func.attr == "add" and isinstance(x.func.value, ast.Name) and x.args:
                    sets.setdefault(x.func.value.id, {"add": [], "in": []})["add"].append((x, ast.unparse(expand(fn, n.id, x.args[0], depth=3))))
                if isinstance(x, ast.Compare) and len(x.ops) == 1 and isinstance(x.ops[0], (ast.In, ast.NotIn)) and isinstance(x.comparators[0], ast.Name):
                    sets.setdefault(x.comparators[0].id, {"add": [], "in": []})["in"].append((x, ast.unparse(expand(fn, n.id, x.left, depth=3))))
        for name, v in sorted(sets.items()):
            if not (v["add"] and v["in"]):
                continue
            n_sets += 1
            added, asked = {t for _, t in v["add"]}, {t for _, t in v["in"]}
            if added == asked:
                out.append(ctx.ok(spec, "`%s` is filled with and consulted for `%s`" % (name, sorted(added)[0]), v["add"][0][0], mod, key="seen-set:" + name))
            else:
                out.append(ctx.bad(spec, "`%s` is filled with `%s` but consulted for `%s`: the two never compare equal (bytes vs text, key vs fingerprint), so the "
                                         "\"already seen\" test cannot fire and the condition it guards is not enforced" % (name, sorted(added)[0], sorted(asked)[0]),
                                   v["add"][0][0], mod, key="seen-set:" + name))
    if not n_sets:
        raise AnalysisError("describe_basic_multisig: no seen-set found (the per-cosigner check of change outputs keeps one)")
    return out


def c11_12(ctx):
    """COVER: on *every* path through validate on which a redeem / witness script is attached, the named pubkeys are tied to a
    script before the normal exit -- by the per-key membership check against that script, by the membership check against the
    witness script it wraps (p2sh-p2wsh), or by the single-key hash160 comparison (p2wpkh forms).  A branch that accepts the
    script's hash and then leaves without looking at the keys lets derivations for keys that are not in the script through"""
    out = []
    for spec, exempt in (("psbt:PSBTIn.validate", _no_utxo_exempt), ("psbt:PSBTOut.validate", None)):
        mod, fn = rl.get(ctx, spec)
        cfg = cfg_of(fn)
        heads = set()
        for attr in ("witness_script", "redeem_script"):
            good, wrong, other = _membership_sites(fn, attr)
            for st in good:
                for lp in cfg.loops.values():
                    if lp.stmt is st:
                        heads.add(lp.head)
                for n in cfg.tests():
                    if any(n.ast is y for y in ast.walk(st.test)) if isinstance(st, ast.If) else False:
                        heads.add(n.id)

        def hmatch(node, ex, atoms):
            t = node.ast
            if isinstance(t, ast.Compare) and len(t.ops) == 1 and isinstance(t.ops[0], (ast.Eq, ast.NotEq)):
                l, r = ast.unparse(t.left), ast.unparse(t.comparators[0])
                if ("named_pub.hash160()" in (l, r)) or ("hash160()" in l + r and "named_pub" in l + r):
                    return BAD_TRUE if isinstance(t.ops[0], ast.NotEq) else BAD_FALSE
            return None
        gs = find_guards(mod, fn, hmatch)
        # the single-key comparison written as a loop over the named pubkeys (`for named_pub in self.named_pubs.values(): if <hash160 differs>: raise`):
        # every key that is named passes the comparison; the path around the loop names no key
        for lp in cfg.loops.values():
            if isinstance(lp.stmt, ast.For) and "self.named_pubs" in ast.unparse(lp.stmt.iter) and any(g.node.id in lp.body for g in gs):
                heads.add(lp.head)
        # p2wpkh arms look at the key only when exactly one is named: `len(named_pubs) == 1`; zero keys need no tie
        rets = [n.id for n in cfg.returns()]
        for attr in ("redeem_script", "witness_script"):
            removed = {(g.node.id, g.pass_label) for g in gs} | set(_absent_edges(fn, attr))
            # paths on which no key is named at all are outside the clause
            for n in cfg.tests():
                r = rl.rel(n.ast, lambda e: ast.unparse(e) == "len(self.named_pubs)", lambda e: isinstance(e, ast.Constant) and e.value == 1)
                if r == "==":
                    removed.add((n.id, False))
                elif r == "!=":
                    removed.add((n.id, True))
            forbid = exempt(fn) if exempt else ()
            r, p = reach_ps(cfg, [cfg.entry], removed=removed, blocked=frozenset(heads), targets=rets, forbid=forbid)
            if r is None:
                raise AnalysisError("%s: state budget exceeded" % spec)
            if p is None:
                out.append(ctx.ok(spec, "whenever %s is attached, the named pubkeys are tied to a script (membership / single-key hash) on every path to the normal exit" % attr,
                                  fn, mod, key="keys-tied:%s" % attr))
            else:
                out.append(ctx.bad(spec, "a path reaches the normal exit with self.%s attached and accepted but the named pubkeys never compared with any script: %s" % (
                    attr, cfg.fmt_path(p)), fn, mod, key="keys-tied:%s" % attr, detail={"path": cfg.fmt_path(p)}))
    return out


def c11_13(ctx):
    """TYPE of the committing scriptPubKey: an attached witness script is only accepted for a scriptPubKey that is p2wsh, or p2sh
    (wrapping a p2wsh redeem script) -- comparing its sha256 with `commands[1]` of any two-command script (OP_1 <32 bytes>, a
    taproot output) is not a commitment to that multisig script"""
    out = []
    for spec, exempt in (("psbt:PSBTIn.validate", _no_utxo_exempt), ("psbt:PSBTOut.validate", None)):
        mod, fn = rl.get(ctx, spec)
        cfg = cfg_of(fn)

        def match(node, ex, atoms):
            t = node.ast
            if isinstance(t, ast.Call) and call_name(t) in ("is_p2wsh", "is_p2sh") and isinstance(t.func, ast.Attribute) and "script_pubkey" in ast.unparse(t.func.value) \
                    and "redeem" not in ast.unparse(t.func.value):
                return BAD_FALSE
            return None
        gs = find_guards(mod, fn, match)
        removed = {(g.node.id, g.pass_label) for g in gs} | set(_absent_edges(fn, "witness_script"))
        rets = [n.id for n in cfg.returns()]
        forbid = exempt(fn) if exempt else ()
        r, p = reach_ps(cfg, [cfg.entry], removed=removed, targets=rets, forbid=forbid)
        if r is None:
            raise AnalysisError("%s: state budget exceeded" % spec)
        if p is None:
            out.append(ctx.ok(spec, "an attached witness script is accepted only after the scriptPubKey was found to be p2wsh or p2sh (%d test(s))" % len(gs), fn, mod, key="ws-needs-p2wsh"))
        else:
            out.append(ctx.bad(spec, "a witness script is accepted without the scriptPubKey being p2wsh / p2sh: its sha256 is compared with commands[1] of whatever script is "
                                     "there, so an output OP_1 <sha256(script)> (taproot, unspendable by the wallet) passes as the wallet's change; path: %s" % cfg.fmt_path(p),
                               fn, mod, key="ws-needs-p2wsh", detail={"path": cfg.fmt_path(p)}))
    return out


def c11_14(ctx):
    """AGREEMENT of the two UTXO records: when an input carries both the previous transaction and a witness UTXO, the witness UTXO
    must be the output the previous transaction has at that index (amount and script) -- the summary takes the input amount from
    one of them"""
    spec = "psbt:PSBTIn.validate"
    mod, fn = rl.get(ctx, spec)
    cfg = cfg_of(fn)

    def match(node, ex, atoms):
        t = node.ast
        if isinstance(t, ast.Compare) and len(t.ops) == 1 and isinstance(t.ops[0], (ast.Eq, ast.NotEq)):
            l, r = ast.unparse(expand(fn, node.id, t.left, depth=4)), ast.unparse(expand(fn, node.id, t.comparators[0], depth=4))
            for a, b in ((l, r), (r, l)):
                if "self.prev_out" in a and "self.prev_tx.tx_outs" in b and "self.prev_tx" not in a:
                    return BAD_TRUE if isinstance(t.ops[0], ast.NotEq) else BAD_FALSE
        return None
    gs = find_guards(mod, fn, match)
    removed = {(g.node.id, g.pass_label) for g in gs} | set(_absent_edges(fn, "prev_tx")) | set(_absent_edges(fn, "prev_out"))
    rets = [n.id for n in cfg.returns()]
    r, p = reach_ps(cfg, [cfg.entry], removed=removed, targets=rets)
    if r is None:
        raise AnalysisError("%s: state budget exceeded" % spec)
    if p is None:
        return [ctx.ok(spec, "with both UTXO records present, the witness UTXO is compared with prev_tx.tx_outs[prev_index] before the normal exit", gs[0].node.ast if gs else fn, mod,
                       key="utxo-records-agree")]
    return [ctx.bad(spec, "an input carrying both a previous transaction and a witness UTXO is accepted without comparing them: the witness UTXO may state any amount "
                          "(the summary's input total and fee then differ from the real ones); path: %s" % cfg.fmt_path(p), fn, mod, key="utxo-records-agree",
                    detail={"path": cfg.fmt_path(p)})]


def c11_16(ctx):
    """SET-ORDER: no ordered result (list, serialisation, yielded sequence) of the modules this property is anchored in takes its
    order from the iteration order of a set"""
    from sa.setorder import setorder_obligation
    return setorder_obligation(ctx, ["psbt", "psbt_helper", "hd", "script"], "the same inputs give different output from run to run")


def c11_17(ctx):
    """SHARED necessary conditions over the modules this property is anchored in: FALSY-DEFAULT, MUTABLE-DEFAULT, IDENTITY, ALIAS,
    CTOR-FORWARD (sa/shared.py)"""
    from sa.shared import shared_obligations
    return shared_obligations(ctx, ["psbt", "psbt_helper", "hd", "script"], "the result would depend on something other than the arguments and the object's current state")


def c11_18(ctx):
    """Only `m <keys> n OP_CHECKMULTISIG` is taken for the wallet's multisig: the two recognisers (`is_p2wsh_multisig`, `is_p2sh_multisig`) are
    evaluated on `OP_2 <k1> <k2> <k3> OP_3 <last>` for *every* value 0..255 of the last opcode (the complete domain of that byte) and for a
    data element in its place; they may answer yes only for 174."""
    from sa.cells import Evaluator, Obj, Raised, Undecided
    out = []
    for spec, cls in (("script:WitnessScript.is_p2wsh_multisig", "WitnessScript"), ("script:RedeemScript.is_p2sh_multisig", "RedeemScript")):
        mod, fn = rl.get(ctx, spec)
        bad = None
        for last in list(range(256)) + [b"\xae", b"\x02" * 33]:
            ctx.count("cells")
            me = Obj("script", cls, {"commands": [0x52, b"\x02" * 33, b"\x03" * 33, b"\x02" + b"\x11" * 32, 0x53, last]})
            try:
                r = Evaluator(ctx.repo).call(spec, [], self_obj=me)
            except Raised:
                r = False
            except Undecided as u:
                out.append(ctx.err(spec, "recogniser not evaluable for last element %r: %s" % (last, u), fn, mod))
                bad = "undecided"
                break
            if bool(r) != (last == 174):
                bad = last
                break
        if bad == "undecided":
            continue
        if bad is None:
            out.append(ctx.ok(spec, "answers yes only for a script ending in OP_CHECKMULTISIG (all 256 values of the last opcode evaluated)", fn, mod, key="multisig-shape:" + cls))
        elif bad == 174:
            out.append(ctx.bad(spec, "`OP_2 <k1> <k2> <k3> OP_3 OP_CHECKMULTISIG` is not recognised as multisig", fn, mod, key="multisig-shape:" + cls))
        else:
            shown = ("opcode %d (0x%02x)" % (bad, bad)) if isinstance(bad, int) else "a data element"
            out.append(ctx.bad(spec, "`OP_2 <k1> <k2> <k3> OP_3 <last>` with last = %s is taken for the wallet's multisig: an output committing to that script is labelled "
                                     "change although it is not the m-of-n CHECKMULTISIG policy%s" % (shown, " (OP_CHECKMULTISIGVERIFY leaves nothing on the stack: unspendable)" if bad == 175 else ""),
                               fn, mod, key="multisig-shape:" + cls))
    return out


def c11_19(ctx):
    """PSBT._describe_basic_multisig_inputs evaluated with scripts, keys and derivation as stand-ins: (a) the inputs of a summary share one
    quorum -- a list of inputs in which one input, at any position, has another m or another n is refused; (b) a derivation record is accepted
    only when the key found by deriving the cosigner's xpub along the STATED path, below the xpub's own depth, is the key in the script: a
    record whose stated path has extra or other steps below the xpub (so that it names another key) is refused, whatever its last two steps
    are"""
    from sa.cells import Evaluator, Obj, Raised, Undecided
    spec = "psbt:PSBT._describe_basic_multisig_inputs"
    mod, fn = rl.get(ctx, spec)
    XPUB_PATH = "m/48'/1'/0'/2'"

    def trav(o, path, *a, **k):
        return Obj("hd", "HDPublicKey", {"at": (o.attrs["xfp"], path.lower().replace("h", "'"))})
    hooks = {("PSBTIn", "validate"): lambda o: True, ("Script", "get_quorum"): lambda o: o.attrs["quorum"], ("Script", "address"): lambda o, network="mainnet", **k: "addr",
             ("HDPublicKey", "traverse"): trav, ("HDPublicKey", "sec"): lambda o, *a, **k: ("sec|%s|%s" % o.attrs["at"]).encode(), ("HDPublicKey", "xpub"): lambda o, *a, **k: "xpub-" + o.attrs["xfp"],
             ("S256Point", "sec"): lambda o, *a, **k: o.attrs["sec_"], ("TxIn", "value"): lambda o, *a, **k: 1000, ("Script", "__repr__"): lambda o: "script",
             ("Script", "__str__"): lambda o: "script"}
    xfps = ["aaaaaaaa", "bbbbbbbb", "cccccccc"]
    hdmap = {x: Obj("hd", "HDPublicKey", {"xfp": x, "depth": 4, "at": (x, "m")}) for x in xfps}

    def named(xfp, true_tail, stated_path):
        return Obj("psbt", "NamedPublicKey", {"root_fingerprint": bytes.fromhex(xfp), "root_path": stated_path, "sec_": ("sec|%s|m/%s" % (xfp, true_tail)).encode()})

    def psbt_in(m, n, tails=None, stated=None):
        tails = tails or {x: "0/5" for x in xfps}
        stated = stated or {x: XPUB_PATH + "/" + tails[x] for x in xfps}
        pubs = {("k", x): named(x, tails[x], stated[x]) for x in xfps}
        return Obj("psbt", "PSBTIn", {"witness_script": Obj("script", "WitnessScript", {"quorum": (m, n)}), "redeem_script": None, "named_pubs": pubs,
                                      "tx_in": Obj("tx", "TxIn", {"prev_tx": b"\x01" * 32, "prev_index": 0, "sequence": 0xFFFFFFFF})})

    def run(ins):
        me = Obj("psbt", "PSBT", {"psbt_ins": ins, "network": "testnet"})
        try:
            r = Evaluator(ctx.repo, method_hooks=hooks, max_steps=2000000).call(spec, [dict(hdmap)], self_obj=me)
            return True, r
        except Raised as x:
            return False, x.name
    out = []
    try:
        bad = None
        cases = [([(2, 3)], True), ([(2, 3), (2, 3)], True), ([(2, 3), (2, 3), (2, 3)], True)]
        for other in ((1, 3), (3, 3), (2, 2), (2, 4)):
            for n_in in (2, 3):
                for pos in range(n_in):
                    q = [(2, 3)] * n_in
                    q[pos] = other
                    cases.append((q, False))
        for quorums, ok in cases:
            ctx.count("cells")
            acc, r = run([psbt_in(m, n) for m, n in quorums])
            if acc != ok:
                bad = "inputs with quorums %s are %s" % (["%d-of-%d" % q for q in quorums], "summarised as one wallet's although they differ in threshold or key count" if acc else "refused (%s)" % r)
                break
            if acc and (r.get("inputs_quorum_m"), r.get("inputs_quorum_n")) != (2, 3):
                bad = "inputs with quorum 2-of-3 are summarised as %s-of-%s" % (r.get("inputs_quorum_m"), r.get("inputs_quorum_n"))
                break
        out.append(ctx.bad(spec, bad, fn, mod, key="inputs-quorum") if bad else ctx.ok(spec, "%d input lists: one quorum (m and n) for all inputs, an odd input refused at every position" % len(cases),
                                                                                    fn, mod, key="inputs-quorum"))
        bad = None
        pcases = [("honest path", "0/5", XPUB_PATH + "/0/5", True), ("honest path, h notation", "1/0", "m/48h/1h/0h/2h/1/0", True),
                  ("an extra step below the xpub", "1/0", XPUB_PATH + "/7/1/0", False), ("another index", "1/0", XPUB_PATH + "/1/1", False),
                  ("another branch", "1/0", XPUB_PATH + "/0/0", False), ("a step missing", "1/0", XPUB_PATH + "/0", False), ("two extra steps", "1/0", XPUB_PATH + "/3/4/1/0", False)]
        for label, tail, stated, ok in pcases:
            for who in xfps[:2]:
                ctx.count("cells")
                tails = {x: tail for x in xfps}
                st = {x: XPUB_PATH + "/" + tail for x in xfps}
                st[who] = stated
                acc, r = run([psbt_in(2, 3, tails, st)])
                if acc != ok:
                    bad = "a derivation record of cosigner %s with %s (key at <xpub>/%s, stated path %s) is %s" % (
                        who, label, tail, stated, "accepted: the stated path does not lead to the key, the summary vouches for a wrong path" if acc else "refused (%s)" % r)
                    break
            if bad:
                break
        out.append(ctx.bad(spec, bad, fn, mod, key="inputs-path") if bad else ctx.ok(spec, "%d derivation records: accepted exactly when the stated path below the xpub leads to the key" % (2 * len(pcases)),
                                                                                  fn, mod, key="inputs-path"))
    except Undecided as u:
        return [ctx.err(spec, "input summary not evaluable: %s" % u, fn, mod)]
    return out



OBLIGATIONS = [
    ("C11.19", "CELLS input summary", c11_19),
    ("C11.20", "CELLS output summary", c11_20),
    ("C11.18", "CELLS opcode", c11_18),
    ("C11.17", "SHARED", c11_17),
    ("C11.16", "SET-ORDER", c11_16),
    ("C11.10", "MEMO", c11_10),
    ("C11.9", "GUARD relation", c11_9),
    ("C11.1", "GUARD commitment", c11_1),
    ("C11.2", "GUARD", rl.deferring(c11_2, _output_cells, "psbt:PSBT._describe_basic_multisig_outputs", "decided by the output-summary cells (C11.20: another threshold or key count, "
                                    "a missing record, an unknown cosigner and a key the stated path does not lead to are refused at every position); the checks are not in the form this rule reads", 5)),
    ("C11.3", "GUARD accumulator", c11_3),
    ("C11.4", "GUARD", rl.deferring(c11_4, _output_cells, "psbt:PSBT._describe_basic_multisig_outputs", "decided by the output-summary cells (C11.20: two change outputs are refused); "
                                    "the test is not in the form this rule reads")),
    ("C11.5", "ACCUMULATOR paths", c11_5),
    ("C11.6", "DATAFLOW", c11_6),
    ("C11.7", "GUARD", c11_7),
    ("C11.8", "GUARD", c11_8),
    ("C11.11", "FORALL membership", c11_11),
    ("C11.12", "COVER membership", c11_12),
    ("C11.13", "GUARD type", c11_13),
    ("C11.14", "GUARD agreement", c11_14),
    ("C11.15", "SEEN-SET", rl.deferring(c11_15, _output_cells, "psbt:PSBT._describe_basic_multisig_outputs", "decided by the output-summary cells (C11.20: a second key of one cosigner is "
                                        "refused at every position); no local seen-set in the form this rule reads")),
]
FLOORS = {"C11.1": 4, "C11.2": 5, "C11.5": 2, "C11.6": 4, "C11.7": 2, "C11.8": 5}
