"""C12 — taproot commitments (structural clauses)."""
import ast

from sa import algebra, rl
from sa.cfg import cfg_of
from sa.dataflow import call_name, dotted, expand, origins
from sa.fold import Folder, Unknown
from sa.guard import BAD_FALSE, BAD_TRUE
from sa.interval import ISet
from sa.layout import WriterExec, fmt_terms
from sa.loader import AnalysisError, param_names

EXPLANATION = (
    "Static analysis of buidl/taproot.py, pecc.py, cecc.py: the pair ordering of the branch hash in TapBranch.hash and ControlBlock.merkle_root "
    "(lexicographically smaller first, same relation), the TapLeaf preimage layout, the control block writer against the reader's slice tiling and "
    "length guards (33 ≤ len ≤ 33+128·32, len ≡ 1 mod 32, version/parity bit split), even-Y normalisation before tweaking on the public and private "
    "side in both ECC back ends with the TapTweak preimage P.x ‖ root, and the fields stored in a control block (parity of the external key, path "
    "hashes of the leaf, leaf-to-root order). Not decided: discrete-log relation of the tweaked keys, tamper detection (hash properties)."
)


def _branch_order(fn, hashname="hash_tapbranch"):
    """Returns 'smaller-first' / 'larger-first' / None for the `if a < b: H(a+b) else: H(b+a)` idiom"""
    cfg = cfg_of(fn)
    res = []
    for n in cfg.tests():
        t = n.ast
        if not (isinstance(t, ast.Compare) and len(t.ops) == 1 and isinstance(t.ops[0], (ast.Lt, ast.LtE, ast.Gt, ast.GtE)) and isinstance(t.left, ast.Name) and isinstance(t.comparators[0], ast.Name)):
            continue
        a, b = t.left.id, t.comparators[0].id
        less_when_true = isinstance(t.ops[0], (ast.Lt, ast.LtE))
        arms = {}
        for s, l in cfg.succ[n.id]:
            st = cfg.nodes[s].ast
            v = st.value if isinstance(st, (ast.Return, ast.Assign)) else None
            if isinstance(v, ast.Call) and call_name(v) == hashname and v.args and isinstance(v.args[0], ast.BinOp) and isinstance(v.args[0].op, ast.Add):
                x, y = v.args[0].left, v.args[0].right
                if isinstance(x, ast.Name) and isinstance(y, ast.Name):
                    arms[l] = (x.id, y.id)
        if len(arms) == 2:
            # on the True edge: if less_when_true then a < b; first element should be the smaller
            first_true, first_false = arms[True][0], arms[False][0]
            smaller_true = a if less_when_true else b
            smaller_false = b if less_when_true else a
            if set(arms[True]) != {a, b} or set(arms[False]) != {a, b}:
                res.append((n, None))
            elif first_true == smaller_true and first_false == smaller_false:
                res.append((n, "smaller-first"))
            elif first_true != smaller_true and first_false != smaller_false:
                res.append((n, "larger-first"))
            else:
                res.append((n, "unordered"))
    return res


def c12_1(ctx):
    out = []
    got = {}
    for spec in ("taproot:TapBranch.hash", "taproot:ControlBlock.merkle_root"):
        mod, fn = rl.get(ctx, spec)
        r = _branch_order(fn)
        if not r:
            # a branch hash of a concatenation that is not controlled by a comparison of the two halves is an unordered pair
            calls = [c for c in ast.walk(fn) if isinstance(c, ast.Call) and call_name(c) == "hash_tapbranch" and c.args and isinstance(c.args[0], ast.BinOp) and isinstance(c.args[0].op, ast.Add)]
            cmps = [c for c in ast.walk(fn) if isinstance(c, ast.Compare) and isinstance(c.ops[0], (ast.Lt, ast.LtE, ast.Gt, ast.GtE))]
            if calls and not cmps:
                got[spec] = "unordered"
                out.append(ctx.bad(spec, "`%s` hashes the pair in a fixed order without comparing the two hashes; BIP341 hashes the lexicographically smaller one first" % ast.unparse(calls[0]), calls[0], mod, key="order"))
                continue
            # the ordering is also decided by evaluation (C12.18: smaller / larger / equal); the syntactic idiom is the fallback
            cells = _merkle_cells(ctx)
            mine = [x for x in (cells or []) if x.anchor == spec]
            if cells is None or not mine:
                raise AnalysisError("%s: ordered pair hashing idiom not found" % spec)
            if all(x.status == "ok" for x in mine):
                got[spec] = "smaller-first"
                out.append(ctx.ok(spec, "pair order decided by the ordering cells (C12.18); idiom not classified syntactically", fn, mod, key="order"))
            else:
                got[spec] = "unordered"
                out.append(ctx.bad(spec, "pair order: the ordering cells (C12.18) fail", fn, mod, key="order"))
            continue
        n, order = r[0]
        got[spec] = order
        if order == "smaller-first":
            out.append(ctx.ok(spec, "pair is hashed lexicographically smaller first (`%s`)" % ast.unparse(n.ast), n.ast, mod, key="order"))
        else:
            out.append(ctx.bad(spec, "pair ordering is `%s` (test `%s`); BIP341 hashes the lexicographically smaller hash first, in both branches" % (order, ast.unparse(n.ast)), n.ast, mod, key="order"))
    if len(set(got.values())) == 1:
        out.append(ctx.ok("taproot:TapBranch.hash↔ControlBlock.merkle_root", "tree construction and control-block verification order pairs identically", key="agree"))
    else:
        out.append(ctx.bad("taproot:TapBranch.hash↔ControlBlock.merkle_root", "tree construction orders pairs %s but control-block verification %s" % tuple(got.values()), key="agree"))
    # merkle_root starts from the leaf hash of (tap_script, version in the control block) and folds self.hashes in order
    mod, fn = rl.get(ctx, "taproot:ControlBlock.merkle_root")
    src = ast.unparse(fn)
    if "TapLeaf(tap_script, self.tapleaf_version)" in src and "for h in self.hashes" in src:
        out.append(ctx.ok("taproot:ControlBlock.merkle_root", "starts at TapLeaf(script, control-block version).hash() and folds the path hashes in order", fn, mod, key="fold"))
    else:
        out += _merkle_root_cells(ctx, mod, fn)
    return out


def _merkle_root_cells(ctx, mod, fn):
    """ControlBlock.merkle_root over formal hashes (used when the function is not in the textual form read above): the leaf hash is a
    formal value that records script and version, hash_tapbranch is a formal constructor, and the result for paths of 0..3 hashes in
    every order relation to the running value is compared with the BIP341 fold"""
    from sa.cells import Evaluator, Obj, Raised, Undecided
    import itertools
    spec = "taproot:ControlBlock.merkle_root"

    def leaf_init(o, tap_script=None, tapleaf_version=None, *a, **k):
        o.attrs.update({"tap_script": tap_script, "tapleaf_version": tapleaf_version})

    def leaf_hash(o, *a, **k):
        return b"m<leaf:%s:%s>" % (str(o.attrs.get("tap_script")).encode(), str(o.attrs.get("tapleaf_version")).encode())

    def opaque(name, args, kw):
        if name == "hash_tapbranch":
            return b"m[" + args[0] + b"]"
        return NotImplemented
    pool = [b"a<1>", b"z<2>", b"n<3>"]  # sorts before / after the formal leaf and branch values in different combinations
    n = 0
    for k in range(0, 4):
        for hs in itertools.permutations(pool, k):
            me = Obj("taproot", "ControlBlock", {"tapleaf_version": 0xC0, "parity": 0, "internal_pubkey": None, "hashes": list(hs)})
            n += 1
            try:
                r = Evaluator(ctx.repo, opaque=opaque, method_hooks={("TapLeaf", "__init__"): leaf_init, ("TapLeaf", "hash"): leaf_hash}).call(spec, ["SCRIPT"], self_obj=me)
            except Undecided as u:
                return [ctx.err(spec, "merkle_root not evaluable: %s" % u, fn, mod)]
            except Raised as x:
                return [ctx.bad(spec, "merkle_root raises %s for a path of %d hashes" % (x.name, k), fn, mod, key="fold")]
            want = b"m<leaf:SCRIPT:192>"
            for h in hs:
                want = b"m[" + (want + h if want < h else h + want) + b"]"
            if r != want:
                return [ctx.bad(spec, "for the path %s the root is %s, BIP341 folds to %s" % ([h.decode() for h in hs], r.decode() if isinstance(r, bytes) else r, want.decode()),
                                fn, mod, key="fold")]
    ctx.count("cells", n)
    return [ctx.ok(spec, "starts at the leaf hash of (script, control-block version) and folds the path hashes in order, smaller first (%d formal paths)" % n, fn, mod, key="fold")]


def c12_2(ctx):
    mod, fn = rl.get(ctx, "taproot:TapLeaf.hash")
    t = WriterExec(ctx.repo, mod, fn, max_inline=0).run()
    txt = fmt_terms(t or [])
    if txt == "hash_tapleaf[int1LE(self.tapleaf_version) ‖ self.tap_script.serialize]":
        return [ctx.ok("taproot:TapLeaf.hash", "H_TapLeaf(version(1) ‖ compact_size(script) ‖ script)", fn, mod, key="leaf-layout")]
    return [ctx.bad("taproot:TapLeaf.hash", "leaf hash preimage is %s, BIP341: hash_tapleaf(version byte ‖ Script.serialize())" % txt, fn, mod, key="leaf-layout")]


def c12_3(ctx):
    out = []
    mod, fn = rl.get(ctx, "taproot:ControlBlock.serialize")
    from sa.layout import alpha_terms
    t = WriterExec(ctx.repo, mod, fn, max_inline=0).run()
    txt = fmt_terms(alpha_terms(t or []))
    if txt == "int1LE(self.tapleaf_version + self.parity) ‖ self.internal_pubkey.xonly ‖ repeat<self.hashes>[bytes(<elem>)]":
        out.append(ctx.ok("taproot:ControlBlock.serialize", "(version|parity)(1) ‖ internal key x(32) ‖ 32·m path hashes", fn, mod, key="cb-ser"))
    else:
        out.append(ctx.bad("taproot:ControlBlock.serialize", "layout %s, BIP341: (leaf version | parity) ‖ internal key ‖ path hashes" % txt, fn, mod, key="cb-ser"))
    # reader
    spec = "taproot:ControlBlock.parse"
    mod, fn = rl.get(ctx, spec)
    b = param_names(fn)[1]
    f = Folder(ctx.repo, mod.name)
    # length guards
    cfg = cfg_of(fn)
    lenvar = None
    for n in cfg.stmts(("stmt",)):
        a = n.ast
        if isinstance(a, ast.Assign) and isinstance(a.value, ast.Call) and call_name(a.value) == "len" and dotted(a.value.args[0]) == b:
            lenvar = a.targets[0].id
    key = lenvar or "len(%s)" % b
    out += rl.accept_set(ctx, spec, [key], ISet.range(33, 33 + 128 * 32), targets="returns", init={key: ISet.range(0, None)}, prefer=(32, 33 + 128 * 32 + 32), what="control block length")
    mods = [n for n in cfg.tests() if isinstance(n.ast, ast.Compare) and isinstance(n.ast.left, ast.BinOp) and isinstance(n.ast.left.op, ast.Mod) and f.fold(n.ast.left.right) == 32
            and f.fold(n.ast.comparators[0]) == 1]
    if mods and all(cfg.nodes[s].kind == "raise" for s, l in cfg.succ[mods[0].id] if l == isinstance(mods[0].ast.ops[0], ast.NotEq)):
        out.append(ctx.ok(spec, "length ≡ 1 (mod 32) is enforced", mods[0].ast, mod, key="cb-mod32"))
    else:
        out.append(ctx.bad(spec, "length ≡ 1 (mod 32) is not enforced", fn, mod, key="cb-mod32"))
    # slice tiling
    src = ast.unparse(fn)
    slices = []
    for s in ast.walk(fn):
        if isinstance(s, ast.Subscript) and dotted(s.value) == b:
            slices.append(s)
    idx0 = [s for s in slices if not isinstance(s.slice, ast.Slice) and f.fold(s.slice) == 0]
    key_sl = [s for s in slices if isinstance(s.slice, ast.Slice) and f.fold(s.slice.lower) == 1 and f.fold(s.slice.upper) == 33]
    comp = [s for s in slices if isinstance(s.slice, ast.Slice) and s.slice.lower is not None and s.slice.upper is not None and f.fold(s.slice.lower) is Unknown]
    good = bool(idx0) and bool(key_sl) and bool(comp)
    detail = ""
    if comp:
        lo, hi = comp[0].slice.lower, comp[0].slice.upper
        ivar = [n.id for n in ast.walk(lo) if isinstance(n, ast.Name)]
        if len(set(ivar)) == 1:
            iv = ivar[0]
            # the values the index variable takes: range(m) -> 0, 1, 2 ; range(a, stop, step) -> a, a+step, a+2·step
            probe = (0, 1, 2)
            stepped = False
            for lp_ in ast.walk(fn):
                tg_, it_ = (lp_.target, lp_.iter) if isinstance(lp_, (ast.For, ast.comprehension)) else (None, None)
                if isinstance(tg_, ast.Name) and tg_.id == iv and isinstance(it_, ast.Call) and call_name(it_) == "range" and len(it_.args) == 3:
                    a0, st0 = f.fold(it_.args[0]), f.fold(it_.args[2])
                    if isinstance(a0, int) and isinstance(st0, int):
                        probe = (a0, a0 + st0, a0 + 2 * st0)
                        stepped = (a0, st0) == (33, 32) and ast.unparse(it_.args[1]) in (lenvar or "", "len(%s)" % b)
            vals = [(Folder(ctx.repo, mod.name, {iv: i}).fold(lo), Folder(ctx.repo, mod.name, {iv: i}).fold(hi)) for i in probe]
            contiguous = vals[0][0] == 33 and all(v[1] - v[0] == 32 for v in vals) and vals[0][1] == vals[1][0] and vals[1][1] == vals[2][0]
            good = good and contiguous
            detail = "hash slices %s" % vals
        else:
            good = False
    # m = (len - 33) // 32
    m_ok = "- 33) // 32" in src or (comp and len(set(ivar)) == 1 and stepped)
    if good and m_ok:
        out.append(ctx.ok(spec, "reader slices tile the input: [0], [1:33], then m = (len-33)//32 contiguous 32-byte hashes from offset 33", fn, mod, key="cb-tiling"))
    else:
        out.append(ctx.bad(spec, "reader slices do not tile [0, len): first byte %s, key slice [1:33] %s, %s, m formula %s" % (bool(idx0), bool(key_sl), detail or "no hash slice", m_ok), fn, mod, key="cb-tiling"))
    # version / parity split
    masks = sorted(f.fold(bo.right) for bo in ast.walk(fn) if isinstance(bo, ast.BinOp) and isinstance(bo.op, ast.BitAnd) and isinstance(f.fold(bo.right), int))
    if masks == [1, 0xFE]:
        out.append(ctx.ok(spec, "first byte is split into leaf version (& 0xfe) and parity (& 1)", fn, mod, key="cb-bits"))
    else:
        out.append(ctx.bad(spec, "first byte masks are %s, BIP341: version = b & 0xfe, parity = b & 1" % [hex(m) for m in masks], fn, mod, key="cb-bits"))
    # constructor argument order
    for n in cfg.returns():
        v = n.ast.value
        if isinstance(v, ast.Call) and len(v.args) == 4:
            names = [a.id if isinstance(a, ast.Name) else ast.unparse(a) for a in v.args]
            imod, init = rl.get(ctx, "taproot:ControlBlock.__init__")
            ps = param_names(init)[1:]
            exp = {"tapleaf_version": "0xFE", "parity": "& 1", "internal_pubkey": "parse_xonly", "hashes": "for"}
            okk = True
            for pname, a in zip(ps, v.args):
                ex = ast.unparse(expand(fn, n.id, a))
                if pname == "tapleaf_version" and "254" not in ex and "0xFE" not in ex.upper():
                    okk = False
                if pname == "parity" and "& 1" not in ex:
                    okk = False
                if pname == "internal_pubkey" and "parse_xonly" not in ex:
                    okk = False
                if pname == "hashes":
                    # a comprehension over slices of b, or (normal form) a list filled by `.append(b[lo:hi])` in a loop
                    appended = isinstance(a, ast.Name) and any(
                        isinstance(c, ast.Call) and isinstance(c.func, ast.Attribute) and c.func.attr == "append" and dotted(c.func.value) == a.id and c.args
                        and isinstance(c.args[0], ast.Subscript) and dotted(c.args[0].value) == b for c in ast.walk(fn))
                    if "for" not in ex and not appended:
                        okk = False
            out.append(ctx.ok(spec, "parsed pieces are bound to (%s)" % ", ".join(ps), v, mod, key="cb-binding") if okk else
                       ctx.bad(spec, "parsed pieces are bound to the wrong constructor parameters: %s → %s" % (names, ps), v, mod, key="cb-binding"))
    return out


def c12_4(ctx):
    out = []
    for repo, label in ((ctx.repo, "pecc"), (ctx.repo_c, "cecc")):
        spec = "%s:S256Point.tweaked_key" % label
        mod, fn = repo.func(spec)
        ctx.note_fn(mod, fn)
        cfg = cfg_of(fn)
        for n in cfg.returns():
            ex = expand(fn, n.id, n.ast.value, stop=("tweak",))
            txt = ast.unparse(ex)
            ts = sorted(algebra.terms(ex))
            if ts == sorted([(1, "self.even_point()"), (1, "big_endian_to_int(tweak)")]):
                out.append(ctx.ok(spec, "Q = even(P) + int(tweak)·G", n.ast, mod, key="pub-tweak"))
            elif (1, "self") in ts or (-1, "self") in ts:
                out.append(ctx.bad(spec, "tweaked key is `%s`: the internal key is used with its own Y parity, BIP341 tweaks lift_x(P) (even Y) — for an odd-Y internal key the "
                                         "output key commits to the wrong point" % txt, n.ast, mod, key="pub-tweak"))
            elif not any("tweak" in t for _, t in ts):
                out.append(ctx.bad(spec, "tweaked key is `%s`: the tweak is not added" % txt, n.ast, mod, key="pub-tweak"))
            elif any(s < 0 for s, _ in ts):
                out.append(ctx.bad(spec, "tweaked key is `%s`: BIP341 adds t·G to lift_x(P), a term is subtracted" % txt, n.ast, mod, key="pub-tweak"))
            else:
                out.append(ctx.err(spec, "tweaked key `%s` not recognised as even(P) + t·G" % txt, n.ast, mod))
        spec = "%s:S256Point.tweak" % label
        mod, fn = repo.func(spec)
        ctx.note_fn(mod, fn)
        t = WriterExec(repo, mod, fn, max_inline=0).run()
        txt = fmt_terms(t or [])
        if txt == "hash_taptweak[self.xonly ‖ bytes(merkle_root)]":
            out.append(ctx.ok(spec, "t = H_TapTweak(P.x ‖ merkle root)", fn, mod, key="tweak-preimage"))
        else:
            out.append(ctx.bad(spec, "tweak preimage is %s, BIP341: hash_taptweak(P.x ‖ merkle_root)" % txt, fn, mod, key="tweak-preimage"))
        spec = "%s:PrivateKey.tweaked_key" % label
        mod, fn = repo.func(spec)
        ctx.note_fn(mod, fn)
        cfg = cfg_of(fn)
        for n in cfg.returns():
            v = n.ast.value
            if isinstance(v, ast.Call) and v.args:
                exa = expand(fn, n.id, v.args[0])
                ex = ast.unparse(exa)
                c = algebra.canon(exa)
                ts = sorted(algebra.terms(exa))
                want = sorted([(1, "self.even_secret()"), (1, "big_endian_to_int(self.point.tweak(merkle_root))")])
                if c[0] == "mod" and c[2] == "N" and ts == want:
                    out.append(ctx.ok(spec, "d' = (even_secret + t) mod n with t from the key's own tweak", v, mod, key="priv-tweak"))
                elif ts == want and c[0] != "mod":
                    out.append(ctx.bad(spec, "tweaked secret `%s` is not reduced mod n" % ex, v, mod, key="priv-tweak"))
                elif any(t == "self.secret" for _, t in ts):
                    out.append(ctx.bad(spec, "tweaked secret is `%s`: the raw secret is used, BIP341 negates it first when the public key has odd Y" % ex, v, mod, key="priv-tweak"))
                elif not any("tweak" in t for _, t in ts):
                    out.append(ctx.bad(spec, "tweaked secret is `%s`: the tweak is not added" % ex, v, mod, key="priv-tweak"))
                elif any(s < 0 for s, _ in ts):
                    out.append(ctx.bad(spec, "tweaked secret is `%s`: BIP341 adds the tweak to the (even-Y) secret, a term is subtracted" % ex, v, mod, key="priv-tweak"))
                else:
                    out.append(ctx.err(spec, "tweaked secret `%s` not recognised as (even_secret + t) mod n" % ex, v, mod))
        spec = "%s:PrivateKey.even_secret" % label
        mod, fn = repo.func(spec)
        ctx.note_fn(mod, fn)
        cfg = cfg_of(fn)
        arms = {}
        for n in cfg.tests():
            if dotted(n.ast) == "self.point.parity":
                for s, l in cfg.succ[n.id]:
                    a = cfg.nodes[s].ast
                    if isinstance(a, ast.Return):
                        arms[l] = ast.unparse(a.value)
        carms = {l: sorted(algebra.terms(ast.parse(v, mode="eval").body)) for l, v in arms.items()}
        neg, same = sorted([(1, "N"), (-1, "self.secret")]), [(1, "self.secret")]
        if carms == {True: neg, False: same}:
            out.append(ctx.ok(spec, "odd-Y key → n − d, even-Y key → d", fn, mod, key="even-secret"))
        elif carms == {True: same, False: neg}:
            out.append(ctx.bad(spec, "even_secret negates the secret for even-Y keys and keeps it for odd-Y keys (arms swapped)", fn, mod, key="even-secret"))
        elif set(carms) == {True, False} and carms[True] == carms[False]:
            out.append(ctx.bad(spec, "even_secret returns `%s` whatever the parity of the public key" % arms[True], fn, mod, key="even-secret"))
        else:
            out.append(ctx.err(spec, "even_secret arms %s not recognised as {odd: N - secret, even: secret}" % arms, fn, mod))
        spec = "%s:S256Point.even_point" % label
        mod, fn = repo.func(spec)
        ctx.note_fn(mod, fn)
        cfg = cfg_of(fn)
        arms = {}
        for n in cfg.tests():
            if dotted(n.ast) == "self.parity":
                for s, l in cfg.succ[n.id]:
                    a = cfg.nodes[s].ast
                    if isinstance(a, ast.Return):
                        arms[l] = ast.unparse(a.value)
        carms = {l: sorted(algebra.terms(ast.parse(v, mode="eval").body)) for l, v in arms.items()}
        neg, same = [(-1, "self")], [(1, "self")]
        if carms == {True: neg, False: same}:
            out.append(ctx.ok(spec, "odd-Y point → −P, even-Y point → P", fn, mod, key="even-point"))
        elif carms == {True: same, False: neg}:
            out.append(ctx.bad(spec, "even_point negates even-Y points and keeps odd-Y points (arms swapped)", fn, mod, key="even-point"))
        elif set(carms) == {True, False} and carms[True] == carms[False]:
            out.append(ctx.bad(spec, "even_point returns `%s` whatever the parity" % arms[True], fn, mod, key="even-point"))
        else:
            out.append(ctx.err(spec, "even_point arms %s not recognised as {odd: -self, even: self}" % arms, fn, mod))
    return out


def c12_5(ctx):
    out = []
    for spec in ("taproot:TapLeaf.control_block", "taproot:TapBranch.control_block"):
        mod, fn = rl.get(ctx, spec)
        cfg = cfg_of(fn)
        found = False
        for n in cfg.returns():
            v = n.ast.value
            if isinstance(v, ast.Call) and call_name(v) == "ControlBlock" and len(v.args) == 4:
                found = True
                a = [ast.unparse(expand(fn, n.id, x)) for x in v.args]
                probs = []
                if not a[0].endswith(".tapleaf_version"):
                    probs.append("version=%s" % a[0])
                if a[1] != "self.external_pubkey(internal_pubkey).parity":
                    probs.append("parity=%s (expected the parity of the tweaked output key)" % a[1])
                if a[2] != "internal_pubkey":
                    probs.append("internal key=%s" % a[2])
                if not a[3].startswith("self.path_hashes("):
                    probs.append("hashes=%s" % a[3])
                if probs:
                    out.append(ctx.bad(spec, "control block fields: " + "; ".join(probs), v, mod, key="cb-fields"))
                else:
                    out.append(ctx.ok(spec, "control block = (leaf version, parity of the output key, internal key, path hashes of the leaf)", v, mod, key="cb-fields"))
        if not found:
            raise AnalysisError("%s: ControlBlock(...) return not found" % spec)
    # external key = internal.tweaked_key(root hash)
    for spec in ("taproot:TapLeaf.external_pubkey", "taproot:TapBranch.external_pubkey"):
        mod, fn = rl.get(ctx, spec)
        src = [ast.unparse(s.value) for s in ast.walk(fn) if isinstance(s, ast.Return)]
        if src == ["internal_pubkey.tweaked_key(self.hash())"]:
            out.append(ctx.ok(spec, "output key = internal key tweaked with this node's hash", fn, mod, key="external"))
        else:
            out.append(ctx.bad(spec, "output key is %s, expected internal_pubkey.tweaked_key(self.hash())" % src, fn, mod, key="external"))
    # path_hashes: sibling of the subtree containing the leaf, appended after the deeper hashes
    mod, fn = rl.get(ctx, "taproot:TapBranch.path_hashes")
    cfg = cfg_of(fn)
    ok = 0
    for n in cfg.tests():
        t = n.ast
        if isinstance(t, ast.Compare) and len(t.ops) == 1 and isinstance(t.ops[0], (ast.In, ast.NotIn)):
            member = isinstance(t.ops[0], ast.In)  # the edge on which the leaf is on this side
            side = "left" if ".left." in ast.unparse(t.comparators[0]) else ("right" if ".right." in ast.unparse(t.comparators[0]) else None)
            for s, l in cfg.succ[n.id]:
                a = cfg.nodes[s].ast
                if l is member and isinstance(a, ast.Return) and isinstance(a.value, ast.List) and len(a.value.elts) == 2:
                    e0, e1 = a.value.elts
                    other = "right" if side == "left" else "left"
                    if isinstance(e0, ast.Starred) and ("self.%s.path_hashes" % side) in ast.unparse(e0) and ast.unparse(e1) == "self.%s.hash()" % other:
                        ok += 1
    if ok == 2:
        out.append(ctx.ok("taproot:TapBranch.path_hashes", "path = deeper hashes of the containing subtree, then the sibling subtree's hash (leaf-to-root order)", fn, mod, key="path-order"))
    else:
        out.append(ctx.bad("taproot:TapBranch.path_hashes", "path hashes are not [*deeper path of the containing side, hash of the other side] for both sides", fn, mod, key="path-order"))
    return out


def param_blind_caches(ctx, modname, only_prefix=None):
    """MEMO: a method that stores its result in `self.<attr>` and returns that attribute on later calls, although the stored
    value depends on a parameter of the method, answers the second call with the first call's argument.
    Returns (functions looked at, [(module, function, attribute, parameter, store node)])."""
    mod = ctx.repo.module(modname)
    hits = []
    looked = 0
    for qn, fn in mod.functions.items():
        if "." not in qn or (only_prefix and not qn.startswith(only_prefix)):
            continue
        ps = param_names(fn)
        if len(ps) < 2 or ps[0] != "self":
            continue
        looked += 1
        cfg = cfg_of(fn)
        returned = set()
        for n in cfg.returns():
            v = n.ast.value if n.ast is not None else None
            if isinstance(v, ast.Attribute) and dotted(v.value) == "self":
                returned.add(v.attr)
        if not returned:
            continue
        for n in cfg.stmts(("stmt",)):
            a = n.ast
            if isinstance(a, ast.Assign):
                for tg in a.targets:
                    if isinstance(tg, ast.Attribute) and dotted(tg.value) == "self" and tg.attr in returned:
                        at = origins(fn, n.id, a.value)
                        dep = [p for p in ps[1:] if ("param:" + p) in at]
                        # the early return must be able to bypass the computation: a test on the attribute exists
                        tested = any(any(isinstance(x, ast.Attribute) and x.attr == tg.attr and dotted(x.value) == "self" for x in ast.walk(t.ast)) for t in cfg.tests())
                        if dep and tested:
                            hits.append((mod, fn, tg.attr, dep[0], n))
    return looked, hits


def c12_6(ctx):
    """no commitment computation is cached under a key that ignores one of its arguments (ControlBlock.merkle_root(script),
    external_pubkey(script), tweaks): a control block asked about the genuine script and then about an altered one must
    recompute, otherwise tampering goes undetected on the second call"""
    from sa.memo import global_table_caches, param_blind_caches as pbc
    looked, hits = pbc(ctx, "taproot")
    out = []
    users, ghits = global_table_caches(ctx, "taproot")
    for mod, fn, table, missing, n in ghits:
        out.append(ctx.bad("taproot:%s" % fn.name, "the module-level table `%s` caches a result under a key that ignores the argument(s) %s" % (table, ", ".join(missing)), n.ast, mod,
                           key="table-cache:" + table))
    for mod, fn, attr, p, n in hits:
        out.append(ctx.bad("taproot:%s" % fn.name, "`self.%s` caches a value computed from the argument `%s` and is returned on later calls whatever the argument is: "
                                                   "the second script checked against the same object inherits the first one's result" % (attr, p), n.ast, mod, key="param-blind-cache:" + attr))
    if not hits:
        out.append(ctx.ok("taproot:*", "no method of buidl/taproot.py returns a cached attribute that was computed from one of its arguments (%d methods with arguments inspected)" % looked,
                          key="param-blind-cache"))
    return out


def _self_attrs(fn, receiver):
    """attributes of `receiver` read in fn (one level of self-method calls is not followed: direct reads only)"""
    return {a.attr for a in ast.walk(fn) if isinstance(a, ast.Attribute) and isinstance(a.ctx, ast.Load) and isinstance(a.value, ast.Name) and a.value.id == receiver
            and not isinstance(getattr(a, "_parent_call", None), ast.Call)}


def c12_7(ctx):
    """Leaf identity agrees with the leaf commitment: TapLeaf.__eq__ compares every field TapLeaf.hash() commits to.
    `leaf in self.left.leaves()` (path_hashes / control_block) relies on it: were two leaves with the same script and
    different leaf versions equal, the control block of one would carry the sibling path of the other."""
    mod, eq = rl.get(ctx, "taproot:TapLeaf.__eq__")
    _, h = rl.get(ctx, "taproot:TapLeaf.hash")
    ps = param_names(eq)
    committed = {a for a in _self_attrs(h, "self") if not a.startswith("__")}
    mine, theirs = _self_attrs(eq, ps[0]), _self_attrs(eq, ps[1])
    # method attributes (self.serialize()) are not data fields
    methods = {q.split(".", 1)[1] for q in mod.functions if q.startswith("TapLeaf.")}
    committed -= methods
    if not committed:
        raise AnalysisError("TapLeaf.hash: no committed field found")
    via_hash = any(isinstance(c, ast.Call) and call_name(c) == "hash" for c in ast.walk(eq))
    missing = sorted(f for f in committed if not (f in mine and f in theirs))
    if not missing or via_hash:
        return [ctx.ok("taproot:TapLeaf.__eq__", "equality compares %s (the fields hash() commits to)" % ("the hashes" if via_hash else ", ".join(sorted(committed))), eq, mod, key="eq-commit")]
    return [ctx.bad("taproot:TapLeaf.__eq__", "equality ignores %s although hash() commits to it: two leaves that differ only there are `==`, `leaf in leaves()` finds the wrong one "
                    "and its control block gets the other leaf's path (the leaf becomes unspendable)" % ", ".join(missing), eq, mod, key="eq-commit")]


def c12_8(ctx):
    """every place that recomputes the output key (TapLeaf / TapBranch / ControlBlock.external_pubkey) uses the even-Y lift of
    the internal key: it delegates to <internal key>.tweaked_key(root) or is algebraically even(P) + t*G.  Adding the tweak
    to the internal key as held (whatever its Y parity) gives another point when the key has odd Y"""
    out = []
    for spec, key_is in (("taproot:TapLeaf.external_pubkey", "param"), ("taproot:TapBranch.external_pubkey", "param"), ("taproot:ControlBlock.external_pubkey", "attr")):
        mod, fn = rl.get(ctx, spec)
        cfg = cfg_of(fn)
        pk = "self.internal_pubkey" if key_is == "attr" else param_names(fn)[1]
        for n in cfg.returns():
            if n.ast is None or n.ast.value is None:
                continue
            ex = expand(fn, n.id, n.ast.value, depth=6)
            txt = ast.unparse(ex)
            if isinstance(ex, ast.Call) and call_name(ex) == "tweaked_key" and isinstance(ex.func, ast.Attribute) and ast.unparse(ex.func.value) == pk:
                out.append(ctx.ok(spec, "output key = %s.tweaked_key(root)" % pk, n.ast, mod, key="uses-even-lift"))
                continue
            try:
                ts = sorted(algebra.terms(ex))
            except Exception:
                ts = None
            if ts and (1, pk + ".even_point()") in ts and any("tweak" in t for _, t in ts) and not any(t == pk for _, t in ts):
                out.append(ctx.ok(spec, "output key = even(P) + t·G (`%s`)" % txt[:70], n.ast, mod, key="uses-even-lift"))
            elif ts and any(t == pk for _, t in ts):
                out.append(ctx.bad(spec, "output key is `%s`: the tweak is added to the internal key as it is held, not to its even-Y lift -- for an internal key with odd Y "
                                         "the recomputed output key and parity differ from the ones the tree commits to" % txt[:90], n.ast, mod, key="uses-even-lift"))
            else:
                out.append(ctx.err(spec, "output key `%s` not recognised" % txt[:80], n.ast, mod))
    return out


def c12_9(ctx):
    """FALSY-DEFAULT: leaf version 0 (or any other falsy argument) is not silently replaced by a default"""
    from sa.falsy import falsy_default_obligation
    return falsy_default_obligation(ctx, ["taproot", "witness"], "a leaf built with version 0x00 is hashed and committed as another version, and a control block whose "
                                    "version byte is altered to 00 still reproduces the output key")


def c12_10(ctx):
    """Witness.control_block / Witness.tap_script pick the last and the last-but-one item of a script-path witness *after* an
    annex (a final item starting with 0x50, when there are at least two items) has been set aside -- in every witness shape
    (0..2 script inputs, with and without annex).  Cell evaluation: the items are distinct markers, the parsers are stand-ins
    that return which item they were given."""
    from sa.cells import Evaluator, Obj, Raised, Undecided
    out = []
    script, cb, annex = b"\x51", b"\xc0" + bytes(32), b"\x50\xaa"
    shapes = []
    for k in range(0, 3):
        args = [bytes([0x10 + i]) * 3 for i in range(k)]
        shapes.append((args + [script, cb], False))
        shapes.append((args + [script, cb, annex], True))

    def opaque(name, args, kw):
        if name == "encode_varstr":
            return ("varstr", args[0])
        return NotImplemented
    for meth, want, what in (("control_block", ("cb", cb), "the control block"), ("tap_script", ("script", ("varstr", script)), "the leaf script")):
        spec = "witness:Witness." + meth
        mod, fn = rl.get(ctx, spec)
        bad = None
        for items, has_annex in shapes:
            w = Obj("witness", "Witness", {"items": list(items)})
            ev = Evaluator(ctx.repo, opaque=opaque, externals={"BytesIO": lambda x: x},
                           method_hooks={("ControlBlock", "parse"): lambda *a, **k: ("cb", a[-1] if a else None),
                                         ("Script", "parse"): lambda *a, **k: Obj("script", "Script", {"from_": a[-1] if a else None, "raw": None, "commands": []}),
                                         ("Script", "raw_serialize"): lambda o: o.attrs["from_"][1] if isinstance(o.attrs.get("from_"), tuple) else o.attrs.get("from_")})
            ctx.count("cells")
            try:
                got = ev.call(spec, [], self_obj=w)
                if isinstance(got, Obj) and "from_" in got.attrs:
                    got = ("script", got.attrs["from_"])
            except Undecided as u:
                bad = ("err", "%s not evaluable: %s" % (meth, u))
                break
            except Raised as r:
                bad = ("bad", "raises %s on a witness of %d items%s" % (r.name, len(items), " with annex" if has_annex else ""))
                break
            if got != want:
                idx = None
                g = got[1] if isinstance(got, tuple) and len(got) == 2 else got
                if isinstance(g, tuple) and len(g) == 2 and g[0] == "varstr":
                    g = g[1]
                if g in items:
                    idx = items.index(g) - len(items)
                bad = ("bad", "takes item [%s] as %s for a witness of %d items %s annex (expected [%d])" % (
                    idx if idx is not None else "?", what, len(items), "with" if has_annex else "without", (-2 if meth == "control_block" else -3) if has_annex else (-1 if meth == "control_block" else -2)))
                break
            if w.attrs["items"] != list(items):
                bad = ("bad", "changes the witness items while reading them")
                break
        if bad and bad[0] == "err":
            out.append(ctx.err(spec, bad[1], fn, mod))
        elif bad:
            out.append(ctx.bad(spec, "Witness.%s %s: the leaf hash / output key are computed from the wrong item" % (meth, bad[1]), fn, mod, key="annex-index:" + meth))
        else:
            out.append(ctx.ok(spec, "%s is taken from the right item in all %d witness shapes (with / without annex)" % (what, len(shapes)), fn, mod, key="annex-index:" + meth))
    return out


def c12_11(ctx):
    """what the commitment is computed over and compared with rests on shared machinery, re-checked here because a slip there breaks
    this property's "altered in any byte" clause: Script.parse keeps the raw bytes of a script whose push overruns (C04.2), the
    one-byte codec covers 0..255 (control byte 0xfe|1 = 0xff) (C04.11), and the script path compares parity as well as x (C06.7)"""
    from rules.C04 import c04_2, helper_codec_faithful
    from rules.C06 import c06_7
    return c04_2(ctx) + helper_codec_faithful(ctx) + c06_7(ctx)


def c12_12(ctx):
    """MEMO: no method of the modules this property is anchored in answers from a value remembered from an earlier argument or an
    earlier state of the object (confirmed caches of the reference tree: sa/memo.py CONFIRMED_CACHES)"""
    from sa.memo import cache_obligation
    return cache_obligation(ctx, ["taproot", "pecc", "witness", "phash"], "a leaf hash, merkle root or tweak computed once would be returned after the script or internal key changed")


def c12_13(ctx):
    """SET-ORDER: no ordered result (list, serialisation, yielded sequence) of the modules this property is anchored in takes its
    order from the iteration order of a set"""
    from sa.setorder import setorder_obligation
    return setorder_obligation(ctx, ["taproot", "pecc", "witness", "phash"], "the same inputs give different output from run to run")


def c12_14(ctx):
    """SHARED necessary conditions over the modules this property is anchored in: FALSY-DEFAULT, MUTABLE-DEFAULT, IDENTITY, ALIAS,
    CTOR-FORWARD (sa/shared.py)"""
    from sa.shared import shared_obligations
    return shared_obligations(ctx, ["taproot", "pecc", "witness", "phash"], "the result would depend on something other than the arguments and the object's current state")


def c12_15(ctx):
    """the bytes a tapleaf hash commits to are the script's serialisation: the push-length encoding of Script.raw_serialize tiles
    [0, 520] without a gap and in minimal form (shared with C04.1) -- a 75-byte push written as PUSHDATA1 changes the leaf hash, the
    merkle root and the output key"""
    from rules.C04 import c04_1
    return c04_1(ctx)


def c12_16(ctx):
    """control_block() of a tree's root hands out a control block for every leaf of the tree, and for nothing else: cell evaluation of
    TapLeaf.control_block (leaf argument omitted / the leaf itself / an equal leaf / another leaf) and TapBranch.control_block (each of its
    leaves / a foreign leaf) with hashing and tweaking as stand-ins"""
    from sa.cells import Evaluator, Obj, Raised, Undecided
    out = []

    def script(tag):
        return Obj("script", "Script", {"commands": [tag]})

    def leaf(tag):
        return Obj("taproot", "TapLeaf", {"tap_script": script(tag), "tapleaf_version": 0xC0})
    hooks = {("TapLeaf", "hash"): lambda o: b"L" + bytes([o.attrs["tap_script"].attrs["commands"][0]]) * 31,
             ("TapBranch", "hash"): lambda o: b"B" * 32,
             ("S256Point", "tweaked_key"): lambda p, *a, **k: Obj("pecc", "S256Point", {"parity": 1, "tweak": a}),
             ("ControlBlock", "__init__"): lambda o, v, parity, ipk, hashes: o.attrs.update({"v": v, "parity": parity, "ipk": ipk, "hashes": hashes}),
             ("Script", "__eq__"): lambda a, b: isinstance(b, Obj) and a.attrs.get("commands") == b.attrs.get("commands")}
    ipk = Obj("pecc", "S256Point", {"id": 1})
    a, a2, b, c = leaf(1), leaf(1), leaf(2), leaf(3)
    spec = "taproot:TapLeaf.control_block"
    mod, fn = rl.get(ctx, spec)
    cases = [("the leaf argument omitted", [ipk], True), ("the leaf itself", [ipk, a], True), ("an equal leaf (same script and version)", [ipk, a2], True), ("another leaf", [ipk, b], False)]
    bad = None
    for label, args, want in cases:
        ctx.count("cells")
        try:
            r = Evaluator(ctx.repo, method_hooks=hooks).call(spec, args, self_obj=a)
        except Raised as x:
            r = "raises %s" % x.name
        except Undecided as u:
            out.append(ctx.err(spec, "not evaluable for %s: %s" % (label, u), fn, mod))
            bad = "undecided"
            break
        got = isinstance(r, Obj) and r.cls == "ControlBlock"
        if got != want:
            bad = (label, r)
            break
    if bad is None:
        out.append(ctx.ok(spec, "a single-leaf tree hands out its control block with the leaf omitted, given, or given as an equal leaf; None for another leaf", fn, mod, key="cb-leaf"))
    elif bad != "undecided":
        out.append(ctx.bad(spec, "single-leaf tree, control_block() with %s returns %s: %s" % (bad[0], "a control block" if isinstance(bad[1], Obj) else bad[1],
                           "the only leaf of the tree cannot be spent by script path through this call" if not isinstance(bad[1], Obj) else "a control block is handed out for a script "
                           "that is not in the tree"), fn, mod, key="cb-leaf"))
    spec = "taproot:TapBranch.control_block"
    mod, fn = rl.get(ctx, spec)
    inner = Obj("taproot", "TapBranch", {"left": a, "right": b, "_leaves": None})
    root = Obj("taproot", "TapBranch", {"left": inner, "right": c, "_leaves": None})
    bad = None
    for label, lf, want, depth in (("its first leaf", a, True, 2), ("its second leaf", b, True, 2), ("its third leaf", c, True, 1), ("an equal copy of its first leaf", a2, True, 2),
                                   ("a leaf that is not in the tree", leaf(9), False, 0)):
        ctx.count("cells")
        try:
            r = Evaluator(ctx.repo, method_hooks=hooks).call(spec, [ipk, lf], self_obj=root)
        except Raised as x:
            r = "raises %s" % x.name
        except Undecided as u:
            out.append(ctx.err(spec, "not evaluable for %s: %s" % (label, u), fn, mod))
            bad = "undecided"
            break
        got = isinstance(r, Obj) and r.cls == "ControlBlock"
        if got != want or (got and (not isinstance(r.attrs.get("hashes"), list) or len(r.attrs["hashes"]) != depth)):
            bad = (label, r, depth)
            break
    if bad is None:
        out.append(ctx.ok(spec, "a three-leaf tree hands out a control block with a path of the leaf's depth for each of its leaves, None for a foreign leaf", fn, mod, key="cb-branch"))
    elif bad != "undecided":
        out.append(ctx.bad(spec, "three-leaf tree, control_block() for %s returns %s (expected %s)" % (
            bad[0], ("a control block with path %r" % (bad[1].attrs.get("hashes"),))[:80] if isinstance(bad[1], Obj) else bad[1],
            "a control block with %d path hashes" % bad[2] if bad[2] else "None"), fn, mod, key="cb-branch"))
    return out


def c12_17(ctx):
    """a control block is 33 + 32*m bytes with 0 <= m <= 128 and nothing else: ControlBlock.parse evaluated for *every* length 0..300 and around
    the upper bound (33 + 32*128 and its neighbours); a parsed block must carry exactly m path hashes, in order"""
    from sa.cells import ClassRef, Evaluator, Obj, Raised, Undecided
    spec = "taproot:ControlBlock.parse"
    mod, fn = rl.get(ctx, spec)
    hooks = {("S256Point", "parse_xonly"): lambda cls, b, *a, **k_: Obj("pecc", "S256Point", {"xo": b}), ("S256Point", "parse"): lambda cls, b, *a, **k_: Obj("pecc", "S256Point", {"xo": b}),
             ("ControlBlock", "__init__"): lambda o, v=None, par=None, ipk=None, hashes=None, *a, **k_: o.attrs.update({"v": v, "parity": par, "ipk": ipk, "hashes": hashes})}
    top = 33 + 32 * 128
    try:
        for L in list(range(0, 301)) + [top - 32, top - 1, top, top + 1, top + 31, top + 32, top + 64]:
            ctx.count("cells")
            data = bytes([0xC1]) + bytes((7 * i + 1) & 0xFF for i in range(max(L - 1, 0))) if L else b""
            want = L >= 33 and (L - 33) % 32 == 0 and (L - 33) // 32 <= 128
            try:
                r = Evaluator(ctx.repo, method_hooks=hooks, max_steps=400000).call(spec, [data], self_obj=ClassRef("taproot", "ControlBlock"))
                ok = True
            except Raised:
                ok, r = False, None
            if ok != want:
                return [ctx.bad(spec, "a control block of %d bytes is %s; BIP341: the length is 33 + 32*m with 0 <= m <= 128 -- %s" % (
                    L, "accepted" if ok else "refused", "trailing bytes that belong to no path hash are ignored, so a malformed control block verifies" if ok else
                    "a valid script path cannot be spent"), fn, mod, key="cb-length")]
            if ok:
                hs = r.attrs.get("hashes") if isinstance(r, Obj) else None
                m_ = (L - 33) // 32
                if not isinstance(hs, list) or hs != [data[33 + 32 * i:65 + 32 * i] for i in range(m_)] or r.attrs.get("v") != 0xC0 or r.attrs.get("parity") != 1:
                    return [ctx.bad(spec, "a control block of %d bytes parses to %s path hashes / leaf version %r / parity %r; expected %d hashes in order, c0, 1" % (
                        L, len(hs) if isinstance(hs, list) else hs, r.attrs.get("v"), r.attrs.get("parity"), m_), fn, mod, key="cb-length")]
    except Undecided as u:
        return [ctx.err(spec, "ControlBlock.parse not evaluable: %s" % u, fn, mod)]
    return [ctx.ok(spec, "accepted lengths are exactly 33 + 32*m, 0 <= m <= 128 (every length 0..300 and the upper bound), with m path hashes in order", fn, mod, key="cb-length")]


def _merkle_cells(ctx):
    """TapBranch.hash and ControlBlock.merkle_root evaluated with the tagged hashes as recording stand-ins, over every ordering of each pair
    (first smaller, first larger, both equal) along paths of depth 0..3: the result is H_TapBranch(min ‖ max) folded over the path -- equal
    hashes (a leaf next to an identical copy) included.  None when outside the evaluator's subset"""
    import hashlib
    import itertools
    from sa.cells import Evaluator, Obj, Raised, Undecided
    if hasattr(ctx, "_c12_merkle"):
        return ctx._c12_merkle
    HB = lambda b: hashlib.sha256(b"branch" + bytes(b)).digest()
    ext = {"hash_tapbranch": HB}
    out = []
    try:
        # ControlBlock.merkle_root
        spec = "taproot:ControlBlock.merkle_root"
        mod, fn = rl.get(ctx, spec)
        leaf_h = hashlib.sha256(b"leaf").digest()
        hooks = {("TapLeaf", "__init__"): lambda o, *a, **k: None, ("TapLeaf", "hash"): lambda o: leaf_h}
        verdict, n = None, 0
        for depth in range(0, 4):
            for rel in itertools.product(("smaller", "larger", "equal"), repeat=depth):
                n += 1
                cur, path = leaf_h, []
                for r in rel:
                    h = cur if r == "equal" else next(x for x in (hashlib.sha256(b"%d" % i + cur).digest() for i in range(64)) if (x < cur) == (r == "smaller"))
                    path.append(h)
                    cur = HB(min(cur, h) + max(cur, h))
                me = Obj("taproot", "ControlBlock", {"tapleaf_version": 0xC0, "parity": 0, "internal_pubkey": Obj("pecc", "S256Point", {}), "hashes": path})
                try:
                    got = Evaluator(ctx.repo, method_hooks=hooks, externals=ext).call(spec, [Obj("script", "Script", {"commands": []})], self_obj=me)
                except Raised as x:
                    verdict = "a path whose hashes are %s than the running hash raises %s" % (list(rel), x.name)
                    break
                if got != cur:
                    verdict = "for a path whose hashes are, level by level, %s than / to the running hash the result is not the fold of H_TapBranch(min ‖ max): %s" % (
                        list(rel), "a level with two equal hashes is skipped or mis-ordered -- the root differs from the one TapBranch.hash commits to" if "equal" in rel else
                        "the pair is not hashed smaller-first")
                    break
            if verdict:
                break
        ctx.count("cells", n)
        out.append(ctx.bad(spec, verdict, fn, mod, key="merkle-cells:path") if verdict else
                   ctx.ok(spec, "%d orderings of paths of depth 0..3 (smaller / larger / equal at every level) fold to H_TapBranch(min ‖ max)" % n, fn, mod, key="merkle-cells:path"))
        # TapBranch.hash
        spec = "taproot:TapBranch.hash"
        mod, fn = rl.get(ctx, spec)
        a, b = hashlib.sha256(b"a").digest(), hashlib.sha256(b"b").digest()
        lo, hi = min(a, b), max(a, b)
        verdict = None
        for l, r, what in ((lo, hi, "left smaller"), (hi, lo, "left larger"), (lo, lo, "both equal")):
            kid = lambda h: Obj("taproot", "TapLeaf", {"h": h})
            me = Obj("taproot", "TapBranch", {"left": kid(l), "right": kid(r), "_leaves": None})
            try:
                got = Evaluator(ctx.repo, method_hooks={("TapLeaf", "hash"): lambda o: o.attrs["h"]}, externals=ext).call(spec, [], self_obj=me)
            except Raised as x:
                verdict = "%s: raises %s" % (what, x.name)
                break
            if got != HB(min(l, r) + max(l, r)):
                verdict = "%s: the branch hash is not H_TapBranch(min ‖ max)" % what
                break
        ctx.count("cells", 3)
        out.append(ctx.bad(spec, verdict, fn, mod, key="merkle-cells:branch") if verdict else
                   ctx.ok(spec, "left smaller / left larger / both equal: H_TapBranch(min ‖ max)", fn, mod, key="merkle-cells:branch"))
    except Undecided:
        out = None
    ctx._c12_merkle = out
    return out


def c12_18(ctx):
    """CELLS merkle order: pair ordering of the two tree hashers over smaller / larger / equal"""
    r = _merkle_cells(ctx)
    if r is None:
        mod, fn = rl.get(ctx, "taproot:ControlBlock.merkle_root")
        return [ctx.err("taproot:ControlBlock.merkle_root", "tree hashers outside the evaluator's subset", fn, mod)]
    return r


def c12_19(ctx):
    """TapLeaf accepts every script: BIP342 lifts the 10,000-byte script size limit for tapscript, so a leaf (and with it its hash, its
    control block and the recomputation of the output key in ControlBlock.merkle_root / Witness.tap_leaf) must exist for scripts of any
    size.  The constructor is evaluated on stand-in scripts whose serialisation has 0 … 400,000 bytes (it may look at the script only
    through its serialisation and its type)"""
    from sa.cells import Evaluator, Obj, Raised, Undecided
    spec = "taproot:TapLeaf.__init__"
    mod, fn = rl.get(ctx, spec)
    sizes = (0, 1, 75, 520, 521, 9999, 10000, 10001, 65536, 400000)
    for size in sizes:
        body = b"\x51" * size
        hooks = {("Script", "raw_serialize"): lambda o: body, ("Script", "serialize"): lambda o: bytes([min(size, 252)]) + body, ("Script", "__len__"): lambda o: size}
        for cls_ in ("Script", "TapScript"):
            me = Obj("taproot", "TapLeaf", {})
            script = Obj("taproot" if cls_ == "TapScript" else "script", cls_, {"commands": [0x51] * min(size, 16)})
            try:
                Evaluator(ctx.repo, method_hooks=hooks).call(spec, [script, 0xC0], self_obj=me)
            except Raised as x:
                return [ctx.bad(spec, "a leaf cannot be created for a %s of %d bytes (%s): BIP342 has no script size limit for tapscript, so that leaf has no hash, no control block and "
                                      "its spend cannot be verified" % (cls_, size, x.name), fn, mod, key="leaf-any-size")]
            except Undecided as u:
                return [ctx.err(spec, "TapLeaf constructor not evaluable: %s" % u, fn, mod)]
            if me.attrs.get("tap_script") is not script or me.attrs.get("tapleaf_version") != 0xC0:
                return [ctx.bad(spec, "the leaf does not keep the script / leaf version it was given", fn, mod, key="leaf-any-size")]
    # every leaf version consensus allows -- every even byte except 0x50 (the annex tag), BIP341 -- gives a leaf whose hash is
    # TapLeaf(version ‖ compact_size(script) ‖ script): unknown versions are anyone-can-spend for validation but their trees, output keys and
    # control blocks are computed in the same way
    import hashlib
    tag = hashlib.sha256(b"TapLeaf").digest()
    body = b"\x20" + bytes(range(32)) + b"\xac"
    hooks = {("Script", "raw_serialize"): lambda o: body, ("Script", "serialize"): lambda o: bytes([len(body)]) + body, ("Script", "__len__"): lambda o: len(body)}
    nv = 0
    for version in range(0, 256, 2):
        if version == 0x50:
            continue
        nv += 1
        me = Obj("taproot", "TapLeaf", {})
        script = Obj("taproot", "TapScript", {"commands": [bytes(range(32)), 0xAC]})
        try:
            ev = Evaluator(ctx.repo, method_hooks=hooks)
            ev.call(spec, [script, version], self_obj=me)
            h = ev.call("taproot:TapLeaf.hash", [], self_obj=me)
        except Raised as x:
            return [ctx.bad(spec, "a leaf of version %#04x (an even byte other than 0x50: allowed by BIP341) cannot be built or hashed (%s): a tree holding it has no root, output key or "
                                  "control blocks" % (version, x.name), fn, mod, key="leaf-any-size")]
        except Undecided as u:
            return [ctx.err(spec, "TapLeaf not evaluable: %s" % u, fn, mod)]
        if h != hashlib.sha256(tag + tag + bytes([version, len(body)]) + body).digest():
            return [ctx.bad(spec, "the hash of a leaf of version %#04x is not the tagged hash of version ‖ compact_size(script) ‖ script" % version, fn, mod, key="leaf-any-size")]
    ctx.count("cells", 2 * len(sizes) + nv)
    return [ctx.ok(spec, "scripts of %s bytes all get a leaf that keeps script and version; all %d leaf versions BIP341 allows build and hash" % (", ".join(str(x) for x in sizes), nv), fn, mod,
                   key="leaf-any-size")]



def c12_20(ctx):
    """compact-size integers and strings on every width boundary: canonical form written, inverse read (rules/bitcodecs.py varint_cells)"""
    from rules.bitcodecs import try_cells, varint_cells
    r = try_cells(varint_cells, ctx)
    if r is None:
        mod, fn = rl.get(ctx, "helper:encode_varint")
        return [ctx.err("helper:encode_varint", "compact-size codec outside the evaluator's subset", fn, mod)]
    return r



def c12_21(ctx):
    """ControlBlock.__eq__ evaluated: a control block built for an internal key with odd Y and the one parsed back from its serialisation
    (whose key is the even-Y lift of the same x) are equal -- a control block carries the x coordinate only; blocks that differ in leaf
    version, parity bit, x coordinate, or one path hash are unequal"""
    from sa.cells import Evaluator, Obj, Raised, Undecided
    spec = "taproot:ControlBlock.__eq__"
    mod, fn = rl.get(ctx, spec)
    P_ = 2 ** 256 - 2 ** 32 - 977
    X, Y = 0x79BE667EF9DCBBAC55A06295CE870B07029BFCDB2DCE28D959F2815B16F81798, 0x483ADA7726A3C4655DA4FBFC0E1108A8FD17B448A68554199C47D08FFB10D4B8

    def point(x, y):
        return Obj("pecc", "S256Point", {"x": Obj("pecc", "S256Field", {"num": x, "prime": P_}), "y": Obj("pecc", "S256Field", {"num": y, "prime": P_}), "parity": y & 1,
                                         "a": Obj("pecc", "S256Field", {"num": 0, "prime": P_}), "b": Obj("pecc", "S256Field", {"num": 7, "prime": P_})})

    def cb(ver=0xC0, par=1, x=X, y=Y, hashes=(b"\x01" * 32, b"\x02" * 32)):
        return Obj("taproot", "ControlBlock", {"tapleaf_version": ver, "parity": par, "internal_pubkey": point(x, y), "hashes": list(hashes)})
    odd_y = Y if Y & 1 else P_ - Y
    even_y = P_ - odd_y
    cases = [("built for the odd-Y internal key vs parsed back (even-Y lift of the same x)", cb(y=odd_y), cb(y=even_y), True),
             ("two copies", cb(), cb(), True),
             ("other leaf version", cb(), cb(ver=0xC2), False), ("other parity bit", cb(par=1), cb(par=0), False),
             ("other internal key x", cb(), cb(x=(X + 1) % P_), False), ("one path hash differs", cb(), cb(hashes=(b"\x01" * 32, b"\x03" * 32)), False),
             ("one path hash fewer", cb(), cb(hashes=(b"\x01" * 32,)), False)]
    try:
        for label, a, b, want in cases:
            ctx.count("cells")
            try:
                r = Evaluator(ctx.repo, max_steps=1000000).call(spec, [b], self_obj=a)
            except Raised as x:
                return [ctx.bad(spec, "comparing control blocks (%s) raises %s" % (label, x.name), fn, mod, key="cb-equality")]
            if bool(r) != want:
                return [ctx.bad(spec, "control blocks, %s: compared %s" % (label, "unequal although they serialise to the same bytes -- the control block the library builds does not "
                                                                           "compare equal to its own parsed serialisation" if want else "equal although their bytes differ"), fn, mod,
                                key="cb-equality")]
    except Undecided as u:
        return [ctx.err(spec, "ControlBlock.__eq__ not evaluable: %s" % u, fn, mod)]
    return [ctx.ok(spec, "equal exactly when leaf version, parity bit, x coordinate of the internal key and the path agree (%d cells)" % len(cases), fn, mod, key="cb-equality")]



def c12_22(ctx):
    """the leaf script of a script-path witness is hashed as the bytes it has IN THE WITNESS: Witness.tap_script() evaluated on leaf scripts with
    minimal pushes and with the same pushes spelled non-minimally (OP_PUSHDATA1 / OP_PUSHDATA2 for a 32-byte key, OP_PUSHDATA1 for one byte) --
    the script object returned serialises (raw_serialize, which TapLeaf.hash and the BIP341 digest use) to exactly the witness item.  A parser
    that re-encodes the pushes makes `4c 20 <key> ac` hash like `20 <key> ac`: a spend whose leaf script differs from the committed one is
    reported valid"""
    from sa.cells import Evaluator, Obj, Raised, Undecided
    spec = "witness:Witness.tap_script"
    mod, fn = rl.get(ctx, spec)
    key = bytes(range(1, 33))
    cb = b"\xc0" + bytes(32)
    scripts = [("minimal push", b"\x20" + key + b"\xac"), ("OP_PUSHDATA1 for the 32-byte key", b"\x4c\x20" + key + b"\xac"), ("OP_PUSHDATA2 for the 32-byte key", b"\x4d\x20\x00" + key + b"\xac"),
               ("OP_PUSHDATA1 for a 1-byte element", b"\x4c\x01\x07\x87"), ("only opcodes", b"\x51\x87")]
    try:
        for label, raw in scripts:
            for annex in (False, True):
                ctx.count("cells")
                items = [b"sig", raw, cb] + ([b"\x50\xaa"] if annex else [])
                try:
                    ev = Evaluator(ctx.repo, max_steps=1000000)
                    sc = ev.call(spec, [], self_obj=Obj("witness", "Witness", {"items": items}))
                    back = ev.call("script:Script.raw_serialize", [], self_obj=sc)
                except Raised as x:
                    return [ctx.bad(spec, "the leaf script %s (%s) cannot be taken from the witness: %s" % (raw.hex()[:16] + "…", label, x.name), fn, mod, key="leaf-bytes")]
                if back != raw:
                    return [ctx.bad(spec, "a leaf script written with %s (%s…) comes back as %s…: the leaf hash, the Merkle root and the BIP341 digest are computed over other bytes than the "
                                          "witness holds, so a spend whose leaf script is not the committed one verifies" % (label, raw.hex()[:12], back.hex()[:12] if isinstance(back, bytes) else back),
                                    fn, mod, key="leaf-bytes")]
    except Undecided as u:
        return [ctx.err(spec, "Witness.tap_script not evaluable: %s" % u, fn, mod)]
    return [ctx.ok(spec, "%d leaf scripts (minimal and non-minimal pushes, with and without annex) serialise to the witness item byte for byte" % (2 * len(scripts)), fn, mod, key="leaf-bytes")]



OBLIGATIONS = [
    ("C12.22", "CELLS leaf bytes", c12_22),
    ("C12.21", "CELLS control block equality", c12_21),
    ("C12.20", "CELLS compact size (shared)", c12_20),
    ("C12.17", "CELLS control block length", c12_17),
    ("C12.18", "CELLS merkle order", c12_18),
    ("C12.19", "CELLS leaf of any size", c12_19),
    ("C12.15", "RANGE partition (shared C04.1)", c12_15),
    ("C12.16", "CELLS control block", c12_16),
    ("C12.14", "SHARED", c12_14),
    ("C12.13", "SET-ORDER", c12_13),
    ("C12.12", "MEMO", c12_12),
    ("C12.7", "SIBLING read-set", c12_7),
    ("C12.6", "MEMO", c12_6),
    ("C12.1", "SIBLING", c12_1),
    ("C12.2", "LAYOUT", c12_2),
    ("C12.3", "LAYOUT slice tiling", c12_3),
    ("C12.4", "SIBLING dataflow", c12_4),
    ("C12.5", "DATAFLOW", c12_5),
    ("C12.8", "SIBLING dataflow", c12_8),
    ("C12.9", "FALSY-DEFAULT", c12_9),
    ("C12.10", "CELLS annex index", c12_10),
    ("C12.11", "SHARED codec + commitment comparison", c12_11),
]
FLOORS = {"C12.1": 4, "C12.3": 6, "C12.4": 10, "C12.5": 5}
