"""C13 — MuSig and k-of-n trees (structural clauses)."""
import ast

from sa import rl
from sa.cfg import cfg_of
from sa.dataflow import call_name, dotted, expand, origins
from sa.guard import BAD_FALSE
from sa.loader import AnalysisError, param_names

EXPLANATION = (
    "Static analysis of buidl/taproot.py: the participant keys reach the key-aggregation commitment, the coefficients, the stored key list and "
    "the script only through sorted(); get_signature returns only after verify_schnorr succeeded; each tree generator appends exactly one leaf per "
    "element of combinations(points, k) built from that subset with that k; the challenge preimage of sign and get_signature is R.x ‖ Q.x ‖ m on "
    "both sides. Not decided: the aggregation algebra, the parity case analysis, validity of aggregate signatures (numerical)."
)


def _order_cells(ctx, spec):
    """the constructor evaluated for every arrival order of 2 and 3 formal keys (distinct x-only strings; the SEC strings are made to
    sort the other way round): the keys written into the script, and the points kept, must be in ascending x-only order every time"""
    import itertools
    from sa.cells import Evaluator, Obj, Raised, Undecided
    mod, fn = rl.get(ctx, spec)
    musig = "MuSig" in spec

    def xo(i):
        return bytes([0x40 + i]) * 32

    def pt(i):
        return Obj("pecc", "S256Point", {"id": i})

    def opaque(name, args, kw):
        if name in ("hash_keyagglist", "hash_keyaggcoef"):
            return b"<" + name.encode() + b":" + args[0] + b">"
        return NotImplemented
    hooks = {("S256Point", "xonly"): lambda p: xo(p.attrs["id"]) if "id" in p.attrs else b"Q" * 32,
             ("S256Point", "sec"): lambda p, *a, **k: bytes([3 if p.attrs["id"] < 2 else 2]) + bytes([0x60 - p.attrs["id"]]) * 32,
             ("S256Point", "parse_xonly"): lambda cls, b: pt(b[0] - 0x40), ("S256Point", "parse"): lambda cls, b: pt(b[-1] - 0x40 if len(b) == 32 else 0x60 - b[-1]),
             ("S256Point", "__rmul__"): lambda p, c: ("mul", c, p.attrs["id"]), ("Point", "__rmul__"): lambda p, c: ("mul", c, p.attrs["id"]),
             ("S256Point", "combine"): lambda cls, terms: Obj("pecc", "S256Point", {"sum": tuple(sorted(terms, key=repr))})}
    cells = 0
    for n in (2, 3):
        want = [xo(i) for i in range(n)]
        for order in itertools.permutations(range(n)):
            cells += 1
            me = Obj("taproot", spec.split(":")[1].split(".")[0])
            args = [[pt(i) for i in order]] + ([] if musig else [n - 1 if n > 1 else 1])
            try:
                Evaluator(ctx.repo, opaque=opaque, method_hooks=hooks).call(spec, args, self_obj=me)
            except Raised as x:
                raise Undecided("raises %s" % x.name)
            cmds = me.attrs.get("commands")
            pts = me.attrs.get("points")
            if not isinstance(cmds, list) or not isinstance(pts, list):
                raise Undecided("commands / points not built")
            keys = [c for c in cmds if isinstance(c, bytes) and len(c) >= 32]
            ids = [q.attrs.get("id") if isinstance(q, Obj) else None for q in pts]
            arrival = "keys given in the order %s" % (list(order),)
            if not musig and keys != want:
                return ctx.bad(spec, "%s: the script lists the keys as %s, not in ascending x-only order -- the caller's key order (or another encoding's order) reaches "
                                     "the script, so the same key set yields different leaves" % (arrival, [k[0] - 0x40 if len(k) == 32 else "sec" for k in keys]), fn, mod, key="sorted-keys")
            if ids != list(range(n)):
                return ctx.bad(spec, "%s: self.points is kept in the order %s, not ascending x-only order -- the caller's key order reaches the aggregate / script" % (arrival, ids),
                               fn, mod, key="sorted-keys")
    ctx.count("cells", cells)
    return ctx.ok(spec, "keys and points end up in ascending x-only order for every arrival order of 2 and 3 keys (%d evaluations)" % cells, fn, mod, key="sorted-keys")


def _order_syntactic(ctx, spec):
    out = []
    mod, fn = rl.get(ctx, spec)
    p = param_names(fn)[1]
    parents = {}
    for node in ast.walk(fn):
        for ch in ast.iter_child_nodes(node):
            parents[ch] = node
    bad = []
    uses = 0
    for node in ast.walk(fn):
        if isinstance(node, ast.Name) and node.id == p and isinstance(node.ctx, ast.Load):
            uses += 1
            # climb to the nearest call
            cur = node
            ok = False
            while cur in parents:
                cur = parents[cur]
                if isinstance(cur, ast.Call) and call_name(cur) in ("sorted", "len"):
                    ok = True
                    break
                if isinstance(cur, ast.stmt):
                    break
            if not ok:
                bad.append(node)
    if not uses:
        raise AnalysisError("%s: parameter %s unused" % (spec, p))
    if bad:
        out.append(ctx.bad(spec, "the caller's key order reaches the script / aggregate: `%s` is used outside sorted() at line %d" % (p, bad[0].lineno), bad[0], mod, key="sorted-keys"))
    else:
        out.append(ctx.ok(spec, "every use of `%s` (%d) is inside sorted() or len()" % (p, uses), fn, mod, key="sorted-keys"))
    # what is sorted: the x-only encodings
    srt = [c for c in ast.walk(fn) if isinstance(c, ast.Call) and call_name(c) == "sorted"]
    if srt and "xonly()" in ast.unparse(srt[0]):
        out.append(ctx.ok(spec, "keys are ordered by their x-only encoding", srt[0], mod, key="sort-key"))
    else:
        out.append(ctx.err(spec, "cannot see which encoding the keys are ordered by", fn, mod))
    return out


def c13_1(ctx):
    from sa.cells import Undecided
    out = []
    for spec in ("taproot:MuSigTapScript.__init__", "taproot:MultiSigTapScript.__init__"):
        try:
            out.append(_order_cells(ctx, spec))
        except Undecided:
            out += _order_syntactic(ctx, spec)
    # MuSig: commitment over the sorted keys, coefficient per key, second coefficient 1
    out += _musig_keyagg(ctx)
    return out


def _musig_keyagg(ctx):
    """BIP327 KeyAgg in MuSigTapScript.__init__, evaluated over *free terms*: keys are formal points with distinct x-only strings, the
    two tagged hashes are free constructors (written as bracketed byte strings, so that concatenation stays visible), c * P is the
    pair (c, P) and combine() the multiset of its arguments.  The object built must carry L = H_list(x_1 ‖ … ‖ x_n) over the sorted
    keys, a_i = int(H_coef(L ‖ x_i)) except a_2 = 1, and Q = sum a_i P_i -- for every arrival order of 2, 3 and 4 keys."""
    import itertools
    from sa.cells import Evaluator, Obj, Raised, Undecided
    spec = "taproot:MuSigTapScript.__init__"
    mod, fn = rl.get(ctx, spec)

    def xo(i):
        return bytes([0x40 + i]) * 32

    def pt(i):
        return Obj("pecc", "S256Point", {"id": i})

    def opaque(name, args, kw):
        if name == "hash_keyagglist":
            return b"<L:" + args[0] + b">"
        if name == "hash_keyaggcoef":
            return b"<C:" + args[0] + b">"
        return NotImplemented

    def rmul(p, c):
        return ("mul", c, p.attrs["id"])

    def combine(cls, terms):
        return Obj("pecc", "S256Point", {"sum": tuple(sorted(terms, key=repr))})
    hooks = {("S256Point", "xonly"): lambda p: xo(p.attrs["id"]) if "id" in p.attrs else b"Q" * 32, ("S256Point", "parse_xonly"): lambda cls, b: pt(b[0] - 0x40),
             ("S256Point", "__rmul__"): rmul, ("S256Point", "combine"): combine, ("Point", "__rmul__"): rmul}
    cells = 0
    # one key: there is no second key whose coefficient is forced to 1 (BIP327 GetSecondKey finds none); the object is still built -- TapRootMultiSig
    # asks for the aggregate of all its keys as default internal key, also for a 1-of-1 wallet, which the tree clause quantifies over
    cells += 1
    me1 = Obj("taproot", "MuSigTapScript")
    try:
        Evaluator(ctx.repo, opaque=opaque, method_hooks=hooks).call(spec, [[pt(0)]], self_obj=me1)
    except Undecided as u:
        return _musig_needles(ctx, fn, mod, str(u))
    except Raised as x:
        return [ctx.bad(spec, "key aggregation of a single key raises %s: TapRootMultiSig([key], 1) -- a 1-of-1 wallet, inside 1 <= k <= n -- cannot be constructed, so no tree is "
                              "generated for it" % x.name, fn, mod, key="agg-single")]
    L1 = b"<L:" + xo(0) + b">"
    q1 = me1.attrs.get("point")
    if not isinstance(q1, Obj) or q1.attrs.get("sum") != (("mul", int.from_bytes(b"<C:" + L1 + xo(0) + b">", "big"), 0),):
        return [ctx.bad(spec, "the aggregate of a single key is not a_1 * P_1 with a_1 = int(H_coef(L ‖ x_1))", fn, mod, key="agg-single")]
    for n in (2, 3, 4):
        for order in itertools.permutations(range(n)):
            cells += 1
            me = Obj("taproot", "MuSigTapScript")
            try:
                Evaluator(ctx.repo, opaque=opaque, method_hooks=hooks).call(spec, [[pt(i) for i in order]], self_obj=me)
            except Undecided as u:
                return _musig_needles(ctx, fn, mod, str(u))
            except Raised as x:
                return [ctx.bad(spec, "key aggregation of %d keys raises %s" % (n, x.name), fn, mod, key="agg-list")]
            L = b"<L:" + b"".join(xo(i) for i in range(n)) + b">"
            coef = [1 if i == 1 else int.from_bytes(b"<C:" + L + xo(i) + b">", "big") for i in range(n)]
            want_q = tuple(sorted([("mul", coef[i], i) for i in range(n)], key=repr))
            got_l, got_c, got_q = me.attrs.get("commitment"), me.attrs.get("coefs"), me.attrs.get("point")
            arrival = "keys arriving in the order %s" % (list(order),)
            if got_l != L:
                return [ctx.bad(spec, "%s: the key-list hash is not H(x_1 ‖ … ‖ x_n) over the sorted x-only keys (%s)" % (arrival, _show(got_l)), fn, mod, key="agg-list")]
            if not isinstance(got_c, list) or len(got_c) != n:
                return _musig_needles(ctx, fn, mod, "coefs is %r" % (got_c,))
            if got_c[1] != 1:
                return [ctx.bad(spec, "%s: the second key's coefficient is not 1" % arrival, fn, mod, key="second-coef")]
            for i in range(n):
                if got_c[i] != coef[i]:
                    return [ctx.bad(spec, "%s: coefficient of key %d is not int(H_coef(L ‖ x_%d))%s" % (arrival, i + 1, i + 1, " (it is 1)" if got_c[i] == 1 else ""), fn, mod,
                                    key="agg-coef")]
            if not isinstance(got_q, Obj) or got_q.attrs.get("sum") != want_q:
                return [ctx.bad(spec, "%s: the aggregate key is not the sum of a_i * P_i over the sorted keys" % arrival, fn, mod, key="agg-point")]
    ctx.count("cells", cells)
    return [ctx.ok(spec, "key-aggregation list hash covers the sorted keys (%d arrival orders of 2..4 keys, free-term evaluation)" % cells, fn, mod, key="agg-list"),
            ctx.ok(spec, "coefficient = H(commitment ‖ key) for every key but the second", fn, mod, key="agg-coef"),
            ctx.ok(spec, "second key's coefficient is 1", fn, mod, key="second-coef"),
            ctx.ok(spec, "aggregate key = sum of coefficient * key", fn, mod, key="agg-point")]


def _show(v):
    return (v[:24].decode("latin-1") + "…") if isinstance(v, bytes) else repr(v)[:40]


def _musig_needles(ctx, fn, mod, why):
    """fallback when the constructor is not evaluable: the reference statements, else undecided"""
    out = []
    src = ast.unparse(fn)
    checks = [("hash_keyagglist(b''.join(xonlys))", "key-aggregation list hash covers the sorted keys", "agg-list"),
              ("hash_keyaggcoef(self.commitment + b)", "coefficient = H(commitment ‖ key)", "agg-coef"),
              ("self.coefs[1] = 1", "second key's coefficient is 1", "second-coef")]
    for needle, what, k in checks:
        if needle in src:
            out.append(ctx.ok("taproot:MuSigTapScript.__init__", what, fn, mod, key=k))
        else:
            out.append(ctx.err("taproot:MuSigTapScript.__init__", "constructor not evaluable (%s) and shape `%s` not found (%s)" % (why, needle, what), fn, mod))
    return out


def c13_2(ctx):
    def match(node, ex, atoms):
        t = node.ast
        if isinstance(t, ast.Call) and call_name(t) == "verify_schnorr":
            return BAD_FALSE
        return None
    out = [rl.guard(ctx, "taproot:MuSigTapScript.get_signature", match, what="aggregate signature is self-verified before it is returned", key="self-verify")]
    mod, fn = rl.get(ctx, "taproot:MuSigTapScript.get_signature")
    # the verification is against the same key the challenge was computed for, over sig_hash
    for n, c in rl.find_calls(fn, "verify_schnorr"):
        recv = dotted(c.func.value)
        if recv == "external_pubkey" and c.args and isinstance(c.args[0], ast.Name) and c.args[0].id == "sig_hash":
            out.append(ctx.ok("taproot:MuSigTapScript.get_signature", "verified under the (tweaked / even) aggregate key over sig_hash", c, mod, key="verify-key"))
        else:
            out.append(ctx.bad("taproot:MuSigTapScript.get_signature", "self-verification `%s` is not external_pubkey.verify_schnorr(sig_hash, …)" % ast.unparse(c), c, mod, key="verify-key"))
    return out


def c13_3(ctx):
    out = []
    for spec, cls, kexpr in (("taproot:TapRootMultiSig.multi_leaf_tree", "MultiSigTapScript", "self.k"), ("taproot:TapRootMultiSig.musig_tree", "MuSigTapScript", "self.k"),
                             ("taproot:TapRootMultiSig.degrading_multisig_tree", "MultiSigTapScript", None)):
        mod, fn = rl.get(ctx, spec)
        cfg = cfg_of(fn)
        loops = [lp for lp in cfg.loops.values() if isinstance(lp.stmt, ast.For) and isinstance(lp.stmt.iter, ast.Call) and call_name(lp.stmt.iter) == "combinations"]
        if not loops:
            out.append(ctx.bad(spec, "leaves are not generated from combinations(points, k)", fn, mod, key="combinations"))
            continue
        lp = loops[0]
        it = lp.stmt.iter
        var = lp.stmt.target.id if isinstance(lp.stmt.target, ast.Name) else None
        karg = ast.unparse(it.args[1]) if len(it.args) > 1 else None
        probs = []
        if ast.unparse(it.args[0]) != "self.points":
            probs.append("subsets are drawn from `%s`, not self.points" % ast.unparse(it.args[0]))
        if kexpr and karg != kexpr:
            probs.append("subset size is `%s`, not %s" % (karg, kexpr))
        body = lp.stmt.body
        appends = [s for s in body if isinstance(s, ast.Expr) and isinstance(s.value, ast.Call) and call_name(s.value) == "append"]
        nested_appends = [c for s in body for c in ast.walk(s) if isinstance(c, ast.Call) and call_name(c) == "append"]
        if len(appends) != 1 or len(nested_appends) != 1:
            probs.append("%d unconditional / %d total leaf appends per subset (expected exactly one)" % (len(appends), len(nested_appends)))
        ctor = [c for s in body for c in ast.walk(s) if isinstance(c, ast.Call) and call_name(c) == cls]
        if not ctor:
            probs.append("leaf script is not a %s" % cls)
        else:
            c0 = ctor[0]
            if not (c0.args and isinstance(c0.args[0], ast.Name) and c0.args[0].id == var):
                probs.append("leaf script is built from `%s`, not the subset `%s`" % (ast.unparse(c0.args[0]) if c0.args else None, var))
            if cls == "MultiSigTapScript" and len(c0.args) > 1 and ast.unparse(c0.args[1]) != karg:
                probs.append("leaf threshold `%s` differs from the subset size `%s`" % (ast.unparse(c0.args[1]), karg))
        if any(isinstance(s, (ast.Break, ast.Continue)) for s0 in body for s in ast.walk(s0)):
            probs.append("the subset loop contains break/continue")
        if probs:
            out.append(ctx.bad(spec, "; ".join(probs), lp.stmt, mod, key="leaf-per-subset"))
        else:
            out.append(ctx.ok(spec, "one %s leaf per element of combinations(self.points, %s), built from that subset" % (cls, karg), lp.stmt, mod, key="leaf-per-subset"))
        # the tree is built from all collected leaves
        rets = [n for n in cfg.returns() if n.ast is not None and n.ast.value is not None]
        if rets and all(ast.unparse(n.ast.value) == "TapBranch.combine(leaves)" for n in rets):
            out.append(ctx.ok(spec, "tree = TapBranch.combine(all collected leaves)", rets[0].ast, mod, key="combine-all"))
        else:
            out.append(ctx.bad(spec, "returned tree is `%s`, not TapBranch.combine(leaves)" % [ast.unparse(n.ast.value) for n in rets], fn, mod, key="combine-all"))
    # TapBranch.combine keeps every node: halves nodes[:h] and nodes[h:]
    mod, fn = rl.get(ctx, "taproot:TapBranch.combine")
    src = ast.unparse(fn)
    if "nodes[:half_way]" in src and "nodes[half_way:]" in src and "len(nodes) // 2" in src:
        out.append(ctx.ok("taproot:TapBranch.combine", "splits the node list into nodes[:h] and nodes[h:] (no node dropped or duplicated)", fn, mod, key="split"))
    else:
        out.append(ctx.err("taproot:TapBranch.combine", "halving idiom not recognised", fn, mod))
    return out


def _flat(e):
    if isinstance(e, ast.BinOp) and isinstance(e.op, ast.Add):
        return _flat(e.left) + _flat(e.right)
    return [e]


def c13_4(ctx):
    out = []
    pre = {}
    for spec in ("taproot:MuSigTapScript.sign", "taproot:MuSigTapScript.get_signature"):
        mod, fn = rl.get(ctx, spec)
        sites = rl.find_calls(fn, "hash_challenge")
        if not sites:
            raise AnalysisError("%s: hash_challenge call not found" % spec)
        for n, c in sites:
            ex = expand(fn, n.id, c.args[0], depth=1) if isinstance(c.args[0], ast.Name) else c.args[0]
            terms = [ast.unparse(t) for t in _flat(ex)]
            pre[spec] = terms
            if terms == ["r.xonly()", "external_pubkey.xonly()", "sig_hash"]:
                out.append(ctx.ok(spec, "challenge preimage R.x ‖ Q.x ‖ m", c, mod, key="challenge"))
            else:
                out.append(ctx.bad(spec, "challenge preimage is %s, BIP340: R.x ‖ P.x ‖ m" % " ‖ ".join(terms), c, mod, key="challenge"))
    if len(set(tuple(v) for v in pre.values())) == 1:
        out.append(ctx.ok("taproot:MuSigTapScript.sign↔get_signature", "partial signer and aggregator hash the same challenge preimage", key="agree"))
    else:
        out.append(ctx.bad("taproot:MuSigTapScript.sign↔get_signature", "partial signer hashes %s, aggregator %s" % tuple(pre.values()), key="agree"))
    # both pick the same key: tweaked when a merkle root is given, even point otherwise
    for spec in ("taproot:MuSigTapScript.sign", "taproot:MuSigTapScript.get_signature"):
        mod, fn = rl.get(ctx, spec)
        cfg = cfg_of(fn)
        arms = {}
        for n in cfg.tests():
            if isinstance(n.ast, ast.Name) and n.ast.id == "merkle_root":
                for s, l in cfg.succ[n.id]:
                    a = cfg.nodes[s].ast
                    if isinstance(a, ast.Assign) and ast.unparse(a.targets[0]) == "external_pubkey":
                        arms[l] = ast.unparse(a.value)
        if arms == {True: "self.point.tweaked_key(merkle_root)", False: "self.point.even_point()"}:
            out.append(ctx.ok(spec, "signing key: tweaked aggregate with a merkle root, even-Y aggregate without", fn, mod, key="key-choice"))
        else:
            out.append(ctx.bad(spec, "signing key selection %s" % arms, fn, mod, key="key-choice"))
    return out


def c13_5(ctx):
    """MultiSigTapScript: every key is in the script.  With two or more keys (and any k >= 1) every path through the
    constructor runs the loop that appends `<key> CHECKSIGADD` for the remaining keys and the `<k> NUMEQUAL` tail; the
    decision may depend on the number of keys only (a 1-of-n leaf still lists n keys)."""
    from sa.interval import ISet
    from sa.ranges import Ranges

    spec = "taproot:MultiSigTapScript.__init__"
    mod, fn = rl.get(ctx, spec)
    ps = param_names(fn)
    pts, k = ps[1], ps[2]
    cfg = cfg_of(fn)
    loops = [lp for lp in cfg.loops.values() if isinstance(lp.stmt, ast.For) and any(isinstance(x, ast.Constant) and x.value == 0xBA for x in ast.walk(lp.stmt))]
    if not loops:
        raise AnalysisError("MultiSigTapScript.__init__: CHECKSIGADD loop not found")
    lp = loops[0]
    track = {"len(%s)" % pts: ISet.range(2, None), k: ISet.range(1, None)}
    for st in ast.walk(fn):
        # aliases of the key list (xonlys = sorted([...for p in points])) have the same length
        if isinstance(st, ast.Assign) and isinstance(st.targets[0], ast.Name) and pts in {x.id for x in ast.walk(st.value) if isinstance(x, ast.Name)} \
                and isinstance(st.value, ast.Call) and call_name(st.value) in ("sorted", "list"):
            track["len(%s)" % st.targets[0].id] = ISet.range(2, None)
    rg = Ranges(ctx.repo, mod, fn, track, types=track)
    if rg.uninterpreted:
        n0, why = rg.uninterpreted[0]
        return [ctx.err(spec, "test on the number of keys / k not understood: %s" % why, getattr(n0, "ast", None), mod)]
    # feasible edges under the domain; can the normal exit be reached without entering the loop?
    removed = set()
    for (a, b, label), st_ in rg.edge_state.items():
        if st_ is None or st_.bottom():
            removed.add((a, b, label))
    head = lp.head
    exits = [n.id for n in cfg.nodes if n.kind in ("exit_normal", "exit", "return")]
    forn = [n.id for n in cfg.nodes if n.kind == "for" and n.stmt is lp.stmt] or [head]
    reach = cfg.reach([cfg.entry], removed=frozenset(removed), blocked=frozenset(forn))
    bypass = [e for e in exits if e in reach]
    if not bypass:
        return [ctx.ok(spec, "with >= 2 keys and any k >= 1 every path appends all remaining keys (CHECKSIGADD loop) before the constructor returns", lp.stmt, mod, key="all-keys")]
    # which test lets the path skip the loop
    path = cfg.path([cfg.entry], bypass, removed=frozenset(removed), blocked=frozenset(forn))
    tests = [cfg.nodes[i] for i, _ in (path or []) if cfg.nodes[i].kind == "test"]
    culprit = next((t for t in reversed(tests) if k in {x.id for x in ast.walk(t.ast) if isinstance(x, ast.Name)}), tests[-1] if tests else None)
    return [ctx.bad(spec, "with two or more keys the constructor can finish without appending the remaining keys: `%s` skips the CHECKSIGADD loop (e.g. k = 1, n = 2 gives "
                          "`<key0> CHECKSIG`, a 1-of-1 script that drops the other keys)" % (ast.unparse(culprit.ast) if culprit else "?"), culprit.ast if culprit else lp.stmt, mod,
                    key="all-keys")]


def c13_6(ctx):
    """get_signature, tweaked case: the aggregate s and the tweak term are negated exactly when the *tweaked* output key
    has odd Y (BIP341 signing with the negated secret): the arm `(-s_sum - e·t) mod n` is selected by the parity of
    point.tweaked_key(merkle_root) and by nothing else."""
    spec = "taproot:MuSigTapScript.get_signature"
    mod, fn = rl.get(ctx, spec)
    cfg = cfg_of(fn)
    out = []
    arms = []
    for n in cfg.tests():
        neg = pos = None
        for b, l in cfg.succ[n.id]:
            a = cfg.nodes[b].ast
            if isinstance(a, ast.Assign) and isinstance(a.value, ast.BinOp) and isinstance(a.value.op, ast.Mod):
                inner = ast.unparse(a.value.left)
                if inner.startswith("-") and " - " in inner:
                    neg = l
                elif " + " in inner and not inner.startswith("-"):
                    pos = l
        if neg is not None and pos is not None:
            arms.append((n, neg))
    if not arms:
        raise AnalysisError("get_signature: the negated / plain arms of the tweaked signature not found")
    for n, neg_label in arms:
        t = n.ast
        ex = expand(fn, n.id, t, depth=4)
        txt = ast.unparse(ex)
        want = "self.point.tweaked_key(merkle_root).parity"
        if txt == want and neg_label is True:
            out.append(ctx.ok(spec, "s and the tweak term are negated exactly when the tweaked output key has odd Y", t, mod, key="tweak-parity"))
        elif txt in ("%s == 1" % want, "%s != 0" % want) and neg_label is True or txt in ("%s == 0" % want, "%s != 1" % want) and neg_label is False:
            out.append(ctx.ok(spec, "s and the tweak term are negated exactly when the tweaked output key has odd Y", t, mod, key="tweak-parity"))
        elif isinstance(t, ast.Attribute) and t.attr == "parity" and "call:tweaked_key" in origins(fn, n.id, t.value) and neg_label is True \
                and len([x for x in ast.walk(ex) if isinstance(x, ast.Attribute) and x.attr == "parity"]) == 1:
            # the key travels through a local defined on several paths: every definition that can reach here involves tweaked_key
            out.append(ctx.ok(spec, "s and the tweak term are negated exactly when the tweaked output key has odd Y", t, mod, key="tweak-parity"))
        elif len([x for x in ast.walk(ex) if isinstance(x, ast.Attribute) and x.attr == "parity"]) >= 2 or "self.point.parity" in txt:
            out.append(ctx.bad(spec, "the negated arm is selected by `%s` instead of the parity of the tweaked output key alone: whenever the untweaked aggregate has odd Y "
                                     "the combined signature is computed with the wrong sign and does not verify" % ast.unparse(t), t, mod, key="tweak-parity"))
        else:
            out.append(ctx.err(spec, "condition of the negated arm not recognised: `%s`" % txt, t, mod))
    return out


def c13_7(ctx):
    """IDENTITY: the leaf of a k-subset is found by equality, not by object identity"""
    from sa.identity import identity_obligation
    return identity_obligation(ctx, ["taproot"], "the control block of a leaf rebuilt from the same k keys is not found, so that subset cannot spend")


def c13_9(ctx):
    """TapRootMultiSig accepts every threshold 1 <= k <= n (n-of-n included) and refuses the rest: cell evaluation of the constructor
    for n = 1..5 keys and k = -1..n+2"""
    from sa.cells import Evaluator, Obj, Raised, Undecided
    spec = "taproot:TapRootMultiSig.__init__"
    mod, fn = rl.get(ctx, spec)

    def musig_init(o, *a, **k):
        o.attrs["point"] = Obj("pecc", "S256Point", {})
    cells = 0
    for n in range(1, 6):
        for k in range(-1, n + 3):
            cells += 1
            me = Obj("taproot", "TapRootMultiSig")
            pts = [Obj("pecc", "S256Point", {"i": i}) for i in range(n)]
            try:
                Evaluator(ctx.repo, method_hooks={("MuSigTapScript", "__init__"): musig_init}).call(spec, [pts, k], self_obj=me)
                got = "accepted"
            except Undecided as u:
                return [ctx.err(spec, "constructor not evaluable for n=%d, k=%d: %s" % (n, k, u), fn, mod)]
            except Raised as x:
                got = "refused"
            want = "accepted" if 1 <= k <= n else "refused"
            if got != want:
                return [ctx.bad(spec, "k = %d of n = %d keys is %s, expected %s: %s" % (k, n, got, want,
                                "no tree can be generated for that threshold, so its k-subsets own no leaf" if want == "accepted" else "a threshold outside 1..n is taken"),
                                fn, mod, key="threshold-domain")]
    ctx.count("cells", cells)
    return [ctx.ok(spec, "thresholds 1..n are accepted and all others refused (%d (n, k) cells)" % cells, fn, mod, key="threshold-domain")]


def c13_10(ctx):
    """S256Point.combine (nonce / key aggregation) returns the sum of all points whatever the partial sums are: evaluated over formal
    multiples of one point (infinity = 0) for lists whose prefixes cancel"""
    from sa.cells import ClassRef, Evaluator, Obj, Raised, Undecided
    spec = "pecc:S256Point.combine"
    mod, fn = rl.get(ctx, spec)

    def mk(k):
        return Obj("pecc", "S256Point", {"k": k, "x": None if k == 0 else 1, "y": None if k == 0 else 1})

    def add(a, b):
        if not (isinstance(a, Obj) and isinstance(b, Obj)):
            raise Undecided("point + non-point")
        return mk(a.attrs["k"] + b.attrs["k"])
    lists = [[1], [2, 3], [1, 2, 3, 4], [1, -1, 5], [2, 3, -5, 7], [4, -4, 4, -4, 9], [1, 1, -2, 6]]
    for ks in lists:
        try:
            r = Evaluator(ctx.repo, method_hooks={("S256Point", "__add__"): add, ("Point", "__add__"): add}).call(spec, [[mk(k) for k in ks]], self_obj=ClassRef("pecc", "S256Point"))
        except Undecided as u:
            return [ctx.err(spec, "combine not evaluable: %s" % u, fn, mod)]
        except Raised as x:
            return [ctx.bad(spec, "combining the multiples %s of one point raises %s although the total is %d*P: participants whose first nonces (or keys) cancel cannot "
                                  "aggregate" % (ks, x.name, sum(ks)), fn, mod, key="combine-sum")]
        if not isinstance(r, Obj) or r.attrs.get("k") != sum(ks):
            return [ctx.bad(spec, "combining the multiples %s of one point gives %s, expected %d*P" % (ks, r.attrs.get("k") if isinstance(r, Obj) else r, sum(ks)), fn, mod,
                            key="combine-sum")]
    ctx.count("cells", len(lists))
    return [ctx.ok(spec, "returns the sum for all %d lists evaluated, including lists whose prefixes sum to infinity" % len(lists), fn, mod, key="combine-sum")]


def c13_8(ctx):
    """finalize_p2tr_multisig matches each signature to its key with the message of the signature's own hash type
    (64 bytes: SIGHASH_DEFAULT, 65 bytes: the last byte): the message verified must depend on the signature"""
    spec = "tx:Tx.finalize_p2tr_multisig"
    mod, fn = rl.get(ctx, spec)
    ps = param_names(fn)
    sigs = next((p for p in ps if p.startswith("sig")), None)
    if sigs is None:
        raise AnalysisError("finalize_p2tr_multisig: signature list parameter not found")
    sites = rl.find_calls(fn, "verify_schnorr")
    if not sites:
        raise AnalysisError("finalize_p2tr_multisig: verify_schnorr call not found")
    out = []
    for n, c in sites:
        if not c.args:
            continue
        oo = origins(fn, n.id, c.args[0])
        if "call:sig_hash" not in oo:
            out.append(ctx.err(spec, "message `%s` verified against each key does not come from sig_hash" % ast.unparse(c.args[0]), c, mod))
            continue
        # the hash type handed to sig_hash on the way to this message
        hts = []
        for n2, c2 in rl.find_calls(fn, "sig_hash"):
            a = [k.value for k in c2.keywords if k.arg == "hash_type"] or c2.args[1:2]
            hts.append((n2, c2, a[0] if a else None))
        dep = [(n2, c2, a) for n2, c2, a in hts if a is not None and ("param:" + sigs) in origins(fn, n2.id, a)]
        if dep:
            out.append(ctx.ok(spec, "the message verified for a signature is sig_hash(..., hash_type) with the hash type read from that signature (`%s`)" % ast.unparse(dep[0][1]),
                              c, mod, key="sig-hash-type"))
        else:
            n2, c2, a = hts[0]
            out.append(ctx.bad(spec, "every signature is checked against `%s`, whatever hash type the signature carries: a 65-byte signature (explicit SIGHASH_ALL, ...) from the "
                                     "right k-subset matches no key and the leaf spend is finalised with empty placeholders" % ast.unparse(c2), c2, mod, key="sig-hash-type"))
    return out


def c13_11(ctx):
    """MEMO: no method of the modules this property is anchored in answers from a value remembered from an earlier argument or an
    earlier state of the object (confirmed caches of the reference tree: sa/memo.py CONFIRMED_CACHES)"""
    from sa.memo import cache_obligation
    return cache_obligation(ctx, ["taproot", "tx", "pecc"], "a leaf, tree, coefficient or nonce sum computed for one key set would be returned for another")


def c13_12(ctx):
    """SET-ORDER: no ordered result (list, serialisation, yielded sequence) of the modules this property is anchored in takes its
    order from the iteration order of a set"""
    from sa.setorder import setorder_obligation
    return setorder_obligation(ctx, ["taproot", "tx", "pecc"], "the same inputs give different output from run to run")


def c13_13(ctx):
    """SHARED necessary conditions over the modules this property is anchored in: FALSY-DEFAULT, MUTABLE-DEFAULT, IDENTITY, ALIAS,
    CTOR-FORWARD (sa/shared.py)"""
    from sa.shared import shared_obligations
    return shared_obligations(ctx, ["taproot", "tx", "pecc"], "the result would depend on something other than the arguments and the object's current state")


def c13_14(ctx):
    """MuSig partial nonce k = k_1 + b * k_2 mod n is computed for *every* pair of secret nonces in [1, n-1]: compute_k is evaluated on the
    boundary values {1, 2, n-2, n-1} and a middle value for both nonces and coefficient b in {0, 1, n-1} (compute_coefficient is a stand-in);
    nothing in that range may be refused and the result must be the formula's"""
    from sa.cells import Evaluator, Obj, Raised, Undecided
    from spec.constants import SECP256K1
    N = SECP256K1["N"]
    spec = "taproot:MuSigTapScript.compute_k"
    mod, fn = rl.get(ctx, spec)
    vals = (1, 2, 1 << 255, N - 2, N - 1)
    cells = 0
    for b in (0, 1, N - 1):
        for k1 in vals:
            for k2 in vals:
                cells += 1
                me = Obj("taproot", "MuSigTapScript", {})
                try:
                    r = Evaluator(ctx.repo, method_hooks={("MuSigTapScript", "compute_coefficient"): lambda o, *a, **k: b}).call(spec, [(k1, k2), (None, None), b"m"], self_obj=me)
                except Raised as x:
                    return [ctx.bad(spec, "secret nonces (%s, %s) are refused (%s) although both lie in [1, n-1]: the signer holding them cannot take part" % (
                        _nm(k1, N), _nm(k2, N), x.name), fn, mod, key="nonce-domain")]
                except Undecided as u:
                    return [ctx.err(spec, "compute_k not evaluable: %s" % u, fn, mod)]
                if r != (k1 + b * k2) % N:
                    return [ctx.bad(spec, "k for nonces (%s, %s) and coefficient %s is not k_1 + b * k_2 mod n" % (_nm(k1, N), _nm(k2, N), _nm(b, N)), fn, mod, key="nonce-domain")]
    ctx.count("cells", cells)
    return [ctx.ok(spec, "k = k_1 + b * k_2 mod n for all %d boundary combinations of nonces in [1, n-1]" % cells, fn, mod, key="nonce-domain")]


def _nm(v, N):
    return {N - 1: "n-1", N - 2: "n-2", 1 << 255: "2^255"}.get(v, str(v))


def c13_15(ctx):
    """The five tree generators of TapRootMultiSig evaluated for every 1 <= k <= n <= 5 and for no timelock / a locktime / a sequence, with
    the two tap-script constructors and the tree constructors as recording stand-ins: single_leaf is the k-of-n script over all keys,
    multi_leaf_tree holds exactly one k-of-k script per k-subset, musig_tree exactly one MuSig aggregate per k-subset (k >= 2), the two
    composed trees hold the union of their parts -- every leaf with the timelock the generator was given.  A subset whose leaf is of another
    kind, carries another timelock or is missing owns no leaf it can spend"""
    import itertools
    from sa.cells import Evaluator, Obj, Raised, Undecided
    mod, _ = rl.get(ctx, "taproot:TapRootMultiSig.__init__")

    def multi_init(o, points, k, locktime=None, sequence=None):
        if locktime is not None and sequence is not None:
            raise Raised("ValueError")
        o.attrs.update({"kind": "k-of-n script", "pts": frozenset(p.attrs["i"] for p in points), "k": k, "lt": locktime, "seq": sequence})

    def musig_init(o, points, locktime=None, sequence=None):
        if locktime is not None and sequence is not None:
            raise Raised("ValueError")
        if len(points) < 2:
            raise Raised("IndexError")
        o.attrs.update({"kind": "MuSig aggregate", "pts": frozenset(p.attrs["i"] for p in points), "k": None, "lt": locktime, "seq": sequence, "point": Obj("pecc", "S256Point", {"i": -1})})

    def leaf(o):
        return Obj("taproot", "TapLeaf", {"s": o})

    def flat(t):
        if isinstance(t, Obj) and t.cls == "TapLeaf":
            a = t.attrs["s"].attrs
            return [(a["kind"], a["pts"], a["k"], a["lt"], a["seq"])]
        if isinstance(t, Obj) and t.cls == "TapBranch":
            return [x for kid in t.attrs["kids"] for x in flat(kid)]
        raise Undecided("tree node %r" % (t,))
    hooks = {("MultiSigTapScript", "__init__"): multi_init, ("MuSigTapScript", "__init__"): musig_init, ("TapScript", "tap_leaf"): leaf,
             ("TapBranch", "combine"): lambda cls, leaves: Obj("taproot", "TapBranch", {"kids": list(leaves)}),
             ("TapBranch", "__init__"): lambda o, left, right, *a, **k: o.attrs.update({"kids": [left, right]})}
    ext = {"combinations": itertools.combinations}
    gens = ["single_leaf", "multi_leaf_tree", "musig_tree", "musig_and_single_leaf_tree", "everything_tree"]
    out = []
    for g in gens:
        spec = "taproot:TapRootMultiSig." + g
        _, fn = rl.get(ctx, spec)
        verdict, cells = None, 0
        for n in range(1, 6):
            for k in range(1, n + 1):
                if "musig" in g or g == "everything_tree":
                    if k < 2:
                        continue   # a MuSig aggregate of one key is outside the property
                for tl in ("none", "locktime", "sequence"):
                    cells += 1
                    lt = Obj("timelock", "Locktime", {"v": 500}) if tl == "locktime" else None
                    sq = Obj("timelock", "Sequence", {"v": 7}) if tl == "sequence" else None
                    pts = [Obj("pecc", "S256Point", {"i": i}) for i in range(n)]
                    me = Obj("taproot", "TapRootMultiSig", {"n": n, "k": k, "points": pts, "default_internal_pubkey": Obj("pecc", "S256Point", {"i": -1})})
                    kw = {}
                    if lt is not None:
                        kw["locktime"] = lt
                    if sq is not None:
                        kw["sequence"] = sq
                    try:
                        t = Evaluator(ctx.repo, method_hooks=hooks, externals=ext).call(spec, [], self_obj=me, kwargs=kw)
                        got = sorted(flat(t), key=repr)
                    except Raised as x:
                        verdict = "%d-of-%d, timelock %s: raises %s" % (k, n, tl, x.name)
                        break
                    except Undecided as u:
                        return out + [ctx.err(spec, "%s not evaluable for k=%d, n=%d: %s" % (g, k, n, u), fn, mod)]
                    subsets = [frozenset(c) for c in itertools.combinations(range(n), k)]
                    single = [("k-of-n script", frozenset(range(n)), k, lt, sq)]
                    multi = [("k-of-n script", s_, k, lt, sq) for s_ in subsets]
                    musig = [("MuSig aggregate", s_, None, lt, sq) for s_ in subsets]
                    want = {"single_leaf": single, "multi_leaf_tree": multi, "musig_tree": musig, "musig_and_single_leaf_tree": single + musig,
                            "everything_tree": single + multi + musig}[g]
                    want = sorted(want, key=repr)
                    if got != want:
                        miss = [w for w in want if w not in got]
                        extra = [x for x in got if x not in want]

                        def show(l):
                            return "%s of keys %s%s%s" % (l[0], sorted(l[1]), " (threshold %s)" % l[2] if l[2] is not None else "",
                                                          ", locktime" if l[3] is not None else (", sequence" if l[4] is not None else ", no timelock"))
                        verdict = "%d-of-%d, timelock %s: the tree %s" % (k, n, tl, "; ".join(
                            (["lacks the %s" % show(miss[0])] if miss else []) + (["holds a %s instead" % show(extra[0])] if extra else []) or
                            ["holds %d leaves where %d are expected" % (len(got), len(want))]))
                        break
                if verdict:
                    break
            if verdict:
                break
        ctx.count("cells", cells)
        out.append(ctx.bad(spec, verdict + " -- that subset owns no leaf it can spend under the conditions the tree was generated for", fn, mod, key="tree-cells:" + g) if verdict else
                   ctx.ok(spec, "%d (k, n, timelock) cells: exactly the expected leaves, each with the generator's timelock" % cells, fn, mod, key="tree-cells:" + g))
    return out



def c13_16(ctx):
    """tapscript multisig finalisation (Tx.finalize_p2tr_multisig) evaluated over signer subsets × hash types × signature order × annex:
    the witness is the leaf's own (rule shared with C06.25)"""
    from rules.C06 import c06_25
    return c06_25(ctx)



def c13_17(ctx):
    """Tx.initialize_p2tr_multisig evaluated over call histories on one input: a first initialisation, a repeated one (witness still filled), and
    a re-initialisation for ANOTHER leaf after the witness was emptied (how one input object is reused for the leaves of a tree): after every
    history in which the witness was empty at the call, the witness is [leaf script, control block] of the leaf given AND the key list the
    finaliser matches signatures against (tx_in.tap_script) is that same leaf -- the two can never be of different leaves"""
    from sa.cells import Evaluator, Obj, Raised, Undecided
    spec = "tx:Tx.initialize_p2tr_multisig"
    mod, fn = rl.get(ctx, spec)
    hooks = {("Script", "raw_serialize"): lambda o: o.attrs["raw_"], ("ControlBlock", "serialize"): lambda o: o.attrs["raw_"]}

    def leaf(tag):
        return (Obj("taproot", "MultiSigTapScript", {"raw_": b"script-" + tag, "points": [tag]}), Obj("taproot", "ControlBlock", {"raw_": b"cb-" + tag}))
    A, B = leaf(b"A"), leaf(b"B")
    histories = [("first initialisation", [("init", A)], A), ("the same leaf twice", [("init", A), ("init", A)], A),
                 ("leaf A, witness emptied, then leaf B", [("init", A), ("clear",), ("init", B)], B),
                 ("leaf A, witness emptied, leaf B, witness emptied, leaf A again", [("init", A), ("clear",), ("init", B), ("clear",), ("init", A)], A),
                 ("leaf A, then leaf B while the witness is still filled", [("init", A), ("init", B)], A)]
    n = 0
    try:
        for label, steps, want in histories:
            n += 1
            tx_in = Obj("tx", "TxIn", {"witness": Obj("witness", "Witness", {"items": []}), "tap_script": None})
            me = Obj("tx", "Tx", {"tx_ins": [tx_in]})
            for st in steps:
                if st[0] == "clear":
                    tx_in.attrs["witness"] = Obj("witness", "Witness", {"items": []})
                else:
                    try:
                        Evaluator(ctx.repo, method_hooks=hooks).call(spec, [0, st[1][1], st[1][0]], self_obj=me)
                    except Raised as x:
                        return [ctx.bad(spec, "%s: raises %s" % (label, x.name), fn, mod, key="init-history")]
            items = tx_in.attrs["witness"].attrs.get("items") if isinstance(tx_in.attrs.get("witness"), Obj) else None
            ts = tx_in.attrs.get("tap_script")
            if items != [want[0].attrs["raw_"], want[1].attrs["raw_"]] or ts is not want[0]:
                got_leaf = ts.attrs["points"][0].decode() if isinstance(ts, Obj) else ts
                return [ctx.bad(spec, "%s: the witness holds %s while the key list for finalising is leaf %s's -- signatures of the leaf being spent are matched against another "
                                      "leaf's keys and the spend signed by its owners does not verify" % (
                                          label, [i_.decode() if isinstance(i_, bytes) else i_ for i_ in (items or [])], got_leaf), fn, mod, key="init-history")]
        # anything but a MultiSigTapScript is refused
        tx_in = Obj("tx", "TxIn", {"witness": Obj("witness", "Witness", {"items": []}), "tap_script": None})
        try:
            Evaluator(ctx.repo, method_hooks=hooks).call(spec, [0, A[1], Obj("taproot", "MuSigTapScript", {"raw_": b"x", "points": []})], self_obj=Obj("tx", "Tx", {"tx_ins": [tx_in]}))
            return [ctx.bad(spec, "a tap script that is not a MultiSigTapScript is accepted for multisig finalisation", fn, mod, key="init-history")]
        except Raised:
            pass
    except Undecided as u:
        return [ctx.err(spec, "initialize_p2tr_multisig not evaluable: %s" % u, fn, mod)]
    ctx.count("cells", n + 1)
    return [ctx.ok(spec, "%d call histories: witness and key list are always of the same leaf, the one given when the witness was empty" % n, fn, mod, key="init-history")]



def _tree_cells(ctx):
    if not hasattr(ctx, "_c13_15"):
        ctx._c13_15 = c13_15(ctx)
    return ctx._c13_15


def _c13_3_deferring(ctx):
    """one leaf per k-subset (COUNT over the generating loop); for multi_leaf_tree and musig_tree in another form the tree cells (C13.15: every
    1 <= k <= n <= 5) decide"""
    out = c13_3(ctx)
    covered = [r for r in out if r.anchor.endswith(".multi_leaf_tree") or r.anchor.endswith(".musig_tree")]
    rl.defer(ctx, covered, lambda: _tree_cells(ctx), "decided by the tree cells (C13.15: exactly one leaf per k-subset for every 1 <= k <= n <= 5 and every timelock); the generating loop is "
             "not in the form this rule reads")
    return out


def c13_18(ctx):
    """the timelock prefix of a leaf: locktime_commands / sequence_commands evaluated on values at every sign-bit and byte-width boundary of the
    script number encoding (1, 127 | 128, 255 | 256, 32767 | 32768, 0x7fffff | 0x800000, 2^31-1 | 2^31, 2^32-1, relative-time flag values): the
    first command must be the MINIMAL script number of the value -- with the extra 00 byte when the top bit of the last byte is set, or
    CHECKLOCKTIMEVERIFY / CHECKSEQUENCEVERIFY read a negative number and no subset can spend its timelocked leaf -- followed by the opcode and DROP"""
    from sa.cells import Evaluator, Obj, Raised, TaggedInt, Undecided

    def minimal(v):
        out = bytearray()
        while v:
            out.append(v & 0xFF)
            v >>= 8
        if out and out[-1] & 0x80:
            out.append(0)
        return bytes(out)
    values = [1, 16, 17, 127, 128, 144, 200, 255, 256, 32767, 32768, 65535, 65536, 0x7FFFFF, 0x800000, 0xFFFFFF, 0x1000000, 2 ** 31 - 1, 2 ** 31, 2 ** 32 - 1, 0x400000 | 1, 0x400000 | 0xFFFF]
    out = []
    for spec, cls, op in (("taproot:locktime_commands", "Locktime", 0xB1), ("taproot:sequence_commands", "Sequence", 0xB2)):
        mod, fn = rl.get(ctx, spec)
        bad = None
        try:
            for v in values:
                ctx.count("cells")
                try:
                    r = Evaluator(ctx.repo).call(spec, [TaggedInt(v, "timelock", cls)])
                except Raised as x:
                    bad = "the value %d raises %s" % (v, x.name)
                    break
                if not isinstance(r, list) or len(r) != 3 or r[1:] != [op, 0x75] or (r[0] != minimal(v) and not (1 <= v <= 16 and r[0] == 0x50 + v)):
                    bad = "the value %d gives the commands %s; a leaf must start with the minimal script number %s, opcode %#x, DROP" % (
                        v, [x.hex() if isinstance(x, bytes) else x for x in r] if isinstance(r, list) else r, minimal(v).hex(), op)
                    break
        except Undecided as u:
            out.append(ctx.err(spec, "timelock prefix not evaluable: %s" % u, fn, mod))
            continue
        out.append(ctx.bad(spec, bad, fn, mod, key="timelock-number") if bad else
                   ctx.ok(spec, "%d values on both sides of every sign-bit / width boundary give the minimal script number, the opcode and DROP" % len(values), fn, mod, key="timelock-number"))
    return out


OBLIGATIONS = [
    ("C13.18", "CELLS timelock number", c13_18),
    ("C13.14", "CELLS nonce domain", c13_14),
    ("C13.15", "CELLS tree generators", _tree_cells),
    ("C13.17", "CELLS initialise histories", c13_17),
    ("C13.16", "CELLS tapscript witness", c13_16),
    ("C13.13", "SHARED", c13_13),
    ("C13.12", "SET-ORDER", c13_12),
    ("C13.11", "MEMO", c13_11),
    ("C13.1", "ORDER", c13_1),
    ("C13.2", "GUARD", c13_2),
    ("C13.3", "COUNT", _c13_3_deferring),
    ("C13.4", "LAYOUT", c13_4),
    ("C13.5", "RANGE must-pass", c13_5),
    ("C13.6", "GUARD polarity", c13_6),
    ("C13.7", "IDENTITY", c13_7),
    ("C13.8", "DATAFLOW", rl.deferring(c13_8, lambda ctx: c13_16(ctx), "tx:Tx.finalize_p2tr_multisig", "decided by the finalisation cells (C13.16 / C06.25: 64- and 65-byte signatures in any order are "
                                       "matched with the digest of their own hash type); the verification call is not in the form the dataflow rule reads")),
    ("C13.9", "CELLS threshold domain", c13_9),
    ("C13.10", "CELLS formal sum", c13_10),
]
FLOORS = {"C13.1": 6, "C13.2": 2, "C13.3": 7, "C13.4": 5}
