"""C14 — BIP39 (structural clauses)."""
import ast
import hashlib

from sa import rl
from sa.cfg import cfg_of
from sa.dataflow import call_name, dotted, expand, origins
from sa.fold import Folder, Unknown, module_const
from sa.guard import BAD_FALSE, BAD_TRUE
from sa.interval import ISet
from sa.loader import AnalysisError, param_names

EXPLANATION = (
    "Static analysis of buidl/mnemonic.py, hd.py, helper.py, pbkdf2.py and the word-list data file: word-count accept-set and checksum comparison "
    "on every return of the decoder; the word-count / entropy-size tables and the checksum-length / byte-length formulas satisfy 11·w = ENT + ENT/32 "
    "for each table entry (evaluated by constant folding); the word list has 2048 sorted words with unique four-letter prefixes and the canonical "
    "SHA-256; the seed derivation binds PBKDF2-HMAC-SHA512, 2048 rounds, salt 'mnemonic'+password, 64 bytes over the normalised mnemonic after "
    "validating it; the vendored PBKDF2 applies the PRF exactly `iterations` times per block; the generator self-checks its output. "
    "Not decided: bit packing on values, PBKDF2 output equality with hashlib."
)

WORDS = (12, 15, 18, 21, 24)
BITS = (128, 160, 192, 224, 256)
BIP39_SHA256 = "2f5eed53a4727b4bf8880d8f3f199efc90e58503646d9ff8eff3a2ed3b24dbda"  # bitcoin/bips bip-0039/english.txt


def c14_1(ctx):
    spec = "mnemonic:mnemonic_to_bytes"
    mod, fn = rl.get(ctx, spec)
    out = rl.accept_set(ctx, spec, ["len(words)"], ISet.of(WORDS), targets="returns", init={"len(words)": ISet.range(0, None)}, prefer=(13, 11), what="word count")

    def match(node, ex, atoms):
        t = node.ast
        if isinstance(t, ast.Compare) and len(t.ops) == 1 and isinstance(t.ops[0], (ast.Eq, ast.NotEq)):
            lo, ro = origins(fn, node.id, t.left), origins(fn, node.id, t.comparators[0])
            for a, b in ((lo, ro), (ro, lo)):
                if "call:sha256" in a and "call:sha256" not in b and any(x in b for x in ("op:BitAnd", "call:divmod", "op:Mod")):
                    return BAD_TRUE if isinstance(t.ops[0], ast.NotEq) else BAD_FALSE
        return None
    out.append(rl.guard(ctx, spec, match, what="checksum bits must equal the leading bits of sha256(entropy)", key="checksum"))
    # the checksum is computed over the entropy bytes that are returned
    cfg = cfg_of(fn)
    for n in cfg.returns():
        v = n.ast.value
        hs = [c for _, c in rl.find_calls(fn, "sha256")]
        if isinstance(v, ast.Name) and hs and isinstance(hs[0].args[0], ast.Name) and hs[0].args[0].id == v.id:
            out.append(ctx.ok(spec, "the bytes hashed for the checksum are the bytes returned", v, mod, key="same-bytes"))
        else:
            out.append(ctx.bad(spec, "checksum is computed over `%s` but `%s` is returned" % (ast.unparse(hs[0].args[0]) if hs else None, ast.unparse(v)), v, mod, key="same-bytes"))
    return out


def _mnemonic_codec_cells(ctx):
    """bytes_to_mnemonic / mnemonic_to_bytes over a free checksum hash and a transparent word list (word i is written `w<i>`): for every
    entropy size 128 .. 256 bits and for sizes the standard does not allow, with entropies whose bytes all differ, start with zero bytes or are
    all ones.  The phrase must be the 11-bit groups, most significant first, of entropy ‖ first ENT/32 bits of H(entropy); decoding must give the
    entropy back, and must refuse a phrase whose checksum bits differ.  None when the functions are outside the evaluator's subset."""
    import hashlib
    from sa.cells import Evaluator, Obj, Raised, Undecided
    spec_e, spec_d = "mnemonic:bytes_to_mnemonic", "mnemonic:mnemonic_to_bytes"
    mod, fn = rl.get(ctx, spec_e)
    mod2, fn2 = rl.get(ctx, spec_d)
    H = lambda b: hashlib.sha256(b"free-hash:" + bytes(b)).digest()   # stand-in: any function of the bytes, so that the checksum is not a known vector

    def getitem(o, key):
        if isinstance(key, int) and not isinstance(key, bool):
            if not 0 <= key < 2048:
                raise Raised("IndexError")
            return "w%d" % key
        if isinstance(key, str) and key.startswith("w") and key[1:].isdigit() and int(key[1:]) < 2048:
            return int(key[1:])
        raise Raised("KeyError")
    wl = Obj("mnemonic", "WordList", {})
    hooks = {("WordList", "__getitem__"): getitem, ("WordList", "__contains__"): lambda o, k: isinstance(k, str) and k.startswith("w")}

    def opaque(name, args, kw):
        if name == "sha256":
            return H(args[0])
        return NotImplemented

    def reference(ent):
        bits = len(ent) * 8
        cs = bits // 32
        total = (int.from_bytes(ent, "big") << cs) | (H(ent)[0] >> (8 - cs))
        n = (bits + cs) // 11
        return ["w%d" % ((total >> (11 * (n - 1 - i))) & 0x7FF) for i in range(n)]
    out = []
    try:
        for bits in (128, 160, 192, 224, 256):
            nb = bits // 8
            for ent in (bytes(range(1, nb + 1)), bytes(2) + bytes(range(200, 200 + nb - 2)), b"\xff" * nb, bytes(nb)):
                ctx.count("cells")
                want = reference(ent)
                try:
                    r = Evaluator(ctx.repo, opaque=opaque, externals={"BIP39": wl}, method_hooks=hooks).call(spec_e, [ent, bits])
                except Raised as x:
                    return [ctx.bad(spec_e, "bytes_to_mnemonic raises %s for %d bits of entropy" % (x.name, bits), fn, mod, key="bit-order")]
                if not isinstance(r, str) or r.split() != want:
                    got = r.split() if isinstance(r, str) else r
                    why = "%d words instead of %d" % (len(got), len(want)) if isinstance(got, list) and len(got) != len(want) else "the 11-bit groups are not entropy ‖ checksum, most significant first"
                    return [ctx.bad(spec_e, "for %d bits of entropy (%s…) the phrase is wrong: %s" % (bits, ent.hex()[:8], why), fn, mod, key="formula-enc" if "words" in why else "bit-order")]
                try:
                    back = Evaluator(ctx.repo, opaque=opaque, externals={"BIP39": wl}, method_hooks=hooks).call(spec_d, [" ".join(want)])
                except Raised as x:
                    return [ctx.bad(spec_d, "mnemonic_to_bytes refuses the phrase of %d bits of entropy (%s)" % (bits, x.name), fn2, mod2, key="formula-dec")]
                if back != ent:
                    return [ctx.bad(spec_d, "mnemonic_to_bytes of the phrase of %d bits of entropy gives %s…, not the entropy" % (bits, back.hex()[:8] if isinstance(back, bytes) else back),
                                    fn2, mod2, key="formula-dec")]
                for cs_bit in range(bits // 32):
                    bad_phrase = list(want)
                    bad_phrase[-1] = "w%d" % (int(want[-1][1:]) ^ (1 << cs_bit))      # flips one checksum bit (they all lie in the last word)
                    try:
                        Evaluator(ctx.repo, opaque=opaque, externals={"BIP39": wl}, method_hooks=hooks).call(spec_d, [" ".join(bad_phrase)])
                        return [ctx.bad(spec_d, "a %d-word phrase with checksum bit %d flipped is accepted" % (len(want), cs_bit), fn2, mod2, key="checksum")]
                    except Raised:
                        pass
        for bits in (64, 96, 136, 288, 512):
            ctx.count("cells")
            try:
                Evaluator(ctx.repo, opaque=opaque, externals={"BIP39": wl}, method_hooks=hooks).call(spec_e, [bytes(bits // 8), bits])
                return [ctx.bad(spec_e, "%d bits of entropy are accepted; BIP39 allows 128, 160, 192, 224, 256" % bits, fn, mod, key="table")]
            except Raised:
                pass
        for nwords in (3, 6, 9, 11, 13, 27, 30, 48):
            phrases = [["w1"] * nwords]
            if nwords % 3 == 0:
                # a phrase of a size BIP39 does not allow whose checksum is self-consistent under the same formula (ENT = 32·w/3 bits, CS = w/3
                # bits of the hash, taken from as many leading hash bytes as needed): only the word count can refuse it
                ent = bytes((17 * i + 3) & 255 for i in range(nwords // 3 * 4))
                cs = nwords // 3
                total = (int.from_bytes(ent, "big") << cs) | (int.from_bytes(H(ent), "big") >> (256 - cs))
                phrases.append(["w%d" % ((total >> (11 * (nwords - 1 - i))) & 0x7FF) for i in range(nwords)])
            for ph in phrases:
                ctx.count("cells")
                try:
                    Evaluator(ctx.repo, opaque=opaque, externals={"BIP39": wl}, method_hooks=hooks).call(spec_d, [" ".join(ph)])
                    return [ctx.bad(spec_d, "a phrase of %d words%s is accepted; BIP39 allows 12, 15, 18, 21, 24" % (nwords, " with a self-consistent checksum" if ph is not phrases[0] else ""),
                                    fn2, mod2, key="table")]
                except Raised:
                    pass
    except Undecided:
        return None
    return [ctx.ok(spec_e, "accepted sizes %s" % (BITS,), fn, mod, key="table"), ctx.ok(spec_d, "accepted sizes %s" % (WORDS,), fn2, mod2, key="table"),
            ctx.ok(spec_d, "checksum bits = w/3 = ENT/32 and bytes = ENT/8 for w ∈ %s" % (WORDS,), fn2, mod2, key="formula-dec"),
            ctx.ok(spec_e, "checksum bits = ENT/32 and (ENT + CS)/11 words for ENT ∈ %s" % (BITS,), fn, mod, key="formula-enc"),
            ctx.ok("mnemonic:bytes_to_mnemonic↔mnemonic_to_bytes", "11-bit groups: first word holds the most significant bits on both sides (free checksum hash, 20 entropies)", fn, mod,
                   key="bit-order")]


def c14_2(ctx):
    ev = _mnemonic_codec_cells(ctx)
    if ev is not None:
        # secure_mnemonic's own size table is still read from its source
        mod_s, fn_s = rl.get(ctx, "mnemonic:secure_mnemonic")
        f_s = Folder(ctx.repo, mod_s.name)
        tabs_s = [f_s.fold(c.comparators[0]) for c in ast.walk(fn_s) if isinstance(c, ast.Compare) and isinstance(c.ops[0], (ast.In, ast.NotIn))]
        tabs_s = [tuple(t) for t in tabs_s if isinstance(t, (tuple, list)) and all(isinstance(x, int) for x in t)]
        if tuple(BITS) in tabs_s:
            ev.append(ctx.ok("mnemonic:secure_mnemonic", "accepted sizes %s" % (BITS,), fn_s, mod_s, key="table"))
        elif tabs_s:
            ev.append(ctx.bad("mnemonic:secure_mnemonic", "accepted sizes %s, BIP39: %s" % (tabs_s, BITS), fn_s, mod_s, key="table"))
        else:
            ev.append(ctx.err("mnemonic:secure_mnemonic", "size table not found", fn_s, mod_s))
        return ev
    out = []
    # tables
    for spec, want in (("mnemonic:mnemonic_to_bytes", WORDS), ("mnemonic:bytes_to_mnemonic", BITS), ("mnemonic:secure_mnemonic", BITS)):
        mod, fn = rl.get(ctx, spec)
        f = Folder(ctx.repo, mod.name)
        tabs = [f.fold(c.comparators[0]) for c in ast.walk(fn) if isinstance(c, ast.Compare) and isinstance(c.ops[0], (ast.In, ast.NotIn))]
        tabs = [tuple(t) for t in tabs if isinstance(t, (tuple, list)) and all(isinstance(x, int) for x in t)]
        if tuple(want) in tabs:
            out.append(ctx.ok(spec, "accepted sizes %s" % (want,), fn, mod, key="table"))
        else:
            out.append(ctx.bad(spec, "accepted sizes %s, BIP39: %s" % (tabs, want), fn, mod, key="table"))
    # formulas, evaluated for each table entry
    mod, fn = rl.get(ctx, "mnemonic:mnemonic_to_bytes")
    exprs = {}
    for st in ast.walk(fn):
        if isinstance(st, ast.Assign) and isinstance(st.targets[0], ast.Name) and st.targets[0].id in ("num_checksum_bits", "num_bytes"):
            exprs[st.targets[0].id] = st.value
    if set(exprs) != {"num_checksum_bits", "num_bytes"}:
        raise AnalysisError("mnemonic_to_bytes: checksum/byte length formulas not found")
    bad = []
    for w, b in zip(WORDS, BITS):
        cs = Folder(ctx.repo, mod.name, {"num_words": w}).fold(exprs["num_checksum_bits"])
        nb = Folder(ctx.repo, mod.name, {"num_words": w, "num_checksum_bits": cs}).fold(exprs["num_bytes"])
        if cs != b // 32 or nb != b // 8:
            bad.append((w, cs, nb))
    if bad:
        out.append(ctx.bad("mnemonic:mnemonic_to_bytes", "for %d words the decoder takes %s checksum bits and %s bytes; BIP39: ENT/32 bits and ENT/8 bytes with 11·w = ENT + ENT/32" % bad[0], fn, mod, key="formula-dec"))
    else:
        out.append(ctx.ok("mnemonic:mnemonic_to_bytes", "checksum bits = w/3 = ENT/32 and bytes = ENT/8 for w ∈ %s" % (WORDS,), fn, mod, key="formula-dec"))
    mod, fn = rl.get(ctx, "mnemonic:bytes_to_mnemonic")
    cs_e = None
    rng = None
    for st in ast.walk(fn):
        if isinstance(st, ast.Assign) and isinstance(st.targets[0], ast.Name) and st.targets[0].id == "num_checksum_bits":
            cs_e = st.value
        if isinstance(st, ast.For) and isinstance(st.iter, ast.Call) and call_name(st.iter) == "range":
            rng = st.iter.args[0]
    if cs_e is None or rng is None:
        raise AnalysisError("bytes_to_mnemonic: formulas not found")
    bad = []
    for w, b in zip(WORDS, BITS):
        cs = Folder(ctx.repo, mod.name, {"num_bits": b}).fold(cs_e)
        nw = Folder(ctx.repo, mod.name, {"num_bits": b, "num_checksum_bits": cs}).fold(rng)
        if cs != b // 32 or nw != w:
            bad.append((b, cs, nw))
    if bad:
        out.append(ctx.bad("mnemonic:bytes_to_mnemonic", "for %d bits the encoder appends %s checksum bits and emits %s words" % bad[0], fn, mod, key="formula-enc"))
    else:
        out.append(ctx.ok("mnemonic:bytes_to_mnemonic", "checksum bits = ENT/32 and (ENT + CS)/11 words for ENT ∈ %s" % (BITS,), fn, mod, key="formula-enc"))
    # 11-bit groups, MSB first on both sides
    enc = ast.unparse(fn)
    mod2, fn2 = rl.get(ctx, "mnemonic:mnemonic_to_bytes")
    dec = ast.unparse(fn2)
    if "all_bits <<= 11" in dec and "(1 << 11) - 1" in enc and "insert(0" in enc and "all_bits >>= 11" in enc:
        out.append(ctx.ok("mnemonic:bytes_to_mnemonic↔mnemonic_to_bytes", "11-bit groups: first word holds the most significant bits on both sides", fn, mod, key="bit-order"))
    else:
        out.append(ctx.err("mnemonic:bytes_to_mnemonic↔mnemonic_to_bytes", "11-bit grouping idiom not recognised", fn, mod))
    return out


def c14_3(ctx):
    out = []
    data = ctx.repo.data_files.get("bip39_words.txt")
    if data is None:
        raise AnalysisError("buidl/bip39_words.txt missing")
    words = data.split()
    dg = hashlib.sha256(data.encode()).hexdigest()
    ctx.count("table_entries", len(words))
    checks = [
        (len(words) == 2048, "2048 words", "word count is %d" % len(words), "count"),
        (words == sorted(words), "alphabetically sorted", "list is not sorted", "sorted"),
        (len({w[:4] for w in words}) == len(words), "four-letter prefixes unique", "four-letter prefixes collide", "prefix"),
        (dg == BIP39_SHA256, "SHA-256 equals the canonical english.txt", "SHA-256 %s differs from the canonical list %s" % (dg[:16], BIP39_SHA256[:16]), "sha256"),
    ]
    for ok, good, bad, k in checks:
        out.append(ctx.ok("buidl/bip39_words.txt", good, key=k) if ok else ctx.bad("buidl/bip39_words.txt", bad, key=k))
    # the loader binds that file with 2048 entries
    m = ctx.repo.module("mnemonic")
    c = m.constants.get("BIP39")
    f = Folder(ctx.repo, "mnemonic")
    if isinstance(c, ast.Call) and [f.fold(a) for a in c.args] == ["bip39_words.txt", 2048]:
        out.append(ctx.ok("mnemonic:BIP39", "WordList('bip39_words.txt', 2048)", c, m, key="binding"))
    else:
        out.append(ctx.bad("mnemonic:BIP39", "word list binding is `%s`" % (ast.unparse(c) if c is not None else None), c, m, key="binding"))
    # full word and four-letter prefix both find the word's index
    out.append(_prefix_lookup(ctx, words))
    return out


def _prefix_lookup(ctx, words):
    """WordList.__init__ evaluated on the repository's own word file (open() and os.path are stand-ins handing out that text): the
    lookup table built must map every one of the 2048 words, and every four-letter prefix, to the word's index -- the complete domain"""
    from sa.cells import Evaluator, FileStandIn, Namespace, Obj, Raised, Undecided
    spec = "mnemonic:WordList.__init__"
    mod, fn = rl.get(ctx, spec)
    text = ctx.repo.data_files.get("bip39_words.txt")
    ext = {"path": Namespace(join=lambda *a: "/".join(a), dirname=lambda p: p.rsplit("/", 1)[0]),
           "open": lambda name, *a, **k: FileStandIn(ctx.repo.data_files[name.rsplit("/", 1)[-1]])}
    me = Obj("mnemonic", "WordList")
    try:
        Evaluator(ctx.repo, externals=ext, max_steps=2000000).call(spec, ["bip39_words.txt", 2048], self_obj=me)
    except (Undecided, KeyError) as u:
        src = ast.unparse(fn)
        if "len(word) > 4" in src and "self.lookup[word[:4]] = i" in src and "self.lookup[word] = i" in src:
            return ctx.ok(spec, "full word and 4-letter prefix map to the same index", fn, mod, key="prefix-lookup")
        return ctx.err(spec, "word list constructor not evaluable (%s) and prefix lookup idiom not recognised" % u, fn, mod)
    except Raised as x:
        return ctx.bad(spec, "WordList('bip39_words.txt', 2048) raises %s" % x.name, fn, mod, key="prefix-lookup")
    lk, ws = me.attrs.get("lookup"), me.attrs.get("words")
    if not isinstance(lk, dict) or ws != words:
        return ctx.err(spec, "constructor does not build `lookup` / `words` as expected", fn, mod)
    ctx.count("cells", len(words))
    for i, w in enumerate(words):
        if lk.get(w) != i:
            return ctx.bad(spec, "word %r (index %d) is looked up as %r" % (w, i, lk.get(w)), fn, mod, key="prefix-lookup")
        if lk.get(w[:4]) != i:
            return ctx.bad(spec, "the four-letter prefix %r of word %r (index %d) is looked up as %r: abbreviated mnemonics decode to other entropy or fail" % (
                w[:4], w, i, lk.get(w[:4])), fn, mod, key="prefix-lookup")
    # normalize() turns every accepted spelling of a word -- the word itself, its four-letter prefix, upper case -- into the word (the text
    # that enters the seed derivation), and an abbreviated phrase decodes to the same entropy as the full one
    from sa.cells import Raised as _R
    for i, w in enumerate(words):
        for spelled in (w, w[:4], w.upper()):
            try:
                r = Evaluator(ctx.repo, externals=ext).call("mnemonic:WordList.normalize", [spelled], self_obj=me)
            except _R as x:
                r = "raises %s" % x.name
            except Undecided as u:
                return ctx.err(spec, "WordList.normalize not evaluable: %s" % u, fn, mod)
            if r != w:
                return ctx.bad("mnemonic:WordList.normalize", "normalize(%r) gives %r, not the word %r: the text that enters PBKDF2 is not the full BIP39 word, so an abbreviated (or "
                                                              "upper-case) mnemonic derives another seed" % (spelled, r, w), fn, mod, key="prefix-lookup")
    import hashlib as _hl
    Hf = lambda b: _hl.sha256(b"free-hash:" + bytes(b)).digest()
    ent = bytes(range(3, 19))
    total = (int.from_bytes(ent, "big") << 4) | (Hf(ent)[0] >> 4)
    idx = [(total >> (11 * (11 - j))) & 0x7FF for j in range(12)]
    for style, phrase in (("four-letter prefixes", [words[j][:4] for j in idx]), ("full words", [words[j] for j in idx])):
        try:
            r = Evaluator(ctx.repo, externals=dict(ext, BIP39=me), opaque=lambda name, args, kw: Hf(args[0]) if name == "sha256" else NotImplemented,
                          max_steps=400000).call("mnemonic:mnemonic_to_bytes", [" ".join(phrase)])
        except _R as x:
            r = "raises %s" % x.name
        except Undecided as u:
            return ctx.err(spec, "mnemonic_to_bytes not evaluable on the real word list: %s" % u, fn, mod)
        if r != ent:
            return ctx.bad("mnemonic:mnemonic_to_bytes", "a valid 12-word phrase written with %s %s instead of decoding to its entropy" % (
                style, r if isinstance(r, str) else "decodes to other bytes"), fn, mod, key="prefix-lookup")
    extra = sorted(k for k in lk if k not in set(words) and k not in {w[:4] for w in words})
    if extra:
        return ctx.bad(spec, "the lookup table accepts %d strings that are neither a word nor a four-letter prefix (e.g. %r)" % (len(extra), extra[0]), fn, mod, key="prefix-lookup")
    return ctx.ok(spec, "full word and 4-letter prefix map to the same index (all %d words of the list evaluated)" % len(words), fn, mod, key="prefix-lookup")


def c14_4(ctx):
    out = []
    spec = "hd:HDPrivateKey.from_mnemonic"
    mod, fn = rl.get(ctx, spec)
    cfg = cfg_of(fn)
    calls = rl.find_calls(fn, "hmac_sha512_kdf")
    if not calls:
        raise AnalysisError("from_mnemonic: hmac_sha512_kdf not called")
    n, c = calls[0]
    a0 = ast.unparse(expand(fn, n.id, c.args[0]))
    a1 = ast.unparse(expand(fn, n.id, c.args[1]))
    pw = param_names(fn)[2]
    if "BIP39.normalize" in a0 and "mnemonic.split()" in a0 and "' '.join" in a0:
        out.append(ctx.ok(spec, "PBKDF2 passphrase = space-joined normalised words", c, mod, key="kdf-pass"))
    else:
        out.append(ctx.bad(spec, "PBKDF2 passphrase is `%s`, BIP39: the (normalised) mnemonic sentence" % a0, c, mod, key="kdf-pass"))
    rewrites = [st for st in ast.walk(fn) if isinstance(st, (ast.Assign, ast.AugAssign, ast.AnnAssign))
                for t in (st.targets if isinstance(st, ast.Assign) else [st.target]) for x in ast.walk(t) if isinstance(x, ast.Name) and x.id == pw]
    if rewrites:
        st = rewrites[0]
        v = st.value
        calls_in_v = {call_name(x) for x in ast.walk(v) if isinstance(x, ast.Call)} if v is not None else set()
        if calls_in_v & {"normalize", "strip", "lstrip", "rstrip", "lower", "upper", "casefold", "replace", "decode", "encode", "title"}:
            out.append(ctx.bad(spec, "the passphrase is rewritten before it is used (`%s`): the salt is no longer b'mnemonic' + the passphrase given, so passphrases the "
                                     "rewrite changes derive a different seed" % ast.unparse(st)[:100], st, mod, key="kdf-salt"))
        else:
            out.append(ctx.err(spec, "the passphrase parameter is reassigned (`%s`); cannot tell whether the salt still uses the bytes given" % ast.unparse(st)[:80], st, mod))
    elif a1 in ("b'mnemonic' + %s" % pw,):
        out.append(ctx.ok(spec, "salt = 'mnemonic' ‖ password", c, mod, key="kdf-salt"))
    else:
        out.append(ctx.bad(spec, "PBKDF2 salt is `%s`, BIP39: b'mnemonic' + passphrase" % a1, c, mod, key="kdf-salt"))
    # validation precedes derivation
    val = [x for x, _ in rl.find_calls(fn, "mnemonic_to_bytes")]
    if val and n.id not in cfg.reach([cfg.entry], blocked={v.id for v in val}):
        out.append(ctx.ok(spec, "the mnemonic is validated (length, checksum) before the seed is derived", val[0].ast, mod, key="validate-first"))
    else:
        out.append(ctx.bad(spec, "the seed can be derived without validating the mnemonic", c, mod, key="validate-first"))
    # seed -> from_seed
    rets = [r for r in cfg.returns() if r.ast is not None]
    if rets and "cls.from_seed(" in ast.unparse(expand(fn, rets[0].id, rets[0].ast.value, depth=0)) and "hmac_sha512_kdf" in ast.unparse(expand(fn, rets[0].id, rets[0].ast.value)):
        out.append(ctx.ok(spec, "master key = from_seed(PBKDF2 output).traverse(path)", rets[0].ast, mod, key="to-master"))
    else:
        out.append(ctx.bad(spec, "the PBKDF2 output does not feed from_seed()", fn, mod, key="to-master"))
    # helper binding
    hspec = "helper:hmac_sha512_kdf"
    hm, hf = rl.get(ctx, hspec)
    f = Folder(ctx.repo, hm.name)
    pk = [c2 for c2 in ast.walk(hf) if isinstance(c2, ast.Call) and call_name(c2) == "PBKDF2"]
    rd = [c2 for c2 in ast.walk(hf) if isinstance(c2, ast.Call) and call_name(c2) == "read"]
    if pk and rd:
        kw = {k.arg: k.value for k in pk[0].keywords}
        it = f.fold(kw.get("iterations")) if "iterations" in kw else None
        dg = ast.unparse(kw.get("digestmodule")) if "digestmodule" in kw else None
        mm = ast.unparse(kw.get("macmodule")) if "macmodule" in kw else None
        nbytes = f.fold(rd[0].args[0])
        args = [ast.unparse(a) for a in pk[0].args]
        ps = param_names(hf)
        probs = []
        if it != 2048:
            probs.append("iterations=%s (BIP39: 2048)" % it)
        if dg != "hashlib.sha512":
            probs.append("digest=%s (BIP39: SHA-512)" % dg)
        if mm != "hmac":
            probs.append("mac=%s (BIP39: HMAC)" % mm)
        if nbytes != 64:
            probs.append("output length %s (BIP39: 64 bytes)" % nbytes)
        if args != ps[:2]:
            probs.append("PBKDF2(%s) does not receive (msg, salt)" % ", ".join(args))
        out.append(ctx.bad(hspec, "; ".join(probs), pk[0], hm, key="pbkdf2-params") if probs else
                   ctx.ok(hspec, "PBKDF2(msg, salt, 2048 rounds, HMAC, SHA-512).read(64)", pk[0], hm, key="pbkdf2-params"))
    else:
        raise AnalysisError("hmac_sha512_kdf: PBKDF2(...).read(n) not found")
    return out


def _pbkdf2_cells(ctx):
    """PBKDF2.read over a free pseudo-random function (a stand-in of 20 output bytes, keyed like HMAC): for iteration counts 1, 2, 3, 7 and key
    lengths around the block size (1, 19, 20, 21, 40, 45, 64 bytes), in one read and split over two reads, the stream must be
    T_1 ‖ T_2 ‖ … with T_i = U_1 xor … xor U_c, U_1 = PRF(P, S ‖ INT32BE(i)), U_j = PRF(P, U_{j-1}) (RFC 2898).  None when the class is outside
    the evaluator's subset."""
    import hashlib
    import struct
    from sa.cells import Evaluator, Obj, Raised, Undecided
    spec = "pbkdf2:PBKDF2.read"
    mod, fn = ctx.repo.func(spec)
    ctx.note_fn(mod, fn)
    Fa = lambda key, msg: hashlib.sha1(b"prf" + bytes(key) + b"|" + bytes(msg)).digest()
    # a second stand-in whose outputs begin and end with a zero byte: blocks with leading / trailing zeros are ordinary values (1 in 256 each)
    Fz = lambda key, msg: b"\x00" + hashlib.sha1(b"prz" + bytes(key) + b"|" + bytes(msg)).digest()[1:19] + b"\x00"
    res = None
    for F in (Fa, Fz):
        res = _pbkdf2_cells_with(ctx, spec, mod, fn, F)
        if res is None or any(r.status != "ok" for r in res):
            return res
    return res


def _pbkdf2_cells_with(ctx, spec, mod, fn, F):
    import struct
    from sa.cells import Evaluator, Obj, Raised, Undecided

    def ref(pw, salt, c, n):
        out_, i = b"", 0
        while len(out_) < n:
            i += 1
            U = F(pw, salt + struct.pack("!L", i))
            T = U
            for _ in range(c - 1):
                U = F(pw, U)
                T = bytes(x ^ y for x, y in zip(T, U))
            out_ += T
        return out_[:n]
    ext = {"pack": struct.pack, "xrange": range, "b": lambda s_: s_.encode("latin-1") if isinstance(s_, str) else s_}
    try:
        for c in (1, 2, 3, 7):
            for n in (1, 19, 20, 21, 40, 45, 64):
                for split in (None, n // 3):
                    ctx.count("cells")
                    me = Obj("pbkdf2", "PBKDF2", {"__buf": b"", "__blockNum": 0, "__passphrase": b"pass phrase", "__salt": b"mnemonic-salt", "__iterations": c,
                                                  "__prf": ("pyfunc", F), "closed": False})
                    try:
                        if split is None:
                            got = Evaluator(ctx.repo, externals=ext).call(spec, [n], self_obj=me)
                        else:
                            got = Evaluator(ctx.repo, externals=ext).call(spec, [split], self_obj=me) + Evaluator(ctx.repo, externals=ext).call(spec, [n - split], self_obj=me)
                    except Raised as x:
                        return [ctx.bad("pbkdf2:PBKDF2.__f", "deriving %d bytes with %d iteration(s) raises %s" % (n, c, x.name), fn, mod, key="chain")]
                    if got != ref(b"pass phrase", b"mnemonic-salt", c, n):
                        w = ref(b"pass phrase", b"mnemonic-salt", c, n)
                        first = next((i for i in range(min(len(got), len(w))) if got[i] != w[i]), min(len(got), len(w))) if isinstance(got, bytes) else 0
                        return [ctx.bad("pbkdf2:PBKDF2.__f", "with %d iteration(s), %d derived bytes%s differ from RFC 2898 from byte %d on (T_i = U_1 xor … xor U_c, U_1 = PRF(P, S ‖ "
                                                             "INT32BE(i)), U_j = PRF(P, U_{j-1}))" % (c, n, " read in two parts" if split is not None else "", first), fn, mod,
                                        key="prf-count" if first == 0 and c > 1 else "chain")]
    except Undecided:
        return None
    return [ctx.ok("pbkdf2:PBKDF2.__f", "PRF applications per block = iterations (free PRF; iterations 1, 2, 3, 7)", fn, mod, key="prf-count"),
            ctx.ok("pbkdf2:PBKDF2.__f", "U1 = PRF(P, S ‖ INT32BE(i)); result = U1 xor U2 xor …; blocks concatenated and cut to the requested length, also across reads", fn, mod, key="chain")]


def c14_5(ctx):
    """PRF applications per block = iterations"""
    ev = _pbkdf2_cells(ctx)
    if ev is not None:
        return ev
    mod = ctx.repo.module("pbkdf2")
    fn = None
    for qn, f_ in mod.functions.items():
        if qn.endswith(".__f") or qn == "PBKDF2._PBKDF2__f":
            fn = f_
    if fn is None:
        raise AnalysisError("pbkdf2: block function __f not found")
    ctx.note_fn(mod, fn)
    out = []
    # recognised wrong form (decided before the shape of the loop is looked at): a block converted back from an integer
    # with a width computed from the value loses its leading zero bytes
    for f2 in [fn] + [f_ for qn, f_ in mod.functions.items() if qn in ("binxor",)]:
        for c in ast.walk(f2):
            if isinstance(c, ast.Call) and call_name(c) in ("to_bytes", "int_to_big_endian") and c.args:
                w = c.args[0] if call_name(c) == "to_bytes" else (c.args[1] if len(c.args) > 1 else None)
                if w is not None and any(isinstance(x, ast.Attribute) and x.attr == "bit_length" for x in ast.walk(w)):
                    return [ctx.bad("pbkdf2:PBKDF2.%s" % f2.name, "a derived block is converted back to bytes with the width `%s` computed from its value: a block whose first byte is 00 "
                                    "(1 in 256) comes back short and every later byte of the seed is shifted" % ast.unparse(w), c, mod, key="chain")]
    loops = [st for st in ast.walk(fn) if isinstance(st, ast.For)]
    first = [st for st in fn.body if isinstance(st, ast.Assign) and isinstance(st.value, ast.Call) and "prf" in ast.unparse(st.value.func)]
    if len(loops) != 1 or not first:
        raise AnalysisError("pbkdf2.__f: expected one initial PRF call and one loop")
    it = loops[0].iter
    if not (isinstance(it, ast.Call) and call_name(it) in ("range", "xrange")):
        raise AnalysisError("pbkdf2.__f: loop is not over a range")
    bad = []
    for c in (1, 2, 3, 2048):
        class _F(ast.NodeTransformer):
            def visit_Attribute(self, node):
                if node.attr.endswith("iterations"):
                    return ast.Constant(c)
                return node
        import copy
        args = [_F().visit(copy.deepcopy(a)) for a in it.args]
        vals = [Folder(ctx.repo, mod.name).fold(ast.fix_missing_locations(a)) for a in args]
        if any(v is Unknown for v in vals):
            raise AnalysisError("pbkdf2.__f: range bounds not foldable")
        n_loop = len(range(*vals))
        prf_in_loop = len([x for x in ast.walk(loops[0]) if isinstance(x, ast.Call) and "prf" in ast.unparse(x.func)])
        total = 1 + n_loop * prf_in_loop
        if total != c:
            bad.append((c, total))
    if bad:
        out.append(ctx.bad("pbkdf2:PBKDF2.__f", "with iterations=%d the PRF is applied %d times per block" % bad[0], loops[0], mod, key="prf-count"))
    else:
        out.append(ctx.ok("pbkdf2:PBKDF2.__f", "PRF applications per block = iterations (checked by folding the loop bounds for 1, 2, 3, 2048)", loops[0], mod, key="prf-count"))
    # chaining: U_j = PRF(P, U_{j-1}), result ^= U_j ; U_1 = PRF(P, S ‖ INT_32_BE(i))
    src = ast.unparse(fn)
    if "pack('!L', i)" in src and "binxor(result, U)" in src:
        out.append(ctx.ok("pbkdf2:PBKDF2.__f", "U1 = PRF(P, S ‖ INT32BE(i)); result = U1 xor U2 xor …", fn, mod, key="chain"))
    else:
        out.append(ctx.err("pbkdf2:PBKDF2.__f", "block chaining idiom not recognised", fn, mod))
    return out


def c14_6(ctx):
    spec = "mnemonic:secure_mnemonic"
    mod, fn = rl.get(ctx, spec)

    def match(node, ex, atoms):
        t = node.ast
        if isinstance(t, ast.Compare) and len(t.ops) == 1 and isinstance(t.ops[0], (ast.Eq, ast.NotEq)):
            lo, ro = origins(fn, node.id, t.left), origins(fn, node.id, t.comparators[0])
            for a, b in ((lo, ro), (ro, lo)):
                if "call:mnemonic_to_bytes" in a and "call:bytes_to_mnemonic" in a and "call:mnemonic_to_bytes" not in b:
                    return BAD_TRUE if isinstance(t.ops[0], ast.NotEq) else BAD_FALSE
        return None
    return [rl.guard(ctx, spec, match, what="generated mnemonic must decode back to the generated entropy", key="self-check")]


def c14_7(ctx):
    """PBKDF2._setup keeps the key it is given: the bytes handed to the PRF on every round are the passphrase itself.  The only
    rewrites that leave HMAC's output unchanged are the UTF-8 encoding of a str and HMAC's own rule (a key *strictly longer*
    than the block size is replaced by its hash)"""
    spec = "pbkdf2:PBKDF2._setup"
    mod, fn = rl.get(ctx, spec)
    pw = param_names(fn)[1]
    parents = {}
    for n in ast.walk(fn):
        for ch in ast.iter_child_nodes(n):
            parents[ch] = n
    out = []
    stores = [st for st in ast.walk(fn) if isinstance(st, ast.Assign) and any(isinstance(t, ast.Name) and t.id == pw for t in st.targets)]
    kept = [st for st in ast.walk(fn) if isinstance(st, ast.Assign) and any(isinstance(t, ast.Attribute) and "passphrase" in t.attr for t in st.targets)]
    if not kept:
        raise AnalysisError("PBKDF2._setup: the passphrase is not stored")
    for st in kept:
        if not (isinstance(st.value, ast.Name) and st.value.id == pw):
            out.append(ctx.err(spec, "stored key `%s` is not the passphrase parameter" % ast.unparse(st.value), st, mod))
    for st in stores:
        v = st.value
        names = {call_name(x) for x in ast.walk(v) if isinstance(x, ast.Call)}
        if isinstance(v, ast.Call) and call_name(v) == "encode" and isinstance(v.func, ast.Attribute) and isinstance(v.func.value, ast.Name) and v.func.value.id == pw:
            out.append(ctx.ok(spec, "a str passphrase is encoded as UTF-8 (`%s`)" % ast.unparse(st), st, mod, key="key-kept:encode"))
            continue
        if names & {"digest", "hexdigest"} or any(isinstance(x, ast.Call) and isinstance(x.func, ast.Name) and x.func.id in ("digest", "sha512", "sha256", "sha1") for x in ast.walk(v)):
            # key pre-hashing: the enclosing test must be `len(passphrase) > block size`
            p = parents.get(st)
            while p is not None and not isinstance(p, ast.If):
                p = parents.get(p)
            rels = []
            if p is not None:
                for c in ast.walk(p.test):
                    r = rl.rel(c, lambda e: ast.unparse(e) == "len(%s)" % pw, lambda e: "block_size" in ast.unparse(e) or isinstance(e, ast.Constant))
                    if r:
                        rels.append((r, c))
            if rels and all(r == ">" for r, _ in rels):
                out.append(ctx.ok(spec, "a key longer than the block size is replaced by its hash, as HMAC does itself (`%s`)" % ast.unparse(rels[0][1]), st, mod, key="key-kept:prehash"))
            elif rels and any(r in (">=", "==") for r, _ in rels):
                out.append(ctx.bad(spec, "the key is replaced by its hash when `%s`: HMAC hashes only keys strictly longer than the block, so a passphrase (mnemonic sentence) of "
                                         "exactly block-size bytes derives a different seed than PBKDF2-HMAC-SHA512" % ast.unparse(rels[0][1]), st, mod, key="key-kept:prehash"))
            else:
                out.append(ctx.err(spec, "the key is replaced by a hash (`%s`) under a condition that is not recognised" % ast.unparse(st)[:80], st, mod))
            continue
        out.append(ctx.err(spec, "the passphrase is rewritten (`%s`) before it is stored" % ast.unparse(st)[:80], st, mod))
    if not any(o for o in out):
        pass
    out.append(ctx.ok(spec, "the key stored for the PRF is the passphrase parameter (%d rewrite(s) inspected)" % len(stores), kept[0], mod, key="key-kept"))
    return out


def c14_8(ctx):
    """CTOR-FORWARD: generate / from_mnemonic / from_seed hand the passphrase, network and version bytes on to the constructor they end in"""
    from sa.forward import forward_obligation
    return forward_obligation(ctx, ["hd"], "a key generated with a passphrase is the empty-passphrase key: it cannot be restored from mnemonic + passphrase")


def c14_9(ctx):
    """secure_mnemonic returns a mnemonic for every non-negative extra_entropy: entropy wider than num_bits is masked down *whenever*
    it is wider (bit length num_bits+1 and num_bits+2 included), otherwise the fixed-width conversion overflows.  Cell evaluation
    per num_bits over the bit lengths the code can distinguish; clock and RNG are stand-ins returning 0, the word codec is a stand-in
    that round-trips"""
    from sa.cells import Evaluator, Obj, Raised, Undecided
    spec = "mnemonic:secure_mnemonic"
    mod, fn = rl.get(ctx, spec)

    def opaque(name, args, kw):
        if name == "bytes_to_mnemonic":
            return ("mnemonic", args[0])
        if name == "mnemonic_to_bytes":
            return args[0][1] if isinstance(args[0], tuple) else None
        return NotImplemented
    cells = 0
    for nb in (128, 160, 192, 224, 256):
        for extra in (0, 1, (1 << nb) - 1, 1 << nb, (1 << (nb + 1)) + 5, 1 << (nb + 2), (1 << (nb + 3)) - 1, 1 << 512):
            cells += 1
            try:
                r = Evaluator(ctx.repo, opaque=opaque, externals={"time": lambda: 0.0, "randbits": lambda n: 0}).call(spec, [], kwargs={"num_bits": nb, "extra_entropy": extra})
            except Undecided as u:
                return [ctx.err(spec, "not evaluable for num_bits=%d, extra_entropy of %d bits: %s" % (nb, extra.bit_length(), u), fn, mod)]
            except Raised as x:
                return [ctx.bad(spec, "num_bits=%d with an extra_entropy of %d bits raises %s instead of returning a mnemonic: entropy %d bit(s) wider than num_bits is not "
                                      "masked down before the %d-byte conversion" % (nb, extra.bit_length(), x.name, extra.bit_length() - nb, nb // 8), fn, mod, key="entropy-mask")]
            if not (isinstance(r, tuple) and r and r[0] == "mnemonic" and isinstance(r[1], bytes) and len(r[1]) == nb // 8):
                return [ctx.err(spec, "unexpected result %r" % (r,), fn, mod)]
    ctx.count("cells", cells)
    return [ctx.ok(spec, "a mnemonic of num_bits is produced for every extra_entropy bit length evaluated (%d cells)" % cells, fn, mod, key="entropy-mask")]


def c14_10(ctx):
    """MEMO: no method of the modules this property is anchored in answers from a value remembered from an earlier argument or an
    earlier state of the object (confirmed caches of the reference tree: sa/memo.py CONFIRMED_CACHES)"""
    from sa.memo import cache_obligation
    return cache_obligation(ctx, ["mnemonic", "hd", "helper", "pbkdf2"], "a seed or mnemonic computed for one passphrase / entropy would be returned for another")


def c14_11(ctx):
    """SET-ORDER: no ordered result (list, serialisation, yielded sequence) of the modules this property is anchored in takes its
    order from the iteration order of a set"""
    from sa.setorder import setorder_obligation
    return setorder_obligation(ctx, ["mnemonic", "hd", "helper", "pbkdf2"], "the same inputs give different output from run to run")


def c14_12(ctx):
    """SHARED necessary conditions over the modules this property is anchored in: FALSY-DEFAULT, MUTABLE-DEFAULT, IDENTITY, ALIAS,
    CTOR-FORWARD (sa/shared.py)"""
    from sa.shared import shared_obligations
    return shared_obligations(ctx, ["mnemonic", "hd", "helper", "pbkdf2"], "the result would depend on something other than the arguments and the object's current state")


OBLIGATIONS = [
    ("C14.12", "SHARED", c14_12),
    ("C14.11", "SET-ORDER", c14_11),
    ("C14.10", "MEMO", c14_10),
    ("C14.9", "CELLS entropy mask", c14_9),
    ("C14.8", "CTOR-FORWARD", c14_8),
    ("C14.1", "GUARD", rl.deferring(c14_1, lambda ctx: _mnemonic_codec_cells(ctx) or [None], "mnemonic:mnemonic_to_bytes", "decided by the mnemonic codec cells (C14.2: every allowed size, phrases "
                                    "with each checksum bit flipped and with other word counts are refused, the entropy comes back); the test is not in the form this rule reads", 3)),
    ("C14.2", "TABLE derived", c14_2),
    ("C14.3", "DATA", c14_3),
    ("C14.4", "CALL binding", c14_4),
    ("C14.5", "LOOP count", c14_5),
    ("C14.7", "DATAFLOW key kept", c14_7),
    ("C14.6", "GUARD", c14_6),
]
FLOORS = {"C14.1": 3, "C14.2": 6, "C14.3": 6, "C14.4": 5, "C14.5": 2}
