"""C15 — SLIP39 (structural clauses)."""
import ast
import hashlib

from sa import rl
from sa.cfg import cfg_of
from sa.dataflow import call_name, dotted, expand, origins
from sa.fold import Folder, Unknown
from sa.guard import BAD_FALSE, BAD_TRUE, Guard, check_guard, find_guards
from sa.interval import ISet
from sa.loader import AnalysisError, param_names

EXPLANATION = (
    "Static analysis of buidl/shamir.py and the SLIP39 word list: cut-sets for the RS1024 checksum, padding and length guards of Share.parse, the "
    "digest comparison of recover_secret, and the group / member threshold guards on every path to decrypt (the threshold-1 edge is the only "
    "exemption); the seven cross-share consistency tests of ShareSet.__init__ each raise; Feistel round-index tuples of encrypt and decrypt are "
    "reverses of each other with 4 rounds, 2500<<e iterations and salt 'shamir'‖id; digest share at x=254 and secret at x=255 on both the split and "
    "the recover side; RS1024 generator, GF(256) reduction polynomial and customisation string equal SLIP-0039; accept-sets 1 ≤ k ≤ n ≤ 16 and the "
    "share header field ranges; header bit widths agree between Share.mnemonic and Share.parse. Not decided: interpolation, GF(256) tables, checksum distance."
)

RS1024_GEN = [0xE0E040, 0x1C1C080, 0x3838100, 0x7070200, 0xE0E0009, 0x1C0C2412, 0x38086C24, 0x3090FC48, 0x21B1F890, 0x3F3F120]  # SLIP-0039
SLIP39_SHA256 = "bcc4555340332d169718aed8bf31dd9d5248cb7da6e5d355140ef4f1e601eec3"  # satoshilabs/slips slip-0039/wordlist.txt


def c15_1(ctx):
    spec = "shamir:Share.parse"
    mod, fn = rl.get(ctx, spec)

    def m_cs(node, ex, atoms):
        t = node.ast
        if isinstance(t, ast.Call) and call_name(t) == "rs1024_verify_checksum":
            return BAD_FALSE
        return None

    def m_pad(node, ex, atoms):
        t = node.ast
        if isinstance(t, ast.Compare) and len(t.ops) == 1 and isinstance(t.left, ast.BinOp) and isinstance(t.left.op, ast.RShift) and isinstance(t.comparators[0], ast.Constant) and t.comparators[0].value == 0:
            return BAD_TRUE if isinstance(t.ops[0], ast.NotEq) else (BAD_FALSE if isinstance(t.ops[0], ast.Eq) else None)
        return None
    out = [
        rl.guard(ctx, spec, m_cs, what="RS1024 checksum must verify", key="checksum"),
        rl.guard(ctx, spec, m_pad, what="padding bits above the share length must be zero", key="padding"),
    ]
    out += rl.accept_set(ctx, spec, ["share_bit_length"], ISet.range(128, None), targets="returns", prefer=(112,), what="share bit length")
    # customisation string
    cs = [c for _, c in rl.find_calls(fn, "rs1024_verify_checksum")]
    f = Folder(ctx.repo, mod.name)
    if cs and f.fold(cs[0].args[0]) == b"shamir":
        out.append(ctx.ok(spec, "checksum customisation string 'shamir'", cs[0], mod, key="cs-parse"))
    else:
        out.append(ctx.bad(spec, "checksum customisation string is not b'shamir'", fn, mod, key="cs-parse"))
    return out


def c15_2(ctx):
    spec = "shamir:ShareSet.recover_secret"
    mod, fn = rl.get(ctx, spec)

    def match(node, ex, atoms):
        t = node.ast
        pair = None
        if isinstance(t, ast.Compare) and len(t.ops) == 1 and isinstance(t.ops[0], (ast.Eq, ast.NotEq)):
            pair = (t.left, t.comparators[0], BAD_TRUE if isinstance(t.ops[0], ast.NotEq) else BAD_FALSE)
        elif isinstance(t, ast.Call) and call_name(t) == "compare_digest" and len(t.args) == 2:
            pair = (t.args[0], t.args[1], BAD_FALSE)  # hmac.compare_digest(a, b): equality of two byte strings
        if pair:
            lo, ro = origins(fn, node.id, pair[0]), origins(fn, node.id, pair[1])
            for a, b in ((lo, ro), (ro, lo)):
                if "call:digest" in a and "slice::4" in b and "call:digest" not in b:
                    return pair[2]
        return None
    return [rl.guard(ctx, spec, match, what="digest share must authenticate the recovered secret", key="digest")]


def _threshold_guard(ctx, spec, var_pred, count_pred, targets, what, key):
    mod, fn = rl.get(ctx, spec)
    cfg = cfg_of(fn)
    gs = []
    exempt = []
    f = Folder(ctx.repo, mod.name)
    for n in cfg.tests():
        t = n.ast
        r = rl.rel(t, lambda e: var_pred(ast.unparse(e)), lambda e: count_pred(ast.unparse(e)))
        if r == ">":
            gs.append(Guard(n, BAD_TRUE))
        elif r == "<=":
            gs.append(Guard(n, BAD_FALSE))
        elif rl.rel(t, lambda e: var_pred(ast.unparse(e)), lambda e: f.fold(e) == 1) == "==":
            exempt.append((n.id, True))
    tg = [n.id for n in targets(fn)]
    if not tg:
        raise AnalysisError("%s: protected statement not found" % spec)
    ok, msg, wit = check_guard(mod, fn, gs, tg, exempt_edges=exempt)
    if ok:
        return ctx.ok(spec, "%s: %s" % (what, msg), fn, mod, key=key)
    return ctx.bad(spec, "%s is not enforced: %s; path: %s" % (what, msg, wit), fn, mod, key=key, detail={"path": wit})


def _recover_cells(ctx):
    """ShareSet.recover evaluated on every combination of (group count, group threshold, per group: member threshold x shares present):
    the function looks at the shares only through these numbers, so one share set per combination decides all inputs.  Interpolation and
    decryption are stand-ins that record their argument (free terms)."""
    import itertools
    from sa.cells import Evaluator, Obj, Raised, Undecided
    spec = "shamir:ShareSet.recover"
    mod, fn = rl.get(ctx, spec)

    def share(g, m, mt):
        return Obj("shamir", "Share", {"group_index": g, "member_index": m, "member_threshold": mt, "bytes": bytes([g, m]) * 8, "value": bytes([g, m]) * 8})
    hooks = {("ShareSet", "recover_secret"): lambda b, data: ("RS", tuple(data)), ("ShareSet", "decrypt"): lambda b, secret, *a, **k: ("D", secret),
             ("ShareSet", "interpolate"): lambda b, x, data: ("IP", x, tuple(data))}
    cells = 0
    for G in (1, 2, 3):
        opts = list(itertools.product((1, 2, 3), (0, 1, 2, 3))) if G < 3 else list(itertools.product((1, 2), (0, 1, 2)))
        for gt in range(1, G + 1):
            for combo in itertools.product(opts, repeat=G):
                if all(c == 0 for _, c in combo):
                    continue
                cells += 1
                shares = [share(g, m, mt) for g, (mt, c) in enumerate(combo) for m in range(c)]
                me = Obj("shamir", "ShareSet", {"shares": shares, "group_count": G, "group_threshold": gt})
                try:
                    r = Evaluator(ctx.repo, method_hooks=hooks).call(spec, [], self_obj=me)
                except Raised:
                    r = None
                present = [(g, mt, c) for g, (mt, c) in enumerate(combo) if c]
                enough = all(c >= mt for _, mt, c in present) and len(present) >= gt
                desc = "group threshold %d, groups (member threshold, shares) = %s" % (gt, list(combo))
                if r is not None and not enough:
                    short = [g for g, mt, c in present if c < mt]
                    why = "group %d has fewer shares than its member threshold" % short[0] if short else "%d group(s) present, fewer than the group threshold" % len(present)
                    return [ctx.bad(spec, "%s: a secret is returned although %s" % (desc, why), fn, mod, key="member-threshold" if short else "group-threshold")]
                if r is None and enough:
                    return [ctx.bad(spec, "%s: recovery is refused although every threshold is met" % desc, fn, mod, key="group-threshold")]
                if r is not None:
                    secs = [(g, bytes([g, 0]) * 8 if mt == 1 else ("RS", tuple((m, bytes([g, m]) * 8) for m in range(c)))) for g, mt, c in present]
                    want = ("D", secs[0][1]) if gt == 1 else ("D", ("RS", tuple(secs)))
                    if r != want:
                        if "'IP'" in repr(r):
                            return [ctx.bad(spec, "%s: a secret is interpolated directly, without recover_secret(): the digest share (x = 254) is not checked, so shares of "
                                                  "different splits combine into a wrong secret instead of being refused" % desc, fn, mod, key="group-threshold")]
                        return [ctx.bad(spec, "%s: the value decrypted is not the interpolation of all group secrets present (each the interpolation of all its member shares)" % desc,
                                        fn, mod, key="group-threshold")]
    # members of one group that disagree on the member threshold
    for mts in ((1, 2), (2, 3), (2, 1)):
        cells += 1
        shares = [share(0, m, mt) for m, mt in enumerate(mts)] + [share(0, 2, mts[0])]
        me = Obj("shamir", "ShareSet", {"shares": shares, "group_count": 1, "group_threshold": 1})
        try:
            Evaluator(ctx.repo, method_hooks=hooks).call(spec, [], self_obj=me)
            return [ctx.bad(spec, "shares of one group with member thresholds %s are combined; differing member thresholds within a group are not rejected" % (mts,), fn, mod,
                            key="member-consistent")]
        except Raised:
            pass
    ctx.count("cells", cells)
    return [ctx.ok(spec, "fewer group shares than the group threshold never reach interpolation + decryption (%d share-set cells evaluated)" % cells, fn, mod, key="group-threshold"),
            ctx.ok(spec, "fewer member shares than the member threshold never reach interpolation", fn, mod, key="member-threshold"),
            ctx.ok(spec, "member thresholds within a group must agree", fn, mod, key="member-consistent")]


def c15_3(ctx):
    from sa.cells import Undecided
    try:
        return _recover_cells(ctx)
    except Undecided:
        pass
    out = []
    out.append(_threshold_guard(
        ctx, "shamir:ShareSet.recover", lambda s: s == "self.group_threshold", lambda s: s == "len(share_data)",
        lambda fn: [n for n in cfg_of(fn).returns() if n.ast is not None and n.ast.value is not None and "decrypt" in ast.unparse(n.ast.value) and "recover_secret" in ast.unparse(expand(fn, n.id, n.ast.value))],
        "fewer group shares than the group threshold never reach interpolation + decryption", "group-threshold"))
    out.append(_threshold_guard(
        ctx, "shamir:ShareSet.recover", lambda s: s == "member_threshold", lambda s: s == "len(group)",
        lambda fn: [n for n in cfg_of(fn).stmts(("stmt",)) if "recover_secret(member_data)" in ast.unparse(n.ast)],
        "fewer member shares than the member threshold never reach interpolation", "member-threshold"))
    # all members of a group agree on the member threshold
    mod, fn = rl.get(ctx, "shamir:ShareSet.recover")
    cfg = cfg_of(fn)
    t = [n for n in cfg.tests() if "member_thresholds" in ast.unparse(n.ast) and isinstance(n.ast, ast.Compare)]
    if t and all(cfg.nodes[s].kind == "raise" for s, l in cfg.succ[t[0].id] if l is isinstance(t[0].ast.ops[0], ast.NotEq)):
        out.append(ctx.ok("shamir:ShareSet.recover", "member thresholds within a group must agree", t[0].ast, mod, key="member-consistent"))
    else:
        out.append(ctx.bad("shamir:ShareSet.recover", "differing member thresholds within a group are not rejected", fn, mod, key="member-consistent"))
    return out


def c15_4(ctx):
    spec = "shamir:ShareSet.__init__"
    mod, fn = rl.get(ctx, spec)
    cfg = cfg_of(fn)
    out = []
    # set comprehensions over share attributes
    sets = {}
    for st in ast.walk(fn):
        if isinstance(st, ast.Assign) and isinstance(st.targets[0], ast.Name) and isinstance(st.value, ast.SetComp):
            attrs = tuple(sorted(a.attr for a in ast.walk(st.value.elt) if isinstance(a, ast.Attribute)))
            sets[st.targets[0].id] = attrs
    want = {("id",): "identifier", ("exponent",): "iteration exponent", ("group_threshold",): "group threshold", ("group_count",): "group count",
            ("share_bit_length",): "share length", ("group_index", "member_index"): "share coordinates"}
    for attrs, label in want.items():
        names = [k for k, v in sets.items() if v == attrs]
        if not names:
            out.append(ctx.bad(spec, "shares are not compared on their %s" % label, fn, mod, key="consistency:" + "+".join(attrs)))
            continue
        nm = names[0]
        def is_len_nm(e, nm=nm):
            return isinstance(e, ast.Call) and call_name(e) == "len" and e.args and dotted(e.args[0]) == nm
        tests = [n for n in cfg.tests() if rl.rel(n.ast, is_len_nm, lambda e: True) == "!="]
        if tests and all(cfg.nodes[s].kind == "raise" for s, l in cfg.succ[tests[0].id] if l is True):
            t0 = tests[0].ast
            rhs = ast.unparse(t0.comparators[0] if is_len_nm(t0.left) else t0.left)
            good_rhs = rhs == "1" if attrs != ("group_index", "member_index") else rhs == "len(shares)"
            if good_rhs:
                out.append(ctx.ok(spec, "shares with differing %s are rejected" % label if attrs != ("group_index", "member_index") else "duplicate share coordinates are rejected", tests[0].ast, mod, key="consistency:" + "+".join(attrs)))
            else:
                out.append(ctx.bad(spec, "%s test compares with `%s`" % (label, rhs), tests[0].ast, mod, key="consistency:" + "+".join(attrs)))
        else:
            out.append(ctx.bad(spec, "the %s set is built but a mismatch does not raise" % label, fn, mod, key="consistency:" + "+".join(attrs)))
    # k <= n
    kn = [n for n in cfg.tests() if isinstance(n.ast, ast.Compare) and isinstance(n.ast.ops[0], ast.Gt) and "pop()" in ast.unparse(n.ast)]
    if kn and all(cfg.nodes[s].kind == "raise" for s, l in cfg.succ[kn[0].id] if l is True):
        out.append(ctx.ok(spec, "threshold greater than the share count is rejected", kn[0].ast, mod, key="consistency:k<=n"))
    else:
        out.append(ctx.bad(spec, "k > n is not rejected", fn, mod, key="consistency:k<=n"))
    return out


def _crypt_terms(ctx):
    """ShareSet._crypt over a free round function: pbkdf2_hmac is a stand-in that turns its five arguments into dklen bytes (an injective
    enough function of all of them), and the result is compared with the SLIP39 Feistel network written with the same stand-in:
    L, R <- R, L xor F(HMAC-SHA256, i ‖ passphrase, "shamir" ‖ id(2, big endian) ‖ R, 2500 << e, len/2) for each round index i; output R ‖ L.
    Returns None when _crypt is outside the evaluator's subset."""
    import hashlib
    from sa.cells import ClassRef, Evaluator, Raised, Undecided
    spec = "shamir:ShareSet._crypt"
    mod, fn = rl.get(ctx, spec)

    def F(prf, password, salt, iterations, dklen=None, *a, **k):
        seed = repr((prf, bytes(password), bytes(salt), iterations, dklen)).encode()
        out_, c = b"", 0
        while len(out_) < (dklen or 32):
            out_ += hashlib.sha256(seed + bytes([c])).digest()
            c += 1
        return out_[:dklen or 32]

    def reference(payload, id_, e, pw, indices):
        half = len(payload) // 2
        L, R = payload[:half], payload[half:]
        salt = b"shamir" + id_.to_bytes(2, "big")
        for i in indices:
            f = F("sha256", i + pw, salt + R, 2500 << e, half)
            L, R = R, bytes(x ^ y for x, y in zip(L, f))
        return R + L
    fwd = (b"\x00", b"\x01", b"\x02", b"\x03")
    cells = 0
    for ln in (16, 32):
        payload = bytes(range(ln))
        for id_ in (0, 0x1234, 0x7FFF):
            for e in (0, 1, 3):
                for pw in (b"", b"TREZOR"):
                    for indices in (fwd, fwd[::-1]):
                        cells += 1
                        try:
                            r = Evaluator(ctx.repo, externals={"pbkdf2_hmac": F}).call(spec, [payload, id_, e, pw, indices], self_obj=ClassRef("shamir", "ShareSet"))
                        except Undecided:
                            return None
                        except Raised as x:
                            return [ctx.bad(spec, "_crypt raises %s for a %d-byte payload" % (x.name, ln), fn, mod, key="round-function")]
                        if r != reference(payload, id_, e, pw, indices):
                            # which part differs: try the reference with single deviations to name it
                            return [ctx.bad(spec, "the result for a %d-byte payload, id %#x, exponent %d, passphrase %r differs from the SLIP39 Feistel network "
                                                  "L,R <- R, L xor PBKDF2-HMAC-SHA256(i ‖ passphrase, 'shamir' ‖ id ‖ R, 2500 << e, len/2); output R ‖ L" % (ln, id_, e, pw), fn, mod,
                                            key="round-function")]
    for bad_len in (15, 17):
        try:
            Evaluator(ctx.repo, externals={"pbkdf2_hmac": F}).call(spec, [bytes(bad_len), 1, 0, b"", fwd], self_obj=ClassRef("shamir", "ShareSet"))
            return [ctx.bad(spec, "a payload of %d bytes (odd) is processed" % bad_len, fn, mod, key="feistel")]
        except Raised:
            pass
        except Undecided:
            return None
    ctx.count("cells", cells)
    return [ctx.ok(spec, "F = PBKDF2-HMAC-SHA256(i‖passphrase, salt‖R, 2500<<e, len/2) (free round function, %d cells)" % cells, fn, mod, key="round-function"),
            ctx.ok(spec, "L,R ← R, L xor F; output R‖L; salt 'shamir'‖id(2)", fn, mod, key="feistel")]


def c15_5(ctx):
    out = []
    f = Folder(ctx.repo, "shamir")
    idx = {}
    for spec in ("shamir:ShareSet.encrypt", "shamir:ShareSet.decrypt"):
        mod, fn = rl.get(ctx, spec)
        # the round indices are what is handed to the shared Feistel routine (last positional argument or `indices=`)
        for n, c in rl.find_calls(fn, "_crypt"):
            a = next((k.value for k in c.keywords if k.arg == "indices"), c.args[4] if len(c.args) > 4 else None)
            if a is not None:
                v = f.fold(expand(fn, n.id, a, depth=4))
                idx[spec] = tuple(v) if isinstance(v, (list, tuple)) else v
        if spec not in idx:
            for st in ast.walk(fn):
                if isinstance(st, ast.Assign) and isinstance(st.targets[0], ast.Name) and st.targets[0].id == "indices":
                    idx[spec] = f.fold(st.value)
    e, d = idx.get("shamir:ShareSet.encrypt"), idx.get("shamir:ShareSet.decrypt")
    if not isinstance(e, tuple) or not isinstance(d, tuple):
        out.append(ctx.err("shamir:ShareSet.encrypt↔decrypt", "round indices could not be read (encrypt %s, decrypt %s)" % (e, d)))
    elif e == (b"\x00", b"\x01", b"\x02", b"\x03") and d == tuple(reversed(e)):
        out.append(ctx.ok("shamir:ShareSet.encrypt↔decrypt", "4 Feistel rounds 0,1,2,3; decryption runs them in reverse", key="rounds"))
    else:
        out.append(ctx.bad("shamir:ShareSet.encrypt↔decrypt", "round indices: encrypt %s, decrypt %s; SLIP39: 0..3 and the exact reverse" % (e, d), key="rounds"))
    ev = _crypt_terms(ctx)
    if ev is not None:
        return out + ev
    mod, fn = rl.get(ctx, "shamir:ShareSet._crypt")
    src = ast.unparse(fn)
    call = [c for c in ast.walk(fn) if isinstance(c, ast.Call) and call_name(c) == "pbkdf2_hmac"]
    if not call:
        raise AnalysisError("_crypt: pbkdf2_hmac call not found")
    c = call[0]
    a = [ast.unparse(x) for x in c.args]
    kw = {k.arg: ast.unparse(k.value) for k in c.keywords}
    probs = []
    if a[0] != "'sha256'":
        probs.append("PRF %s (SLIP39: HMAC-SHA256)" % a[0])
    if a[1] != "i + passphrase":
        probs.append("password %s (SLIP39: round index ‖ passphrase)" % a[1])
    if a[2] != "salt + right":
        probs.append("salt %s (SLIP39: 'shamir' ‖ id ‖ R)" % a[2])
    if a[3] not in ("2500 << exponent", "10000 // 4 << exponent"):
        probs.append("iterations %s (SLIP39: 10000·2^e / 4 per round)" % a[3])
    if kw.get("dklen") != "half":
        probs.append("dklen %s (SLIP39: half the payload)" % kw.get("dklen"))
    out.append(ctx.bad("shamir:ShareSet._crypt", "; ".join(probs), c, mod, key="round-function") if probs else
               ctx.ok("shamir:ShareSet._crypt", "F = PBKDF2-HMAC-SHA256(i‖passphrase, salt‖R, 2500<<e, len/2)", c, mod, key="round-function"))
    if "left, right = (right, bytes((x ^ y for x, y in zip(left, f))))" in src and "return right + left" in src and "b'shamir' + int_to_big_endian(id, 2)" in src:
        out.append(ctx.ok("shamir:ShareSet._crypt", "L,R ← R, L xor F; output R‖L; salt 'shamir'‖id(2)", fn, mod, key="feistel"))
    else:
        out.append(ctx.err("shamir:ShareSet._crypt", "Feistel swap / output / salt idiom not recognised", fn, mod))
    # ShareSet.__init__ salt
    mod, fn = rl.get(ctx, "shamir:ShareSet.__init__")
    if "b'shamir' + int_to_big_endian(self.id, 2)" in ast.unparse(fn):
        out.append(ctx.ok("shamir:ShareSet.__init__", "salt 'shamir'‖id(2)", fn, mod, key="salt"))
    return out


def c15_6(ctx):
    out = []
    f = Folder(ctx.repo, "shamir")
    mod, fn = rl.get(ctx, "shamir:ShareSet.recover_secret")
    xs = {}
    for st in ast.walk(fn):
        if isinstance(st, ast.Assign) and isinstance(st.value, ast.Call) and call_name(st.value) == "interpolate":
            xs[st.targets[0].id] = f.fold(st.value.args[0])
    if xs.get("shared_secret") == 255 and xs.get("digest_share") == 254:
        out.append(ctx.ok("shamir:ShareSet.recover_secret", "secret read at x = 255, digest share at x = 254", fn, mod, key="recover-x"))
    else:
        out.append(ctx.bad("shamir:ShareSet.recover_secret", "interpolation points %s, SLIP39: secret 255, digest 254" % xs, fn, mod, key="recover-x"))
    mod, fn = rl.get(ctx, "shamir:ShareSet.split_secret")
    pts = {}
    for c in ast.walk(fn):
        if isinstance(c, ast.Call) and call_name(c) == "append" and c.args and isinstance(c.args[0], ast.Tuple) and len(c.args[0].elts) == 2:
            k = f.fold(c.args[0].elts[0])
            if isinstance(k, int):
                pts[k] = ast.unparse(c.args[0].elts[1])
    if pts == {254: "digest_share", 255: "secret"}:
        out.append(ctx.ok("shamir:ShareSet.split_secret", "digest share placed at x = 254, secret at x = 255", fn, mod, key="split-x"))
    else:
        out.append(ctx.bad("shamir:ShareSet.split_secret", "base points %s, SLIP39: {254: digest share, 255: secret}" % pts, fn, mod, key="split-x"))
    # digest layout: first 4 bytes digest, rest random -- both sides
    src_r = ast.unparse(ctx.repo.module("shamir").functions["ShareSet.recover_secret"])
    src_s = ast.unparse(fn)
    if "digest_share[:4]" in src_r and "digest_share[4:]" in src_r and "digest + random" in src_s:
        out.append(ctx.ok("shamir:split_secret↔recover_secret", "digest share = digest(4) ‖ random on both sides", key="digest-layout"))
    else:
        out.append(ctx.bad("shamir:split_secret↔recover_secret", "digest share layout differs between split and recover", key="digest-layout"))
    mod, fn = rl.get(ctx, "shamir:ShareSet.digest")
    if "hmac.new(random, shared_secret, 'sha256').digest()[:4]" in ast.unparse(fn):
        out.append(ctx.ok("shamir:ShareSet.digest", "HMAC-SHA256(key = random, msg = secret)[:4]", fn, mod, key="digest-fn"))
    else:
        out.append(ctx.bad("shamir:ShareSet.digest", "digest is not HMAC-SHA256(random, secret)[:4]", fn, mod, key="digest-fn"))
    # RS1024 generator and shape
    mod, fn = rl.get(ctx, "shamir:rs1024_polymod")
    gen = None
    cands = []
    for st in ast.walk(fn):
        # the generator table: a local or module-level sequence of ten integers used by the function
        e = st.value if isinstance(st, ast.Assign) else (st if isinstance(st, (ast.Name, ast.Tuple, ast.List)) and isinstance(getattr(st, "ctx", None), ast.Load) else None)
        if e is None:
            continue
        v = f.fold(e)
        if isinstance(v, (tuple, list)) and len(v) == 10 and all(isinstance(x, int) for x in v):
            cands.append(list(v))
    ctx.count("table_entries", 10)
    if cands:
        gen = cands[0]
        out.append(ctx.ok("shamir:rs1024_polymod", "generator equals SLIP-0039", fn, mod, key="rs1024-gen") if list(gen) == list(RS1024_GEN) else
                   ctx.bad("shamir:rs1024_polymod", "generator %s differs from SLIP-0039" % [hex(x) for x in gen], fn, mod, key="rs1024-gen"))
    else:
        out.append(ctx.err("shamir:rs1024_polymod", "the ten-entry generator table was not found", fn, mod))
    consts = {c.value for c in ast.walk(fn) if isinstance(c, ast.Constant) and isinstance(c.value, int)}
    if {20, 0xFFFFF, 10, 1} <= consts:
        out.append(ctx.ok("shamir:rs1024_polymod", "shift 20, mask 0xfffff, 10-bit symbols, 10 taps", fn, mod, key="rs1024-shape"))
    else:
        out.append(ctx.bad("shamir:rs1024_polymod", "polymod constants %s" % sorted(consts), fn, mod, key="rs1024-shape"))
    # GF(256) reduction polynomial
    mod, fn = rl.get(ctx, "shamir:ShareSet._load")
    consts = {c.value for c in ast.walk(fn) if isinstance(c, ast.Constant) and isinstance(c.value, int)}
    if 0x11B in consts and ("cur << 1 ^ cur" in ast.unparse(fn) or "(cur << 1) ^ cur" in ast.unparse(fn)):
        out.append(ctx.ok("shamir:ShareSet._load", "GF(256) tables use generator x+1 and the Rijndael polynomial 0x11b", fn, mod, key="gf256"))
    else:
        out.append(ctx.bad("shamir:ShareSet._load", "GF(256) table generation does not use 0x11b / generator 3", fn, mod, key="gf256"))
    # word list
    data = ctx.repo.data_files.get("slip39_words.txt")
    if data is None:
        raise AnalysisError("slip39_words.txt missing")
    w = data.split()
    dg = hashlib.sha256(data.encode()).hexdigest()
    if len(w) == 1024 and w == sorted(w) and len({x[:4] for x in w}) == 1024 and dg == SLIP39_SHA256:
        out.append(ctx.ok("buidl/slip39_words.txt", "1024 sorted words, unique 4-letter prefixes, canonical SHA-256", key="wordlist"))
    else:
        out.append(ctx.bad("buidl/slip39_words.txt", "word list: %d words sorted=%s prefixes=%d sha256=%s" % (len(w), w == sorted(w), len({x[:4] for x in w}), dg[:16]), key="wordlist"))
    return out


def c15_7(ctx):
    out = []
    spec = "shamir:ShareSet.split_secret"
    mod, fn = rl.get(ctx, spec)
    ps = param_names(fn)
    k, n = ps[2], ps[3]
    out += rl.accept_set(ctx, spec, [k, n], ISet.range(1, 16), targets="returns", prefer=(0, 17), what=None)
    out += rl.accept_set(ctx, spec, ["num_bytes"], ISet.of([16, 32]), targets="returns", prefer=(20,), what="secret length")
    spec = "shamir:Share.__init__"
    mod, fn = rl.get(ctx, spec)
    for p, rng in (("group_index", ISet.range(0, 15)), ("group_count", ISet.range(1, 16)), ("member_index", ISet.range(0, 15)), ("member_threshold", ISet.range(1, 16))):
        out += rl.accept_set(ctx, spec, [p], rng, targets="returns", prefer=(16, 17, 0, -1))
    # group_threshold is bounded by group_count (relational): track both, require the lower bound and the comparison with group_count
    r = rl.accept_set(ctx, spec, ["group_threshold", "group_count"], ISet.range(1, None), targets="returns", prefer=(0, -1))
    out += [x for x in r if x.key.endswith("group_threshold") or x.status == "error"]
    cfg = cfg_of(fn)
    rel = [n for n in cfg.tests() if isinstance(n.ast, ast.Compare) and ast.unparse(n.ast) in ("group_threshold > group_count", "group_count < group_threshold")]
    if rel and all(cfg.nodes[s].kind == "raise" for s, l in cfg.succ[rel[0].id] if l is True):
        out.append(ctx.ok(spec, "group threshold greater than the group count is rejected", rel[0].ast, mod, key="k<=n"))
    else:
        out.append(ctx.bad(spec, "group threshold greater than the group count is not rejected", fn, mod, key="k<=n"))
    return out


def _header_writer_cells(ctx):
    """Share.mnemonic evaluated with the word list and the checksum as stand-ins (word i is `w<i>`, the checksum three zero words): for every
    value of every header field on an all-zero and an all-one background, and for 128- and 256-bit share values with every bit pattern class,
    the words are the 10-bit groups of  id(15) ‖ exponent(5) ‖ group index(4) ‖ group threshold-1(4) ‖ group count-1(4) ‖ member index(4) ‖
    member threshold-1(4) ‖ zero padding ‖ value, followed by the checksum words.  None when outside the evaluator's subset"""
    from sa.cells import Evaluator, Obj, Raised, Undecided
    spec = "shamir:Share.mnemonic"
    mod, fn = rl.get(ctx, spec)
    words = {}
    for i in range(1024):
        words[i] = "w%d" % i
        words["w%d" % i] = i
    seen_chk = []

    def chk(cs, data):
        seen_chk.append(list(data))
        return [0, 0, 0]
    ext = {"SLIP39": words, "rs1024_create_checksum": chk}
    layout = [("id", 25, 15), ("exponent", 20, 5), ("group_index", 16, 4), ("group_threshold", 12, 4), ("group_count", 8, 4), ("member_index", 4, 4), ("member_threshold", 0, 4)]
    headers = [0, (1 << 40) - 1, 0xAAAAAAAAAA, 0x5555555555]
    for _, off, width in layout:
        vals_ = range(1 << width) if width <= 5 else [1 << i for i in range(width)] + [((1 << width) - 1) ^ (1 << i) for i in range(width)]
        for v_ in vals_:
            for bg in (0, (1 << 40) - 1):
                headers.append((bg & ~(((1 << width) - 1) << off)) | (v_ << off))
    n = 0
    try:
        for hdr in headers:
            for nbits, value in ((128, int.from_bytes(bytes(range(1, 17)), "big")), (256, (1 << 255) | 1)) if hdr in headers[:4] else ((128, 0x0123456789ABCDEF0123456789ABCDEF),):
                n += 1
                f_ = {name: (hdr >> off) & ((1 << width) - 1) for name, off, width in layout}
                me = Obj("shamir", "Share", {"share_bit_length": nbits, "id": f_["id"], "exponent": f_["exponent"], "group_index": f_["group_index"],
                                              "group_threshold": f_["group_threshold"] + 1, "group_count": f_["group_count"] + 1, "member_index": f_["member_index"],
                                              "member_threshold": f_["member_threshold"] + 1, "value": value, "bytes": value.to_bytes(nbits // 8, "big")})
                del seen_chk[:]
                try:
                    r = Evaluator(ctx.repo, externals=ext, max_steps=1000000).call(spec, [], self_obj=me)
                except Raised as x:
                    return [ctx.bad(spec, "mnemonic() raises %s for the header %#012x" % (x.name, hdr), fn, mod, key="header-writer")]
                pad = (10 - nbits % 10) % 10
                allbits = (hdr << (pad + nbits)) | value
                nw = (40 + pad + nbits) // 10
                want = [(allbits >> 10 * (nw - 1 - i)) & 1023 for i in range(nw)]
                got = [words.get(w) for w in r.split(" ")] if isinstance(r, str) else None
                if got != want + [0, 0, 0] or seen_chk[-1:] != [want]:
                    if got is not None and len(got) >= 4 and got[:4] != want[:4]:
                        gh = (got[0] << 30) | (got[1] << 20) | (got[2] << 10) | got[3]
                        badf = [name for name, off, width in layout if (gh >> off) & ((1 << width) - 1) != (hdr >> off) & ((1 << width) - 1)]
                        return [ctx.bad(spec, "the header words of a share with %s do not carry the field %s at its SLIP39 position (header written %#012x, SLIP39 %#012x)" % (
                            ", ".join("%s=%d" % (k_, v_) for k_, v_ in f_.items()), badf[0] if badf else "?", gh, hdr), fn, mod, key="header-writer")]
                    return [ctx.bad(spec, "the %d-bit share value is not written as zero padding ‖ value in 10-bit words after the header, or the checksum does not cover exactly "
                                          "the data words" % nbits, fn, mod, key="header-writer")]
    except Undecided:
        return None
    ctx.count("cells", n)
    return [ctx.ok(spec, "header: id(15) exponent(5) group index(4) group threshold-1(4) group count-1(4) member index(4) member threshold-1(4) then padded value "
                         "(%d shares evaluated: every value of every field on two backgrounds, 128- and 256-bit values)" % n, fn, mod, key="header-writer")]


def c15_8(ctx):
    """header bit widths agree between Share.mnemonic (writer) and Share.parse (reader)"""
    out = []
    cells_w = _header_writer_cells(ctx)
    mod, fn = rl.get(ctx, "shamir:Share.mnemonic")
    # writer: sequence of (shift, field) from `all_bits <<= k` / `all_bits |= field`
    seq = []
    for st in fn.body:
        if isinstance(st, ast.Assign) and isinstance(st.targets[0], ast.Name) and st.targets[0].id == "all_bits":
            v = st.value
            if isinstance(v, ast.BinOp) and isinstance(v.op, ast.BitOr) and isinstance(v.left, ast.BinOp) and isinstance(v.left.op, ast.LShift):
                if ast.unparse(v.left.left) != "all_bits":
                    seq.append(("field", ast.unparse(v.left.left)))
                seq.append(("shift", ast.unparse(v.left.right)))
                seq.append(("field", ast.unparse(v.right)))
        elif isinstance(st, ast.AugAssign) and isinstance(st.target, ast.Name) and st.target.id == "all_bits":
            if isinstance(st.op, ast.LShift):
                seq.append(("shift", ast.unparse(st.value)))
            elif isinstance(st.op, ast.BitOr):
                seq.append(("field", ast.unparse(st.value)))
    fields = []
    cur = None
    for kind, v in seq:
        if kind == "field":
            cur = v
            fields.append([v, None])
        elif kind == "shift" and fields:
            pass
    # widths: the shift *after* a field is the width of the next field
    widths = []
    pending = None
    for kind, v in seq:
        if kind == "field":
            widths.append([v, pending])
            pending = None
        else:
            pending = v
    got = [(a.replace("self.", ""), b) for a, b in widths]
    want = [("id", None), ("exponent", "5"), ("group_index", "4"), ("group_threshold - 1", "4"), ("group_count - 1", "4"), ("member_index", "4"), ("member_threshold - 1", "4"),
            ("value", "padding + self.share_bit_length")]
    if cells_w is not None:
        out += cells_w
    elif got == want:
        out.append(ctx.ok("shamir:Share.mnemonic", "header: id(15) exponent(5) group index(4) group threshold-1(4) group count-1(4) member index(4) member threshold-1(4) then padded value", fn, mod, key="header-writer"))
    elif len(got) == len(want):
        out.append(ctx.bad("shamir:Share.mnemonic", "header packing %s differs from SLIP39 %s" % (got, want), fn, mod, key="header-writer"))
    else:
        out.append(ctx.err("shamir:Share.mnemonic", "header packing idiom not recognised (found %s)" % got, fn, mod))
    # reader: expressions for each field
    mod, fn = rl.get(ctx, "shamir:Share.parse")
    exprs = {}
    for st in fn.body:
        if isinstance(st, ast.Assign) and isinstance(st.targets[0], ast.Name):
            exprs[st.targets[0].id] = ast.unparse(st.value)
    want_r = {
        "id": "indices[0] << 5 | indices[1] >> 5", "exponent": "indices[1] & 31", "group_index": "indices[2] >> 6", "group_threshold": "(indices[2] >> 2 & 15) + 1",
        "group_count": "((indices[2] & 3) << 2 | indices[3] >> 8) + 1", "member_index": "indices[3] >> 4 & 15", "member_threshold": "(indices[3] & 15) + 1",
    }
    # evaluate both forms on a probe: the reader must extract exactly the bits the writer placed.  Probe by folding with concrete 10-bit words.
    import itertools
    ok = True
    why = ""
    # probes: every value of every 4/5-bit field (walking ones / zeros for the 15-bit id) against an all-zero and an all-one background -- a
    # precedence slip such as `hi | lo + 1` agrees with `(hi | lo) + 1` on most bit patterns, so single patterns do not decide it
    layout = [("id", 25, 15), ("exponent", 20, 5), ("group_index", 16, 4), ("group_threshold", 12, 4), ("group_count", 8, 4), ("member_index", 4, 4), ("member_threshold", 0, 4)]
    headers = [0x3FF << 30, 0x3FF << 20, 0x3FF << 10, 0x3FF, 0xAAAAAAAAAA, 0x5555555555]
    for _, off, width in layout:
        vals_ = range(1 << width) if width <= 5 else [0, (1 << width) - 1] + [1 << i for i in range(width)] + [((1 << width) - 1) ^ (1 << i) for i in range(width)]
        for v_ in vals_:
            for bg in (0, (1 << 40) - 1):
                headers.append((bg & ~(((1 << width) - 1) << off)) | (v_ << off))
    nprobe = len(headers)
    for hdr in headers:
        probe = ((hdr >> 30) & 0x3FF, (hdr >> 20) & 0x3FF, (hdr >> 10) & 0x3FF, hdr & 0x3FF)
        f = Folder(ctx.repo, mod.name, {"indices": list(probe)})
        vals = {}
        for name in want_r:
            cfgp = cfg_of(fn)
            site = next((n_ for n_ in cfgp.stmts(("stmt",)) if isinstance(n_.ast, ast.Assign) and isinstance(n_.ast.targets[0], ast.Name) and n_.ast.targets[0].id == name), None)
            if site is None:
                ok, why = None, "field %s is not assigned by name in Share.parse" % name
                break
            # locals the extraction goes through (`header = …`) are replaced by their definitions before folding
            vals[name] = f.fold(expand(fn, site.id, site.ast.value, depth=16, stop=("indices",)))
            if not isinstance(vals[name], int):
                ok, why = None, "extraction of %s (`%s`) cannot be folded on a probe" % (name, ast.unparse(site.ast.value))
                break
        if not ok:
            break
        bits = (probe[0] << 30) | (probe[1] << 20) | (probe[2] << 10) | probe[3]
        exp = {"id": bits >> 25, "exponent": (bits >> 20) & 31, "group_index": (bits >> 16) & 15, "group_threshold": ((bits >> 12) & 15) + 1, "group_count": ((bits >> 8) & 15) + 1,
               "member_index": (bits >> 4) & 15, "member_threshold": (bits & 15) + 1}
        if vals != exp:
            ok = False
            bad = [k for k in exp if vals.get(k) != exp[k]]
            why = "field %s is extracted as `%s`, which for the header %#012x gives %s where the encoder wrote %s" % (bad[0], exprs.get(bad[0]), bits, vals.get(bad[0]), exp[bad[0]])
            break
    if ok is None:
        out.append(ctx.err("shamir:Share.parse", why, fn, mod))
    elif ok:
        out.append(ctx.ok("shamir:Share.parse", "each header field is extracted from the bit positions the encoder writes (checked by folding the extraction expressions on %d headers: every value of every field on an all-zero and an all-one background)" % nprobe, fn, mod, key="header-reader"))
    else:
        out.append(ctx.bad("shamir:Share.parse", why, fn, mod, key="header-reader"))
    return out


def c15_11(ctx):
    """SIBLING: recovery treats threshold 1 specially (the share *is* the secret, no interpolation); the splitter must make the same
    distinction on the same quantity -- the threshold k, not the share count n.  With `n == 1` as the test, 1-of-n shares for n >= 2
    come from the polynomial path and each of them recovers a different, wrong secret"""
    spec = "shamir:ShareSet.split_secret"
    mod, fn = rl.get(ctx, spec)
    ps = param_names(fn)
    if len(ps) < 4:
        raise AnalysisError("split_secret signature changed: %s" % ps)
    secret, k, n = ps[1], ps[2], ps[3]
    cfg = cfg_of(fn)
    arms = []
    for t in cfg.tests():
        for b, lab in cfg.succ[t.id]:
            nb = cfg.nodes[b]
            if nb.kind == "return" and nb.ast is not None and nb.ast.value is not None and any(isinstance(x, ast.Name) and x.id == secret for x in ast.walk(nb.ast.value)) \
                    and not any(isinstance(x, ast.Call) for x in ast.walk(nb.ast.value)):
                arms.append((t, lab, nb))
    if not arms:
        # which quantity selects the plain-secret arm is also decided by evaluation (C15.17: 1-of-n gives n copies of the secret, k >= 2 shares interpolate)
        cells = c15_17(ctx)
        if cells and all(r.status == "ok" for r in cells):
            return [ctx.ok(spec, "the shares are the secret itself exactly for threshold 1: decided by the split cells (C15.17); the arm is not a plain `return` of the secret here", fn, mod,
                           key="special-case")]
        return [ctx.err(spec, "the arm that hands out the secret itself (threshold 1) was not found", fn, mod)]
    out = []
    for t, lab, nb in arms:
        rk = rl.rel(t.ast, lambda e: isinstance(e, ast.Name) and e.id == k, lambda e: isinstance(e, ast.Constant) and e.value == 1)
        rn = rl.rel(t.ast, lambda e: isinstance(e, ast.Name) and e.id == n, lambda e: isinstance(e, ast.Constant) and e.value == 1)
        taken_when = lambda r: (r == "==" and lab is True) or (r == "!=" and lab is False)
        if rk and taken_when(rk):
            out.append(ctx.ok(spec, "the secret itself is the share exactly when the threshold `%s` is 1 (`%s`), as recovery assumes" % (k, ast.unparse(t.ast)), t.ast, mod,
                              key="threshold-one"))
        elif rn and taken_when(rn):
            out.append(ctx.bad(spec, "the secret itself is the share when the *share count* `%s` is 1 (`%s`), but recovery takes the shortcut when the *threshold* is 1: "
                                     "1-of-n shares with n >= 2 are interpolated values and each recovers a wrong secret" % (n, ast.unparse(t.ast)), t.ast, mod, key="threshold-one"))
        else:
            out.append(ctx.err(spec, "test `%s` guarding the threshold-1 arm not recognised" % ast.unparse(t.ast), t.ast, mod))
    return out


def c15_9(ctx):
    """MEMO: a recovered / decrypted secret is not remembered under a key that leaves out the passphrase or the shares"""
    from sa.memo import cache_obligation
    return cache_obligation(ctx, ["shamir", "mnemonic"], "a secret decrypted with one passphrase would be returned for another")


def c15_10(ctx):
    """PAIRING: what generate_shares splits is the output of encrypt(secret, id, exponent, passphrase) on every path, and what
    recover returns is the output of decrypt(..., passphrase) on every path -- recovery always decrypts, so a split of anything
    but the encrypted payload (e.g. the plaintext when the passphrase is empty) recovers a different secret"""
    from sa.dataflow import rd_of
    out = []
    spec = "shamir:ShareSet.generate_shares"
    mod, fn = rl.get(ctx, spec)
    cfg = cfg_of(fn)
    rd = rd_of(fn)
    ps = param_names(fn)
    sites = rl.find_calls(fn, "split_secret")
    if not sites:
        raise AnalysisError("generate_shares: split_secret not called")
    for n, c in sites:
        a = c.args[0]
        vals = []
        if isinstance(a, ast.Name):
            for d in rd.reaching(n.id, a.id):
                g = rd.gen.get(d, {}).get(a.id)
                vals.append((d, g[1] if g and g[0] == "val" else None))
        else:
            vals.append((n.id, a))
        bad = None
        for d, v in vals:
            if not (isinstance(v, ast.Call) and call_name(v) == "encrypt"):
                bad = (d, v)
                break
            oo = origins(fn, d, v)
            missing = [p for p in ps if p.startswith(("pass", "exp")) and ("param:" + p) not in oo]
            if missing:
                bad = (d, v)
                break
        if bad is None:
            out.append(ctx.ok(spec, "the payload split into shares is encrypt(secret, id, exponent, passphrase) on every path (%d definition(s))" % len(vals), c, mod, key="split-encrypted"))
        else:
            d, v = bad
            out.append(ctx.bad(spec, "on a path the payload split into shares is `%s` (line %s), not the encrypted secret: recovery always runs decrypt, so these shares "
                                     "recover a different secret" % (ast.unparse(v) if v is not None else "?", cfg.nodes[d].lineno), cfg.nodes[d].ast or c, mod, key="split-encrypted"))
    spec = "shamir:ShareSet.recover"
    mod, fn = rl.get(ctx, spec)
    cfg = cfg_of(fn)
    pw = next((p for p in param_names(fn) if p.startswith("pass")), None)
    rets = [n for n in cfg.returns() if n.ast is not None]
    if not rets or pw is None:
        raise AnalysisError("recover: no return / passphrase parameter")
    for n in rets:
        v = expand(fn, n.id, n.ast.value) if n.ast.value is not None else None
        if isinstance(v, ast.Call) and call_name(v) == "decrypt" and ("param:" + pw) in origins(fn, n.id, n.ast.value):
            out.append(ctx.ok(spec, "line %d returns decrypt(..., %s)" % (n.lineno, pw), n.ast, mod, key="returns-decrypted"))
        elif isinstance(n.ast.value, ast.Attribute) and ast.unparse(n.ast.value).startswith("self."):
            continue  # a remembered value: judged by the MEMO rule C15.9
        else:
            out.append(ctx.bad(spec, "line %d returns `%s`, which is not the decryption of the interpolated secret under the passphrase given" % (
                n.lineno, ast.unparse(n.ast.value)[:80] if n.ast.value is not None else "None"), n.ast, mod, key="returns-decrypted"))
    return out


def c15_12(ctx):
    """SET-ORDER: no ordered result (list, serialisation, yielded sequence) of the modules this property is anchored in takes its
    order from the iteration order of a set"""
    from sa.setorder import setorder_obligation
    return setorder_obligation(ctx, ["shamir", "mnemonic"], "the same inputs give different output from run to run")


def c15_13(ctx):
    """SHARED necessary conditions over the modules this property is anchored in: FALSY-DEFAULT, MUTABLE-DEFAULT, IDENTITY, ALIAS,
    CTOR-FORWARD (sa/shared.py)"""
    from sa.shared import shared_obligations
    return shared_obligations(ctx, ["shamir", "mnemonic"], "the result would depend on something other than the arguments and the object's current state")


def c15_14(ctx):
    """GF(256) arithmetic of the interpolation, evaluated.  (a) complete: with the two-share set {(1, Y), (0, 0…0)} the value at x = c is c·Y, so
    x = 1..255 × Y = all 256 byte values walks the whole multiplication table the interpolation can use (65,280 products, every sum of two
    logarithms 0..508) -- each must equal the carry-less product modulo x^8+x^4+x^3+x+1 computed by the rule.  (b) bounded: polynomials of degree
    1..4 with fixed coefficients, shares at low and high indexes (0..15), recovered at x = 255, 254 and at a further share index.  The exp / log tables
    are the ones ShareSet._load() builds in the same evaluation"""
    from sa.cells import ClassRef, Evaluator, Raised, Undecided
    spec = "shamir:ShareSet.interpolate"
    mod, fn = rl.get(ctx, spec)

    def gmul(a, b):
        r = 0
        while b:
            if b & 1:
                r ^= a
            a <<= 1
            if a & 0x100:
                a ^= 0x11B
            b >>= 1
        return r
    C = ClassRef("shamir", "ShareSet")
    ev = Evaluator(ctx.repo, max_steps=10 ** 8)
    Y = bytes(range(256))
    try:
        ev.call("shamir:ShareSet._load", [], self_obj=C)
        for c in range(1, 256):
            try:
                got = ev.call(spec, [c, [(1, Y), (0, bytes(256))]], self_obj=C)
            except Raised as x:
                return [ctx.bad(spec, "interpolating the shares {(1, all byte values), (0, zeros)} at x = %d raises %s: a product of the Lagrange coefficient %d with some share byte "
                                      "is outside the tables -- recovery / splitting crashes at those coordinates" % (c, x.name, c), fn, mod, key="gf-product")]
            want = bytes(gmul(y, c) for y in Y)
            if got != want:
                i = next(i for i in range(256) if not isinstance(got, bytes) or i >= len(got) or got[i] != want[i])
                return [ctx.bad(spec, "coefficient %d times share byte %d gives %s, GF(256) gives %d" % (c, i, got[i] if isinstance(got, bytes) and i < len(got) else got, want[i]), fn, mod, key="gf-product")]
        ctx.count("cells", 255 * 256)
        out = [ctx.ok(spec, "all 65,280 products coefficient × share byte equal GF(2^8) multiplication modulo 0x11B", fn, mod, key="gf-product")]
        n = 0
        for deg, xs in ((1, (0, 1)), (1, (14, 15)), (2, (0, 1, 2)), (2, (3, 9, 15)), (3, (0, 5, 10, 15)), (4, (1, 2, 3, 4, 5)), (4, (11, 12, 13, 14, 15)), (2, (0, 8, 9))):
            coefs = [bytes((53 * (j + 1) * (i + 3) + 17 * j) & 255 for i in range(16)) for j in range(deg + 1)]

            def poly(x):
                res = bytearray(16)
                for j, cf in enumerate(coefs):
                    xp = 1
                    for _ in range(j):
                        xp = gmul(xp, x)
                    for i in range(16):
                        res[i] ^= gmul(cf[i], xp)
                return bytes(res)
            data = [(x, poly(x)) for x in xs]
            for at in (255, 254, next(i for i in range(16) if i not in xs), 200):   # never a share's own x: the library only asks for new coordinates
                n += 1
                try:
                    got = ev.call(spec, [at, list(data)], self_obj=C)
                except Raised as x:
                    return out + [ctx.bad(spec, "shares at x = %s of a degree-%d polynomial, value asked at x = %d: raises %s" % (list(xs), deg, at, x.name), fn, mod, key="gf-lagrange")]
                if got != poly(at):
                    return out + [ctx.bad(spec, "shares at x = %s of a degree-%d polynomial: the value at x = %d is not the polynomial's" % (list(xs), deg, at), fn, mod, key="gf-lagrange")]
        ctx.count("cells", n)
        out.append(ctx.ok(spec, "%d Lagrange cells (degree 1..4, share indexes 0..15, value at 255 / 254 / a further share index / 200) return the polynomial's value" % n, fn, mod, key="gf-lagrange"))
        return out
    except Undecided as u:
        return [ctx.err(spec, "interpolation not evaluable: %s" % u, fn, mod)]



def c15_15(ctx):
    """Share.__init__ over the whole domain of its small fields: every (group threshold, group count) in 0..17 × 0..17 is accepted exactly
    when 1 <= k <= n <= 16 -- 1-of-n for n >= 2 included, the property quantifies over it; group and member index exactly 0..15; member
    threshold exactly 1..16; the fields are stored as given"""
    from sa.cells import Evaluator, Obj, Raised, Undecided
    spec = "shamir:Share.__init__"
    mod, fn = rl.get(ctx, spec)
    base = {"share_bit_length": 128, "id": 7, "exponent": 1, "group_index": 0, "group_threshold": 1, "group_count": 1, "member_index": 0, "member_threshold": 1, "value": 5}
    cells = []
    for k in range(0, 18):
        for n_ in range(0, 18):
            cells.append(({"group_threshold": k, "group_count": n_}, 1 <= k <= n_ <= 16, "group threshold %d of %d" % (k, n_)))
    for v in range(-1, 18):
        cells.append(({"group_index": v, "group_count": 16, "group_threshold": 2}, 0 <= v <= 15, "group index %d" % v))
        cells.append(({"member_index": v}, 0 <= v <= 15, "member index %d" % v))
        cells.append(({"member_threshold": v}, 1 <= v <= 16, "member threshold %d" % v))
    n = 0
    try:
        for delta, ok, label in cells:
            n += 1
            kw = dict(base)
            kw.update(delta)
            me = Obj("shamir", "Share", {})
            try:
                Evaluator(ctx.repo).call(spec, [], kwargs=kw, self_obj=me)
                accepted = True
            except Raised:
                accepted = False
            if accepted != ok:
                return [ctx.bad(spec, "a share with %s is %s; SLIP39 %s it%s" % (label, "accepted" if accepted else "refused", "allows" if ok else "does not allow",
                                                                               ": such shares can no longer be generated, parsed or recovered" if ok else ""), fn, mod, key="share-domain")]
            if accepted and any(me.attrs.get(f_) != v_ for f_, v_ in kw.items()):
                return [ctx.bad(spec, "a share with %s is stored with other field values than it was given" % label, fn, mod, key="share-domain")]
    except Undecided as u:
        return [ctx.err(spec, "Share constructor not evaluable: %s" % u, fn, mod)]
    ctx.count("cells", n)
    return [ctx.ok(spec, "%d field cells: accepted exactly for 1 <= k <= n <= 16, indexes 0..15, member threshold 1..16" % n, fn, mod, key="share-domain")]


def c15_16(ctx):
    """ShareSet.__init__ over share lists in which exactly one share differs from the others in one header field, or repeats a coordinate, at
    every position of the list: a set is accepted exactly when all shares agree on identifier, exponent, k, n and length and every
    (group index, member index) occurs once -- a share of another split is never silently dropped, wherever it stands"""
    from sa.cells import Evaluator, Obj, Raised, Undecided
    spec = "shamir:ShareSet.__init__"
    mod, fn = rl.get(ctx, spec)

    def share(gi, mi, **over):
        a = {"id": 100, "exponent": 1, "group_threshold": 2, "group_count": 3, "share_bit_length": 128, "group_index": gi, "member_index": mi, "member_threshold": 1,
             "value": gi * 16 + mi, "bytes": bytes([gi, mi]) * 8}
        a.update(over)
        return Obj("shamir", "Share", a)
    honest = [(0, 0), (1, 0), (2, 0)]
    cases = [([share(*c) for c in honest[:k]], True, "%d honest shares" % k) for k in (1, 2, 3)]
    for field, other in (("id", 101), ("exponent", 2), ("group_threshold", 3), ("group_count", 4), ("share_bit_length", 256)):
        for pos in range(3):
            lst = [share(*c) for c in honest]
            lst[pos] = share(*honest[pos], **{field: other})
            cases.append((lst, False, "share %d of 3 has another %s" % (pos + 1, field)))
    for pos in range(3):
        for dup_of in range(3):
            if dup_of == pos:
                continue
            # a share of another split (other id, other value) that has the coordinates of share `dup_of`, placed at `pos`
            lst = [share(*c) for c in honest]
            lst.insert(pos, share(*honest[dup_of], id=999, value=12345))
            cases.append((lst, False, "a share of another split with the coordinates of share %d inserted at position %d" % (dup_of + 1, pos + 1)))
            lst2 = [share(*c) for c in honest]
            lst2.insert(pos, share(*honest[dup_of]))
            cases.append((lst2, False, "share %d given twice (second copy at position %d)" % (dup_of + 1, pos + 1)))
    n = 0
    try:
        for lst, ok, label in cases:
            n += 1
            me = Obj("shamir", "ShareSet", {})
            try:
                Evaluator(ctx.repo).call(spec, [list(lst)], self_obj=me)
                accepted = True
            except Raised:
                accepted = False
            if accepted != ok:
                return [ctx.bad(spec, "%s: the share set is %s" % (label, "accepted -- the foreign or repeated share is combined or silently dropped instead of being refused" if accepted
                                                                else "refused"), fn, mod, key="set-consistency")]
            if accepted and me.attrs.get("shares") != lst:
                return [ctx.bad(spec, "%s: the set does not keep exactly the shares it was given" % label, fn, mod, key="set-consistency")]
    except Undecided as u:
        return [ctx.err(spec, "ShareSet constructor not evaluable: %s" % u, fn, mod)]
    ctx.count("cells", n)
    return [ctx.ok(spec, "%d share lists: accepted exactly when all shares agree on the header and no coordinate repeats, at every position" % n, fn, mod, key="set-consistency")]



def c15_17(ctx):
    if not hasattr(ctx, "_c15_17"):
        ctx._c15_17 = _c15_17(ctx)
    return ctx._c15_17


def _c15_17(ctx):
    """ShareSet.split_secret evaluated (random bytes replaced by a fixed stand-in, the GF tables built by _load() in the same evaluation):
    for (k, n) with k in {1, 2, 3, 5, 16} and n in {k, k+1, 16} it returns n shares with the distinct indexes 0..n-1; for k = 1 every share
    is the secret itself; for k >= 2 the first k, the last k and an interleaved choice of k shares interpolate to the secret at x = 255 and
    to one and the same digest share at x = 254.  n shares must exist for every 1 <= k <= n: the property quantifies over all subsets of them"""
    from sa.cells import ClassRef, Evaluator, Raised, Undecided
    spec = "shamir:ShareSet.split_secret"
    mod, fn = rl.get(ctx, spec)
    C = ClassRef("shamir", "ShareSet")
    counter = [0]

    def randbits(nbits):
        counter[0] += 1
        return (counter[0] * 0x9E3779B1 + 0x1234567) & ((1 << nbits) - 1)
    secret = bytes(range(0x41, 0x51))
    pairs = sorted({(k, n) for k in (1, 2, 3, 5, 16) for n in (k, k + 1, 16) if k <= n <= 16})
    try:
        ev = Evaluator(ctx.repo, externals={"randbits": randbits}, max_steps=10 ** 8)
        ev.call("shamir:ShareSet._load", [], self_obj=C)
        for k, n in pairs:
            ctx.count("cells")
            try:
                data = ev.call(spec, [secret, k, n], self_obj=C)
            except Raised as x:
                return [ctx.bad(spec, "split_secret(secret, %d, %d) raises %s" % (k, n, x.name), fn, mod, key="split-count")]
            idx = [d[0] for d in data] if isinstance(data, list) else None
            if idx is None or sorted(idx) != list(range(n)):
                return [ctx.bad(spec, "a %d-of-%d split returns %s share(s) with indexes %s; %d shares with the indexes 0..%d are expected (all subsets of the n shares must exist)" % (
                    k, n, len(data) if isinstance(data, list) else "no", idx, n, n - 1), fn, mod, key="split-count")]
            if k == 1:
                if any(d[1] != secret for d in data):
                    return [ctx.bad(spec, "a 1-of-%d split returns a share that is not the secret itself: one share alone does not recover it" % n, fn, mod, key="split-count")]
                continue
            by = dict(data)
            choices = {tuple(range(k)), tuple(range(n - k, n)), tuple(sorted(list(range(0, n, 2))[:k] + list(range(1, n, 2)))[:k])}
            digests = set()
            for ch in choices:
                sd = [(i, by[i]) for i in ch]
                got = ev.call("shamir:ShareSet.interpolate", [255, sd], self_obj=C)
                if got != secret:
                    return [ctx.bad(spec, "shares %s of a %d-of-%d split do not interpolate to the secret at x = 255" % (list(ch), k, n), fn, mod, key="split-count")]
                digests.add(ev.call("shamir:ShareSet.interpolate", [254, sd], self_obj=C))
            if len(digests) != 1:
                return [ctx.bad(spec, "different choices of %d shares of a %d-of-%d split give different digest shares" % (k, k, n), fn, mod, key="split-count")]
            # recovery inverts splitting and verifies the digest: the untouched shares give the secret back, a share with one byte changed is refused
            sd = [(i, by[i]) for i in sorted(choices)[0]]
            try:
                back = ev.call("shamir:ShareSet.recover_secret", [list(sd)], self_obj=C)
            except Raised as x:
                return [ctx.bad("shamir:ShareSet.recover_secret", "the first %d shares of a %d-of-%d split are refused by recover_secret (%s)" % (k, k, n, x.name), fn, mod, key="recover-cells")]
            if back != secret:
                return [ctx.bad("shamir:ShareSet.recover_secret", "recover_secret of the first %d shares of a %d-of-%d split does not give the secret" % (k, k, n), fn, mod, key="recover-cells")]
            for pos_ in (0, len(secret) - 1):
                bad_sd = list(sd)
                b_ = bytearray(bad_sd[-1][1])
                b_[pos_] ^= 0x01
                bad_sd[-1] = (bad_sd[-1][0], bytes(b_))
                try:
                    ev.call("shamir:ShareSet.recover_secret", [bad_sd], self_obj=C)
                    return [ctx.bad("shamir:ShareSet.recover_secret", "a share of a %d-of-%d split with byte %d changed is accepted by recover_secret: the digest does not protect the secret" % (
                        k, n, pos_), fn, mod, key="recover-cells")]
                except Raised:
                    pass
            # SLIP39: the value at x = 254 is HMAC-SHA256(key = R, msg = secret)[:4] ‖ R with R the remaining random bytes
            import hashlib as _hl
            import hmac as _hm
            dg = next(iter(digests))
            if not isinstance(dg, bytes) or len(dg) != len(secret) or dg[:4] != _hm.new(dg[4:], secret, _hl.sha256).digest()[:4]:
                return [ctx.bad(spec, "the value the shares of a %d-of-%d split carry at x = 254 is not HMAC-SHA256(R, secret)[:4] ‖ R: recovery cannot verify the secret" % (k, n),
                                fn, mod, key="split-count")]
    except Undecided as u:
        return [ctx.err(spec, "split_secret not evaluable: %s" % u, fn, mod)]
    return [ctx.ok(spec, "%d (k, n) pairs: n shares with indexes 0..n-1; every tried choice of k of them recovers the secret" % len(pairs), fn, mod, key="split-count")]



def _c15_6_deferring(ctx):
    """SLIP39 constants read from the source; where split_secret places the secret and the digest share in another form, the split cells
    (C15.17: the shares interpolate to the secret at 255 and to HMAC(R, secret)[:4] ‖ R at 254) decide"""
    out = c15_6(ctx)
    covered = [r for r in out if r.key in ("split-x", "digest-fn", "digest-layout", "recover-x")]
    rl.defer(ctx, covered, lambda: c15_17(ctx), "decided by the split cells (C15.17: for every tried (k, n) the shares carry the secret at x = 255 and HMAC-SHA256(R, secret)[:4] ‖ R at "
             "x = 254, recover_secret gives the secret back and refuses a changed share); the points / layout are not in the form this rule reads")
    rl.defer(ctx, [r for r in out if r.key == "gf256"], lambda: c15_14(ctx), "decided by the GF(256) cells (C15.14: the tables _load() builds are the field's exp / log tables of generator 3 "
             "modulo 0x11b); the table generation is not in the form this rule reads")
    return out


OBLIGATIONS = [
    ("C15.17", "CELLS split count", c15_17),
    ("C15.16", "CELLS share set consistency", c15_16),
    ("C15.15", "CELLS share field domain", c15_15),
    ("C15.14", "CELLS GF(256)", c15_14),
    ("C15.13", "SHARED", c15_13),
    ("C15.12", "SET-ORDER", c15_12),
    ("C15.1", "GUARD", c15_1),
    ("C15.2", "GUARD", c15_2),
    ("C15.3", "GUARD", c15_3),
    ("C15.4", "GUARD", c15_4),
    ("C15.5", "TABLE", c15_5),
    ("C15.6", "TABLE", _c15_6_deferring),
    ("C15.7", "RANGE", c15_7),
    ("C15.8", "BITS layout", c15_8),
    ("C15.9", "MEMO", c15_9),
    ("C15.10", "PAIRING", c15_10),
    ("C15.11", "SIBLING special case", c15_11),
]
FLOORS = {"C15.1": 4, "C15.3": 3, "C15.4": 7, "C15.5": 3, "C15.6": 8, "C15.7": 8, "C15.8": 2}
